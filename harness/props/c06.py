"""C06 — selection operators return exactly k references and respect their ordering
(deap/tools/selection.py, deap/tools/emo.py: selTournamentDCD)."""
import itertools
import random as _stdrandom
from fractions import Fraction as Fr
from math import floor, ceil
from statistics import median as _stat_median

import numpy as _numpy

from lib import Case
from tape import Tape, TapeExhausted, TapeMismatch
from deap import base, creator, tools
from deap.tools import emo

ANCHORS = [("deap/tools/selection.py", ["selRandom", "selBest", "selWorst", "selTournament", "selRoulette",
                                        "selDoubleTournament", "selStochasticUniversalSampling", "selLexicase",
                                        "selEpsilonLexicase", "selAutomaticEpsilonLexicase"]),
           ("deap/tools/emo.py", ["selTournamentDCD"])]
LEVEL = "proof"
RULE = ("exhaustive part: every population of n<=3 single-objective individuals over values {0,1,2} (best/worst for "
        "every k<=n+1, every tournament tape for tournsize<=2), every wheel of n<=3 positive integer fitnesses {1,2,3} "
        "swept with all 64 draws j/64, SUS on the same wheels for every k<=8 and 7 draws; flavoured streams (every "
        "operator they apply to, independent of the seed): near-tie (values 1, 1+-2^-21, 1+-2^-50, 1+2^-52, 1-2^-53 / "
        "1+-2^-30 where the code adds and averages; exact bit patterns, the Rat model compares exactly), fit_attr=other "
        "(individuals carry a decoy `fitness` with another order and another total), the same object listed at several "
        "positions for EVERY operator incl. roulette / universal sampling (mating pools; every wheel of n<=3 positions over "
        "{1,2,3} with every aliasing pattern swept with 64 draws and sampled for k in {1,2,3,4,5,8}; clauses read per position, "
        "identity observed per object), HISTORIES (2-6 selector calls in one process on a fresh family of 2-4 fitness classes "
        "- base / derived through creator.create, class statements and type(), weights overridden with other signs or "
        "inherited, base-first and derived-first - per selector group lexicase / best-worst / tournaments / wheel / dcd / mixed; "
        "calls re-use the same population objects with another selector, k, fit_attr name or after re-evaluation; the model "
        "side is ONE `hist` request run by Selection.runHistory with the class table and one threaded tape), "
        "negative values, genomes of length 0 / numpy-array individuals (falsy or non-boolean truth value); large populations (n = 13..1025 around powers of two, heavy ties on the first objective, k "
        "around n/4, n/2, n); random part: n<=12, 1-4 objectives of mixed weight signs over values {0,1,2,(3)} (many ties), "
        "k in 0..15, tournsize 1..5, parsimony size {1,1.4,2}, both orders, epsilon {0,1/2,2}, crowding distances incl. "
        "inf, tape recorded from the real random module calls (boundary draws 0, 1/2, prob forced in a quarter of the "
        "double/DCD cases; roulette draws j/1024 incl. 0 and 1023/1024, draws exactly on wheel boundaries, full sweeps "
        "of 32/64/128 equally spaced draws; SUS wheels scaled so that S/k is dyadic, draws j/1024 incl. the F13 boundary "
        "draw 0 which is compared model-vs-implementation only; a DCD edge stream with arbitrary k). A tape that does "
        "not fit the code's random calls (incl. randomness drawn outside the hooked functions, detected by the state of "
        "the hidden generators) is a correspondence break (TAPE:), never an oracle failure. "
        "Non-trivial = distinct case with k>=1 (and n>=2)")
EXHAUSTIVE = {"quick": False, "thorough": False}
TIME_BUDGET = {"quick": 60, "thorough": 900}
MIN_CASES = 3000
TRUSTED = ["IEEE-754: the test inputs are small integers / dyadic fractions, forced roulette and SUS draws are j/1024 "
           "and SUS wheels have S/k dyadic, so r*S, S/k, start+i*distance, value*weight, value/weight, best-eps and the "
           "numpy medians are exact and the Rat model computes the same numbers as CPython",
           "CPython semantics modelled in Core/Selection.lean: sorted (stable, reverse keeps ties in order), max(key=) "
           "returns the first maximum, random.uniform(a,b) = a+(b-a)*random(), numpy.median = mean of the two middle "
           "elements; harness/tape.py reports the random module's results faithfully",
           "crowding distance inf is transported as 10^6 (only compared with < and >)",
           "translator tie: harness/py2lean_c06.py (its docstring lists the accepted Python sub-language and every rendering "
           "rule: individuals as positions, attribute access as lookup of the position's data, sorted/max with "
           "key=attrgetter(fit_attr) as the model's stable sort / first maximum on the C01 order, random.* as tape reads, loops "
           "with state, break, while with a derived bound) renders the source faithfully and refuses everything else; "
           "lean/DeapModel/Core/GenPreludeC06.lean (tape monad, forLoop / whileLoop, choice / shuffle / sample / uniform) and the "
           "tape readers and Python built-ins of Core/Selection.lean mean what their docstrings say; the parameter types of "
           "harness/props/c06_translate.py (individuals: list of positions, k / tournsize: naturals, epsilon: exact rational)"]
ASSUMPTIONS = ["an 'individual' of a population is a POSITION of the list (an object listed at m positions owns m wheel "
               "sectors / may be returned 2m times by the crowding tournament; identity observes the total of its positions)",
               "populations of 1..N evaluated individuals of one fitness class with non-zero weights; k >= 0 "
               "(crowding tournament: 4 | k <= n); tournament sizes >= 1; parsimony size in [1,2]; epsilon >= 0",
               "roulette / universal sampling: strictly positive, maximised first objective with exactly representable "
               "sums; universal sampling's uniform draw is not exactly 0.0 (F13: the boundary draw start = 0.0, "
               "probability 2^-53, gives the first individual one extra pointer; covered by theorem sus_counts_r0 and "
               "compared model-vs-implementation only)"]
EXPLANATION = ("Theorems C06.* hold for every population, k and tape over exact rationals; Core/Selection.lean is "
               "replayed against the real operators with the tape of their own random draws and results compared as "
               "input indices (identity by `is`); the statement is evaluated as an oracle on the real result.  Sessions of several "
               "calls over base / derived fitness classes are replayed in one process against Selection.runHistory "
               "(theorem sel_history_independent: a call's result does not depend on what was called before).  Translator tie: "
               "on every run selRandom / selBest / selWorst / selTournament / selRoulette / selStochasticUniversalSampling are "
               "re-read from the source under test, rendered as Lean definitions Gen.<f> (harness/py2lean_c06.py; selLexicase, "
               "selEpsilonLexicase, selTournamentDCD are rendered too but have no equality theorem yet; selDoubleTournament and "
               "selAutomaticEpsilonLexicase are refused: functools.partial, numpy.median) and the kernel re-checks "
               "Gen.<f> pop w (range n) … tape = Selection.<f> … tape for every population, parameter and tape; the table of this "
               "run is evidence/C06.translated.json.")

INF_TOKEN = "1000000"


def translate(repo):
    """translator tie (lib._translated_obligations): Lean definitions `Gen.<operator>` regenerated from `repo`'s current
    deap/tools/selection.py / emo.py (harness/py2lean_c06.py) + the committed theorems `Gen.<f> … = Selection.<f> …` of
    lean/DeapModel/GenEq/C06.lean.tmpl"""
    from props import c06_translate
    import json
    import os
    import lib
    tr = c06_translate.translate(repo)
    try:
        os.makedirs(os.path.join(lib.OUT, "evidence"), exist_ok=True)
        with open(os.path.join(lib.OUT, "evidence", "C06.translated.json"), "w") as fh:
            json.dump({"definitions": len(tr["definitions"]), "theorems": len(tr["theorems"]),
                       "refused": len(tr["refused"]), "problems": tr["problems"],
                       "functions": [dict(file=f, name=n, status=st, detail=d) for f, n, st, d in tr["table"]],
                       "theorem_names": tr["theorems"]}, fh, indent=1)
            fh.write("\n")
    except OSError:
        pass
    return tr


# ------------------------------------------------------------------------------------------
# helpers
# ------------------------------------------------------------------------------------------

def sfr(q):
    q = Fr(q)
    return str(q.numerator) if q.denominator == 1 else "%d/%d" % (q.numerator, q.denominator)


def slist(xs):
    xs = list(xs)
    return ",".join(sfr(x) for x in xs) if xs else "-"


def ilist(xs):
    xs = list(xs)
    return ",".join(str(x) for x in xs) if xs else "-"


_classes = {}


def fit_class(weights):
    key = tuple(weights)
    if key not in _classes:
        _classes[key] = type("Fit", (base.Fitness,), {"weights": tuple(float(w) for w in weights)})
    return _classes[key]


class Indiv(list):
    """A list individual with a fitness attribute (what creator.create builds)."""
    __slots__ = ("fitness", "__dict__")


class NpIndiv(_numpy.ndarray):
    """A numpy-array individual (truthiness / `==` of such an object is not a bool)."""


def new_genome(d, size):
    if d.get("cont") == "array":
        return _numpy.zeros(size).view(NpIndiv)
    return Indiv([0] * size)


def attr_of(d):
    return d.get("attr", "fitness")


def canon_map(d):
    """position -> first position holding the same object (identity unless the case lists an object twice)"""
    return d.get("alias") or list(range(len(d["vals"])))


def build_pop(d, F=None):
    """`F` = the fitness class to use (a class of a history's family; default: the cached class of the weights).
    `attr` = name of the fitness attribute the operator is told to use (fit_attr); when it is not
    "fitness" the individuals also carry a decoy `fitness` with a different order.  `alias[i] = j < i`
    puts the very object of position j at position i as well."""
    w = [Fr(x) for x in d["w"]]
    F = F or fit_class(w)
    attr = attr_of(d)
    pop = []
    sizes = d.get("sizes")
    cds = d.get("cd")
    alias = canon_map(d)
    n = len(d["vals"])
    for i, vals in enumerate(d["vals"]):
        if alias[i] != i:
            pop.append(pop[alias[i]])
            continue
        ind = new_genome(d, sizes[i] if sizes else 1 + i % 3)
        setattr(ind, attr, F(tuple(float(Fr(v)) for v in vals)))
        if attr != "fitness":
            dv = [Fr(v) for v in d["vals"][n - 1 - i]]
            wheel = d["op"] in ("roulette", "sus")
            if wheel:
                dv[0] = 3 * dv[0] + 1 + i            # another order *and* another total
            D = F if wheel else fit_class([-x for x in w])
            ind.fitness = D(tuple(float(v) for v in dv))
        if cds is not None:
            ind.fitness.crowding_dist = float("inf") if cds[i] == "inf" else float(Fr(cds[i]))
        pop.append(ind)
    return w, pop


def _fit_state(f):
    return (f.wvalues, f.values, getattr(f, "crowding_dist", None), id(f),
            sorted(f.__dict__.items()) if hasattr(f, "__dict__") else None)


def snapshot(pop):
    return [(id(x), list(x), _fit_state(x.fitness),
             sorted((k, _fit_state(v) if isinstance(v, base.Fitness) else v) for k, v in x.__dict__.items()))
            for x in pop]


def wv_exact(ind, attr="fitness"):
    return tuple(Fr(x) for x in getattr(ind, attr).wvalues)


def val_exact(ind, attr="fitness"):
    return tuple(Fr(x) for x in getattr(ind, attr).values)


def pop_token(pop, attr="fitness"):
    return ";".join(slist(wv_exact(x, attr)) for x in pop) if pop else "-"


def tape_tokens(draws):
    out = []
    for dr in draws:
        kind = dr[0]
        if kind == "choice":
            out.append("c:%d" % dr[2])
        elif kind == "sample":
            out.append("s:" + ilist(dr[3]))
        elif kind == "shuffle":
            out.append("p:" + ilist(dr[2]))
        elif kind == "random":
            out.append("r:" + sfr(Fr(dr[1])))
        elif kind == "uniform":
            a, b, x = Fr(dr[1]), Fr(dr[2]), Fr(dr[3])
            out.append("r:" + sfr((x - a) / (b - a)))
        else:
            raise ValueError("unexpected draw kind %r" % (kind,))
    return out


def forced_from_json(f):
    return [tuple(x) for x in f]


# ------------------------------------------------------------------------------------------
# evaluate
# ------------------------------------------------------------------------------------------

OPS = ("best", "worst", "random", "tourn", "roulette", "sus", "dtourn", "lex", "epslex", "autolex", "dcd")


def call_op(d, pop):
    op, k = d["op"], d["k"]
    kw = {"fit_attr": d["attr"]} if "attr" in d else {}
    if op == "best":
        return tools.selBest(pop, k, **kw)
    if op == "worst":
        return tools.selWorst(pop, k, **kw)
    if op == "random":
        return tools.selRandom(pop, k)
    if op == "tourn":
        return tools.selTournament(pop, k, d["ts"], **kw)
    if op == "roulette":
        return tools.selRoulette(pop, k, **kw)
    if op == "sus":
        return tools.selStochasticUniversalSampling(pop, k, **kw)
    if op == "dtourn":
        return tools.selDoubleTournament(pop, k, d["fs"], float(d["ps"]), d["ff"], **kw)
    if op == "lex":
        return tools.selLexicase(pop, k)
    if op == "epslex":
        return tools.selEpsilonLexicase(pop, k, float(Fr(d["eps"])))
    if op == "autolex":
        return tools.selAutomaticEpsilonLexicase(pop, k)
    if op == "dcd":
        return emo.selTournamentDCD(pop, k)
    raise ValueError(op)


def forced_tape_for(d, pop, w):
    """The forced draws of a case, or None for recording mode."""
    op, k = d["op"], d["k"]
    if "forced" in d:
        return forced_from_json(d["forced"])
    if op == "roulette":
        den = d.get("den", 1024)
        return [("random", float(Fr(j, den))) for j in d["j"]]
    if op == "sus" and "j" in d and k > 0:
        den = d.get("den", 1024)
        s = sum(getattr(x, attr_of(d)).values[0] for x in pop)
        dist = s / float(k)
        x = Fr(dist) * Fr(d["j"], den)
        assert Fr(float(x)) == x
        return [("uniform", 0, dist, float(x))]
    if "rforce" in d:
        # record once on a scratch population, then overwrite the random() draws
        _, scratch = build_pop(d)
        with Tape(rng=_stdrandom.Random(d["seed"])) as tp:
            try:
                call_op(d, scratch)
            except (IndexError, ValueError, TypeError, AttributeError, AssertionError):
                return None
        draws = list(tp.draws)
        vals = d["rforce"]
        j = 0
        for i, dr in enumerate(draws):
            if dr[0] == "random":
                v = vals[j % len(vals)]
                j += 1
                if v is None:
                    continue
                x = float(Fr(d["ps"])) / 2. if v == "prob" else float(Fr(v))
                if x >= 1.0:
                    continue                      # random() never returns 1.0
                draws[i] = ("random", x)
        return draws
    return None


def lex_lt(a, b):
    for x, y in zip(a, b):
        if x != y:
            return x < y
    return len(a) < len(b)


def chunks(xs, m):
    return [xs[i:i + m] for i in range(0, len(xs), m)]


def mad_tolerance(vals):
    med = Fr(_stat_median(vals))
    return Fr(_stat_median([abs(v - med) for v in vals]))


TAPE_MISFIT = "TAPE: the recorded random draws do not have the shape the operator's documented sampling gives (%s)"


def parsimony_pick(sz, a, b, r, prob):
    """the size tournament of the statement: the smaller of (a, b) wins iff r < parsimony_size/2;
    equal sizes: the first one iff r < 1/2"""
    if sz[a] > sz[b]:
        a, b = b, a
    elif sz[a] == sz[b]:
        prob = Fr(1, 2)
    return a if r < prob else b


def kinds(draws):
    return [x[0] for x in draws]


def oracle(d, w, pop, res, idx, draws, tape_ok=True):
    """The property statement evaluated on the implementation's result (None = holds).  `idx` are canonical
    positions (first position of the object).  Clauses that do not need the tape come first; a tape that
    does not fit is reported last, as a correspondence break (`TAPE:`)."""
    op, k, n = d["op"], d["k"], len(pop)
    attr = attr_of(d)
    cm = canon_map(d)
    want_len = min(k, n) if op in ("best", "worst") else k
    if len(res) != want_len:
        return "returned %d individuals, %d requested (n=%d)" % (len(res), k, n)
    if any(i is None for i in idx):
        return "a returned element is not one of the input objects (copy?)"
    wv = [wv_exact(x, attr) for x in pop]
    if op in ("best", "worst"):
        # as multisets of positions: nothing returned more often than it is listed in the input
        have = {}
        for i in cm:
            have[i] = have.get(i, 0) + 1
        if len(set(idx)) != len(idx):
            for i in set(idx):
                if idx.count(i) > have[i]:
                    return "an individual was returned more often than it occurs in the input"
        keys = [wv[i] for i in idx]
        for a, b in zip(keys, keys[1:]):
            if (lex_lt(a, b) if op == "best" else lex_lt(b, a)):
                return "result is not in fitness order"
        cnt = {}
        for i in idx:
            cnt[i] = cnt.get(i, 0) + 1
        if keys:
            edge = keys[-1]                     # the least extreme kept one (the list is in fitness order)
            for i in set(cm):
                if have[i] > cnt.get(i, 0) and (lex_lt(edge, wv[i]) if op == "best" else lex_lt(wv[i], edge)):
                    return "an omitted individual (%d) is more extreme than a kept one" % i
        return None
    if op == "random":
        if not tape_ok or kinds(draws) != ["choice"] * k:
            return TAPE_MISFIT % "k choices"
        return None
    if op == "tourn":
        if not tape_ok or kinds(draws) != ["choice"] * (k * d["ts"]):
            return TAPE_MISFIT % "k*tournsize choices"
        groups = chunks([cm[dr[2]] for dr in draws], d["ts"])
        for wi, g in zip(idx, groups):
            if wi not in g:
                return "tournament winner %d was not sampled for its tournament %r" % (wi, g)
            if any(lex_lt(wv[wi], wv[a]) for a in g):
                return "tournament winner %d is worse than a sampled aspirant of %r" % (wi, g)
        return None
    if op == "roulette":
        f = [val_exact(x, attr)[0] for x in pop]
        s = sum(f)
        if not tape_ok or kinds(draws) != ["random"] * k:
            return TAPE_MISFIT % "k random() draws"
        rs = [Fr(dr[1]) for dr in draws]
        # layout-agnostic: whatever the order of the wheel, the draws that pick individual i lie in one
        # half-open interval of length f_i/S, so they are contiguous among the sorted draws of this call
        # and span less than f_i/S
        # ... per POSITION.  An object listed at m positions owns m such sectors (identity cannot tell which one
        # was hit): the sorted draws that pick it fall into runs (no draw of another object in between); the
        # draws of one run are covered by sectors of this object only, a sector never serves two runs, so the
        # minimal number of half-open intervals of length f_i/S covering each run, summed, is at most m.
        slots = {}
        for i in cm:
            slots[i] = slots.get(i, 0) + 1
        pairs = sorted(zip(rs, idx))
        runs = {}
        prev = None
        for r, wi in pairs:
            if wi != prev:
                runs.setdefault(wi, []).append([])
                prev = wi
            runs[wi][-1].append(r)
        for wi, rr in runs.items():
            need = 0
            for run in rr:
                start = None
                for r in run:
                    if start is None or not (r - start < f[wi] / s):
                        need += 1
                        start = r
            if need > slots[wi]:
                if slots[wi] == 1 and len(rr) > 1:
                    return "draws picking individual %d do not form an interval of the unit interval" % wi
                return ("individual %d (listed at %d position(s), share %s each) is picked over a stretch of the "
                        "unit interval wider than its share" % (wi, slots[wi], f[wi] / s))
        if d.get("sweep"):
            den = d["den"]
            for i in set(cm):
                c = sum(1 for x in idx if x == i)
                share = Fr(den) * f[i] / s
                if not (slots[i] * floor(share) <= c <= slots[i] * ceil(share)):
                    return ("individual %d (listed at %d position(s)) picked by %d of %d equally spaced draws, "
                            "share per position %s" % (i, slots[i], c, den, share))
        return None
    if op == "sus":
        if k == 0:
            return None
        f = [val_exact(x, attr)[0] for x in pop]
        s = sum(f)
        if not tape_ok or kinds(draws) != ["uniform"]:
            return TAPE_MISFIT % "one uniform draw"
        dr = draws[0]
        if Fr(dr[3]) == Fr(dr[1]):
            return None          # boundary draw start == 0.0: F13, outside the oracle stream
        # per position floor or ceil of k times its share; an object listed at m positions is observed
        # (by identity) with the total of its positions
        slots = {}
        for i in cm:
            slots[i] = slots.get(i, 0) + 1
        for i in set(cm):
            c = sum(1 for x in idx if x == i)
            share = Fr(k) * f[i] / s
            if not (slots[i] * floor(share) <= c <= slots[i] * ceil(share)):
                return ("individual %d (listed at %d position(s)) selected %d times, k*share per position = %s"
                        % (i, slots[i], c, share))
        return None
    if op == "dtourn":
        fs = d["fs"]
        sz = [len(x) for x in pop]
        prob = Fr(float(d["ps"])) / 2
        unit = (["choice"] * (2 * fs) + ["random"]) if d["ff"] else (["choice", "choice", "random"] * fs)
        if not tape_ok or kinds(draws) != unit * k:
            return TAPE_MISFIT % "per selection: two fitness groups and a coin / fitness_size (pair, coin) triples"
        pos = 0

        def best_of(g):
            return [a for a in g if not any(lex_lt(wv[a], wv[b]) for b in g)]
        for wi in idx:
            if d["ff"]:
                g1 = [cm[x[2]] for x in draws[pos:pos + fs]]
                g2 = [cm[x[2]] for x in draws[pos + fs:pos + 2 * fs]]
                r = Fr(draws[pos + 2 * fs][1])
                pos += 2 * fs + 1
                # each fitness tournament returns a best of its group; the size tournament between the two
                # winners follows the parsimony rule
                if not any(parsimony_pick(sz, w1, w2, r, prob) == wi for w1 in best_of(g1) for w2 in best_of(g2)):
                    return ("double tournament (fitness first): %d is not the parsimony pick (draw %s) between "
                            "fitness winners of %r and %r" % (wi, r, g1, g2))
            else:
                asp = []
                for _ in range(fs):
                    asp.append(parsimony_pick(sz, cm[draws[pos][2]], cm[draws[pos + 1][2]], Fr(draws[pos + 2][1]), prob))
                    pos += 3
                if wi not in asp:
                    return "double tournament (size first): %d is not a parsimony pick of its pairs (%r)" % (wi, asp)
                if any(lex_lt(wv[wi], wv[a]) for a in asp):
                    return "double tournament (size first): %d is worse than another size-tournament winner of %r" % (wi, asp)
        return None
    if op in ("lex", "epslex", "autolex"):
        vals = [val_exact(x) for x in pop]
        ncase = len(w)
        sign = [1 if x > 0 else -1 for x in w]

        def geq(x, y, c):       # x at least as good as y on case c
            return sign[c] * vals[x][c] >= sign[c] * vals[y][c]

        def better_by(x, y, c, tol):
            return sign[c] * vals[x][c] > sign[c] * vals[y][c] + tol
        rivals_of = lambda wi: [x for x in range(n) if cm[x] != wi and all(geq(x, wi, c) for c in range(ncase))]
        if op == "lex":
            for wi in idx:
                for x in rivals_of(wi):
                    if any(better_by(x, wi, c, 0) for c in range(ncase)):
                        return "lexicase winner %d is dominated case-by-case by %d" % (wi, x)
        elif op == "epslex":
            eps = Fr(d["eps"])
            for wi in idx:
                for x in rivals_of(wi):
                    if any(better_by(x, wi, c, eps) for c in range(ncase)):
                        return "epsilon-lexicase winner %d is beaten by more than epsilon by %d, which is nowhere worse" % (wi, x)
        if not tape_ok or kinds(draws) != ["shuffle", "choice"] * k:
            return TAPE_MISFIT % "per selection one shuffle of the cases and one choice"
        if op == "autolex":
            pos = 0
            for wi in idx:
                order = list(draws[pos][2])
                pos += 2
                rivals = rivals_of(wi)
                # the tolerance used at a case is the MAD of the candidates that reached it; candidates
                # that are nowhere worse than the winner must all still be there
                cands = list(range(n))
                for c in order:
                    if len(cands) <= 1:
                        break
                    cv = [vals[x][c] for x in cands]
                    tol = mad_tolerance(cv)
                    for x in rivals:
                        if better_by(x, wi, c, tol):
                            return "automatic-epsilon winner %d is beaten by more than the MAD on case %d by %d" % (wi, c, x)
                    bestv = max(sign[c] * v for v in cv)
                    cands = [x for x in cands if sign[c] * vals[x][c] >= bestv - tol]
                if rivals and len(cands) <= 1:
                    return "winner %d ended alone although %r are nowhere worse" % (wi, rivals)
        return None
    if op == "dcd":
        for i in set(idx):
            if idx.count(i) > 2 * cm.count(i):          # none more than twice, per position of the list
                return "individual %d selected %d times by the crowding tournament" % (i, idx.count(i))
        if not tape_ok or kinds(draws)[:2] != ["sample", "sample"] or any(x != "random" for x in kinds(draws)[2:]):
            return TAPE_MISFIT % "two samples, then coins"
        return None
    raise ValueError(op)


def in_quantifier(d, n):
    """False for the model-vs-implementation-only edge stream (outside the property's quantifier)."""
    op, k = d["op"], d["k"]
    if n == 0:
        return False
    if op == "dcd":
        return k <= n and k % 4 == 0
    return not d.get("edge", False)


def line_for(d, w, pop, draws):
    return " ".join(["C06"] + req_tokens(d, w, pop, draws))


def req_tokens(d, w, pop, draws, wtok=None):
    """the request (after the `C06` token); `wtok` replaces the weights token (histories: `@`, the model resolves
    the weights from the class table)"""
    op, k = d["op"], d["k"]
    tp = tape_tokens(draws)
    pt = pop_token(pop, attr_of(d))
    head = []
    if "alias" in d:
        head += ["canon", ilist(canon_map(d))]
    if op in ("best", "worst"):
        head += [op, pt, str(k)]
    elif op == "random":
        head += ["random", str(len(pop)), str(k)]
    elif op == "tourn":
        head += ["tourn", pt, str(k), str(d["ts"])]
    elif op in ("roulette", "sus"):
        head += [op, wtok or slist(w), pt, str(k)]
    elif op == "dtourn":
        head += ["dtourn", pt, ilist(len(x) for x in pop), str(k), str(d["fs"]), sfr(Fr(float(d["ps"]))),
                 "1" if d["ff"] else "0"]
    elif op in ("lex", "epslex", "autolex"):
        rule = {"lex": "exact", "autolex": "auto"}.get(op) or "eps:" + sfr(Fr(d["eps"]))
        head += ["lex", rule, wtok or slist(w), pt, str(k)]
    elif op == "dcd":
        cds = ",".join(INF_TOKEN if x.fitness.crowding_dist == float("inf") else sfr(Fr(x.fitness.crowding_dist))
                       for x in pop) or "-"
        head += ["dcd", pt, cds, str(k)]
    else:
        raise ValueError(op)
    return head + tp


def tag_for(d, pop, draws, res):
    op = d["op"]
    t = op
    if op == "tourn":
        t += "/ts=%d" % d["ts"]
    elif op == "dtourn":
        t += "/%s/ps=%s" % ("fit-first" if d["ff"] else "size-first", d["ps"])
    elif op == "epslex":
        t += "/eps=%s" % d["eps"]
    elif op == "dcd":
        t += "/coin" if any(x[0] == "random" for x in draws) else "/decided"
    elif op == "sus" and draws and draws[0][0] == "uniform" and Fr(draws[0][3]) == 0:
        t += "/r=0"
    for key, lab in (("sweep", "sweep"), ("rforce", "boundary-draws"), ("exh", "exhaustive"), ("near", "near-tie"),
                     ("attr", "fit_attr"), ("alias", "same-object-twice"), ("neg", "negative"), ("large", "large-n"), ("genome", "odd-genome")):
        if d.get(key):
            t += "/" + lab
    if d["k"] == 0:
        t += "/k=0"
    return t


def _global_rng_state():
    import numpy
    st = numpy.random.get_state()
    return (_stdrandom.getstate(), st[0], st[1].tobytes(), st[2:])


def run_impl(d, pop, forced):
    """Run the real operator under the tape.  Returns (result, python error, tape problem, draws).
    The hidden generators behind `random.*` / `numpy.random.*` must not move: every hooked function draws
    from the tape's own generator, so a changed state means the code drew randomness the tape cannot see
    (random.choices, getrandbits, randbytes, numpy.random.*, ...)."""
    tp = Tape(rng=_stdrandom.Random(d.get("seed", 0)), forced=forced)
    st = _global_rng_state()
    err = tape_err = res = None
    with tp:
        try:
            res = call_op(d, pop)
        except (TapeExhausted, TapeMismatch) as e:
            tape_err = "%s: %s" % (type(e).__name__, e)
        except (IndexError, ValueError, ZeroDivisionError, AssertionError, TypeError, AttributeError, KeyError) as e:
            err = "%s: %s" % (type(e).__name__, e)
    if tape_err is None and _global_rng_state() != st:
        tape_err = "the code drew random numbers outside the recorded tape (unhooked random / numpy.random entry point)"
    if tape_err is None and forced is not None and tp.forced:
        tape_err = "%d forced draws were left unread" % len(tp.forced)
    return res, err, tape_err, list(tp.draws)


def evaluate(d):
    if d["op"] == "hist":
        return evaluate_hist(d)
    op, k = d["op"], d["k"]
    w, pop = build_pop(d)
    n = len(pop)
    inq = in_quantifier(d, n)
    before = snapshot(pop)
    order_before = [id(x) for x in pop]
    forced = forced_tape_for(d, pop, w)
    res, err, tape_err, draws = run_impl(d, pop, forced)
    if tape_err is not None and forced is not None:
        # the forced tape does not fit the calls the code makes: run once more with a recording tape so that
        # the clauses that do not need the tape are still evaluated
        res, err, tape_err2, draws = run_impl(d, pop, None)
    orc = None
    if [id(x) for x in pop] != order_before or snapshot(pop) != before:
        orc = "the population or one of its individuals was modified"
    if err is not None:
        if inq:
            return Case(d, [], [], oracle="implementation raised " + err, tag=op + "/exception")
        if tape_err is not None:
            return Case(d, [], [], oracle="TAPE: " + tape_err, tag=op + "/tape")
        # outside the quantifier: the model must refuse as well (its reading of the tape ends where Python raised)
        try:
            ln = line_for(d, w, pop, draws)
        except ValueError as e:
            return Case(d, [], [], orc or "TAPE: %s" % e, tag=op + "/tape")
        return Case(d, [ln], ["none"], orc, tag=op + "/edge-raises", nontrivial=False)
    cm = canon_map(d)
    index_of = {}
    for i, x in enumerate(pop):
        index_of.setdefault(id(x), i)
    idx = [index_of.get(id(x)) for x in res]
    if orc is None and inq:
        orc = oracle(d, w, pop, res, idx, draws, tape_ok=tape_err is None)
    elif orc is None and any(i is None for i in idx):
        orc = "a returned element is not one of the input objects (copy?)"
    if tape_err is not None and (orc is None or orc.startswith("TAPE:")):
        orc = "TAPE: " + tape_err
    if tape_err is not None or (orc or "").startswith("TAPE:"):
        return Case(d, [], [], orc, tag=op + "/tape")
    ans = ",".join("x" if i is None else str(i) for i in idx) or "-"
    if op in ("best", "worst"):
        expect = ans
    else:
        expect = ans + " 0"
    try:
        lines, expects = [line_for(d, w, pop, draws)], [expect]
    except ValueError as e:
        return Case(d, [], [], orc or "TAPE: %s" % e, tag=op + "/tape")
    if op == "sus" and k > 0 and not d.get("exact", True):
        lines, expects = [], []          # inexact S/k: oracle only
    return Case(d, lines, expects, orc, tag=tag_for(d, pop, draws, res) + ("" if inq else "/edge"),
                nontrivial=(k >= 1 and n >= 2))


# ------------------------------------------------------------------------------------------
# generators
# ------------------------------------------------------------------------------------------

WEIGHTS = ["1", "-1", "2", "-1/2", "1/2", "-2"]
PS = ["1", "1.4", "2"]
EPS = ["0", "1/2", "2"]


def _q(num, den=1):
    return sfr(Fr(num, den))


# values a few ulps / a tolerance-sized step apart (all exactly representable doubles): an operator that
# compares fitness values must tell them apart, the Rat model does
NEAR_CMP = [_q(1), _q(1), _q((1 << 21) + 1, 1 << 21), _q((1 << 21) - 1, 1 << 21), _q((1 << 50) + 1, 1 << 50),
            _q((1 << 50) - 1, 1 << 50), _q((1 << 52) + 1, 1 << 52), _q((1 << 53) - 1, 1 << 53), _q(0), _q(2)]
# the same idea where the code also adds / subtracts / averages the values (epsilon and automatic lexicase)
NEAR_ARITH = [_q(1), _q(1), _q((1 << 21) + 1, 1 << 21), _q((1 << 21) - 1, 1 << 21), _q((1 << 30) + 1, 1 << 30),
              _q((1 << 30) - 1, 1 << 30), _q((1 << 31) + 1, 1 << 30), _q(0), _q(2)]
NEAR_WHEEL = [_q(1), _q(1), _q((1 << 21) + 1, 1 << 21), _q((1 << 20) + 1, 1 << 20), _q((1 << 21) - 1, 1 << 21), _q(2)]
for _v in NEAR_CMP + NEAR_ARITH + NEAR_WHEEL:
    assert Fr(float(Fr(_v))) == Fr(_v)


# population sizes around the places where an implementation may switch algorithm
LARGE_N = [63, 64, 65, 127, 128, 129, 255, 256, 257, 300, 511, 512, 513, 1000, 1024, 1025]


def rand_pop(rng, n=None, nobj=None, flavour=None, arith=False):
    if flavour == "large" and n is None:
        n = rng.choice(LARGE_N + [rng.randint(13, 200)])
    if flavour == "large" and nobj is None:
        nobj = rng.choice([1, 2, 2, 2, 3])
    n = n if n is not None else rng.choice([1, 2, 2, 3, 3, 4, 5, 6, 7, 8, 10, 12])
    nobj = nobj if nobj is not None else rng.choice([1, 1, 2, 2, 3, 4])
    w = [rng.choice(WEIGHTS) for _ in range(nobj)]
    hi = rng.choice([1, 2, 2, 3])
    half = rng.random() < 0.2
    lo = -hi if flavour == "neg" else 0
    vals = []
    for _ in range(n):
        if vals and rng.random() < 0.25:
            vals.append(list(rng.choice(vals)))           # exact duplicate of another individual
        elif flavour == "near":
            vals.append([rng.choice(NEAR_ARITH if arith else NEAR_CMP) for _ in range(nobj)])
        elif flavour == "large":
            # heavy ties on the first objective, later objectives decide
            vals.append([str(rng.randint(0, 5))] + [str(rng.randint(0, rng.choice([3, 999]))) for _ in range(nobj - 1)])
        else:
            vals.append([sfr(Fr(rng.randint(lo * (2 if half else 1), hi * (2 if half else 1)), 2 if half else 1))
                         for _ in range(nobj)])
    return w, vals


def rand_wheel(rng, n=None, mult=1, near=False, large=False, nobj=None):
    """strictly positive maximised first objective (integers), optionally a second objective"""
    if large and n is None:
        n = rng.choice(LARGE_N + [rng.randint(13, 200)])
    n = n if n is not None else rng.choice([1, 2, 2, 3, 4, 5, 6, 8, 12])
    two = rng.random() < 0.3
    extra = (1 if two else 0) if nobj is None else nobj - 1
    w = [rng.choice(["1", "2", "1/2"])] + [rng.choice(["1", "-1"]) for _ in range(extra)]
    hi = rng.choice([1, 2, 3, 5, 9])
    vals = []
    for _ in range(n):
        v = [rng.choice(NEAR_WHEEL) if near else str(mult * rng.randint(1, hi))]
        for _e in range(extra):
            v.append(str(rng.randint(0, 2)))
        vals.append(v)
    return w, vals


def odd_part(k):
    while k % 2 == 0:
        k //= 2
    return k


def gen_exhaustive(tier):
    thorough = tier == "thorough"
    nmax = 3
    for n in range(1, nmax + 1):
        for vals in itertools.product(["0", "1", "2"], repeat=n):
            v = [[x] for x in vals]
            for wt in (["1"], ["-1"]):
                for k in range(0, n + 2):
                    yield {"op": "best", "w": wt, "vals": v, "k": k, "exh": 1}
                    yield {"op": "worst", "w": wt, "vals": v, "k": k, "exh": 1}
                if wt == ["-1"] and not thorough:
                    continue
                for ts in (1, 2):
                    for tp in itertools.product(range(n), repeat=ts):
                        yield {"op": "tourn", "w": wt, "vals": v, "k": 1, "ts": ts, "exh": 1,
                               "forced": [["choice", n, i] for i in tp]}
        for vals in itertools.product(["1", "2", "3"], repeat=n):
            v = [[x] for x in vals]
            s = sum(int(x) for x in vals)
            yield {"op": "roulette", "w": ["1"], "vals": v, "k": 64, "j": list(range(64)), "den": 64, "sweep": 1, "exh": 1}
            for k in range(1, 9):
                m = odd_part(k)
                vv = [[str(int(x) * m)] for x in vals]
                for j in ((1, 2, 3, 4, 5, 6, 7) if thorough or k <= 4 else (1, 4, 7)):
                    yield {"op": "sus", "w": ["1"], "vals": vv, "k": k, "j": j, "den": 8, "exh": 1}
    # two-objective best/worst, all populations of n<=3 over {0,1}^2 with mixed signs
    for n in range(1, 4):
        for vals in itertools.product(list(itertools.product(["0", "1"], repeat=2)), repeat=n):
            v = [list(x) for x in vals]
            for wt in (["1", "-1"], ["-1", "1"]):
                for k in (1, n):
                    yield {"op": "best", "w": wt, "vals": v, "k": k, "exh": 1}
                    yield {"op": "worst", "w": wt, "vals": v, "k": k, "exh": 1}
                for op in ("lex", "autolex"):
                    yield {"op": op, "w": wt, "vals": v, "k": 2, "seed": n, "exh": 1}


def make_case(rng, op, flavour=None, n=None, nobj=None):
    """one structured random case for `op`; flavour None | "near" | "neg" | "attr" | "alias" | "genome" | "large";
    `n` / `nobj` fix the population size / the number of objectives (histories)"""
    fix_n, fix_nobj = n, nobj
    k = rng.randint(0, 15)
    seed = rng.randrange(1 << 30)
    near = flavour == "near"
    large = flavour == "large"
    pf = flavour if flavour in ("near", "neg", "large") else None
    d = None
    if op in ("best", "worst", "random"):
        w, vals = rand_pop(rng, n=fix_n, nobj=fix_nobj, flavour=pf)
        if large and op != "random":
            n = len(vals)
            k = rng.choice([1, 2, 3, 7, n // 8, n // 4 - 1, n // 4, n // 4 + 1, n // 2, n - 1, n, n + 3])
        d = {"op": op, "w": w, "vals": vals, "k": k, "seed": seed}
    elif op == "tourn":
        w, vals = rand_pop(rng, n=fix_n, nobj=fix_nobj, flavour=pf)
        d = {"op": op, "w": w, "vals": vals, "k": k, "ts": rng.randint(1, 5), "seed": seed}
    elif op == "roulette":
        w, vals = rand_wheel(rng, n=fix_n, near=near, large=large, nobj=fix_nobj)
        js = [rng.choice([0, 1023, rng.randrange(1024), rng.randrange(1024)]) for _ in range(k)]
        d = {"op": op, "w": w, "vals": vals, "k": k, "j": js}
        if rng.random() < 0.12:
            den = rng.choice([32, 64, 128])
            d = {"op": op, "w": w, "vals": vals, "k": den, "j": list(range(den)), "den": den, "sweep": 1}
        elif rng.random() < 0.3 and k > 0 and not near:
            # land exactly on a wheel boundary: r = c_i / S needs S | 1024 * c_i; use den = S
            s = sum(int(v[0]) for v in vals)
            d["den"] = s
            d["j"] = [rng.randrange(s) for _ in range(k)]
            if any(Fr(float(Fr(j, s))) != Fr(j, s) for j in d["j"]) or \
                    any(Fr(float(Fr(j, s)) * float(s)) != j for j in d["j"]):
                d["den"] = 1024
                d["j"] = js
    elif op == "sus":
        kind = rng.random()
        if near:
            k = rng.choice([0, 1, 2, 4, 8])
            w, vals = rand_wheel(rng, n=fix_n, near=True, nobj=fix_nobj)
            d = {"op": op, "w": w, "vals": vals, "k": k, "j": rng.choice([rng.randrange(1, 1024), 512, 1, 1023]),
                 "exact": True}
        elif kind < 0.75 or k == 0:
            m = odd_part(k) if k else 1
            if rng.random() < 0.3 and k:
                m = k
            w, vals = rand_wheel(rng, n=fix_n, mult=m, large=large, nobj=fix_nobj)
            # r = j/1024; r = 0 is the F13 boundary draw (model-vs-implementation only)
            j = rng.choice([rng.randrange(1, 1024), rng.randrange(1, 1024), 512, 1, 1023,
                            0 if rng.random() < 0.5 else 256])
            d = {"op": op, "w": w, "vals": vals, "k": k, "j": j, "exact": True}
        else:
            w, vals = rand_wheel(rng, n=fix_n, nobj=fix_nobj)
            s = sum(int(v[0]) for v in vals)
            exact = Fr(s / float(k)) == Fr(s, k)
            if exact:
                d = {"op": op, "w": w, "vals": vals, "k": k, "j": rng.randrange(1, 1024), "exact": True}
            else:
                d = {"op": op, "w": w, "vals": vals, "k": k, "seed": seed, "exact": False}
    elif op == "dtourn":
        w, vals = rand_pop(rng, n=fix_n, nobj=fix_nobj, flavour=pf)
        n = len(vals)
        sizes = [rng.choice([1, 1, 2, 3, 5]) for _ in range(n)]
        d = {"op": op, "w": w, "vals": vals, "k": k, "fs": rng.randint(1, 5), "ps": rng.choice(PS),
             "ff": rng.random() < 0.5, "sizes": sizes, "seed": seed}
        if rng.random() < 0.25:
            d["rforce"] = [rng.choice(["0", "1/2", "prob", None]) for _ in range(3)]
    elif op in ("lex", "epslex", "autolex"):
        nob = rng.choice([1, 2, 2, 3, 3, 4])
        w, vals = rand_pop(rng, n=fix_n, nobj=fix_nobj or nob, flavour=pf, arith=op != "lex")
        d = {"op": op, "w": w, "vals": vals, "k": k, "seed": seed}
        if op == "epslex":
            d["eps"] = rng.choice(EPS)
    elif op == "dcd":
        nn, nob = rng.choice([1, 3, 4, 4, 4, 5, 6, 7, 8, 8, 8, 9, 10, 12, 12, 12]), rng.choice([1, 2, 2, 3])
        w, vals = rand_pop(rng, n=fix_n or (None if large else nn), nobj=fix_nobj or nob, flavour=pf)
        n = len(vals)
        cd = [rng.choice(["0", "0", "1/2", "1", "5/2", "inf"] + ([NEAR_CMP[2], NEAR_CMP[4]] if near else []))
              for _ in range(n)]
        r = rng.random()
        if r < 0.8:
            ks = [x for x in ((4, 8, 12, n // 4 * 4, n // 8 * 4) if large else (4, 8, 12)) if x <= n] or [0]
            kk = 0 if rng.random() < 0.08 else rng.choice(ks)
        elif r < 0.9:
            kk = rng.randint(0, n + 1)               # edge: any k (IndexError / ValueError / longer list)
        else:
            kk = n                                   # k == n: ValueError unless 4 | n
        d = {"op": op, "w": w, "vals": vals, "k": kk, "cd": cd, "seed": seed}
        if rng.random() < 0.25:
            d["rforce"] = [rng.choice(["0", "1/2", "3/4", None]) for _ in range(3)]
    if flavour in ("near", "neg", "large"):
        d[flavour] = 1
    if flavour == "attr":
        d["attr"] = "other"
    if flavour == "genome":
        # genomes that are falsy (length 0) or whose truth value / equality is not a bool (numpy arrays):
        # a selection operator may only look at the fitness (and len() in the double tournament)
        d["cont"] = rng.choice(["list", "list", "array"])
        d["sizes"] = [rng.choice([0, 0, 1, 2, 3, 5]) for _ in d["vals"]]
        d["genome"] = 1
    if flavour == "alias":
        n = len(d["vals"])
        alias = list(range(n))
        for i in range(1, n):
            if rng.random() < 0.4:
                j = alias[rng.randrange(i)]
                alias[i] = j
                for key in ("vals", "sizes", "cd"):
                    if key in d:
                        d[key][i] = d[key][j] if key != "vals" else list(d[key][j])
        if alias != list(range(n)):
            d["alias"] = alias
            fix_wheel_after_alias(rng, d, seed)
    return d


def fix_wheel_after_alias(rng, d, seed):
    """listing an object at further positions changes the wheel total: keep the arithmetic of the forced draws exact"""
    op, k = d["op"], d["k"]
    if op not in ("roulette", "sus") or d.get("near"):
        return
    s = sum(Fr(v[0]) for v in d["vals"])
    if op == "roulette" and not d.get("sweep"):
        den = d.get("den", 1024)
        if any(Fr(float(Fr(j, den))) != Fr(j, den) or Fr(float(Fr(j, den)) * float(s)) != Fr(j, den) * s for j in d["j"]):
            d["den"] = 1024
            d["j"] = [rng.randrange(1024) for _ in range(k)]
    if op == "sus" and k > 0 and "j" in d:
        dist = float(s) / float(k)
        x = Fr(dist) * Fr(d["j"], d.get("den", 1024))
        if Fr(dist) != s / k or Fr(float(x)) != x:
            del d["j"]
            d["seed"] = seed
            d["exact"] = False


RANDOM_OPS = ["best", "worst", "random", "tourn", "tourn", "roulette", "roulette", "sus", "sus", "sus", "dtourn",
              "dtourn", "lex", "epslex", "epslex", "autolex", "autolex", "dcd", "dcd"]
# the flavoured streams: (flavour, operators it applies to)
FLAVOURS = [
    ("near", ["best", "worst", "tourn", "dtourn", "lex", "epslex", "autolex", "dcd", "roulette", "sus"]),
    ("attr", ["best", "worst", "tourn", "roulette", "sus", "dtourn"]),        # every operator taking fit_attr
    ("alias", ["best", "worst", "random", "tourn", "roulette", "sus", "dtourn", "lex", "epslex", "autolex", "dcd"]),
    ("neg", ["best", "worst", "tourn", "dtourn", "lex", "epslex", "autolex", "dcd"]),
    ("genome", ["tourn", "best", "worst", "random", "dtourn", "roulette", "sus", "lex", "epslex", "autolex", "dcd"]),
]


LARGE_OPS = ["best", "worst", "best", "worst", "tourn", "dtourn", "roulette", "sus", "lex", "epslex", "autolex", "dcd",
             "random"]


def gen_large(tier, rng, mult):
    """populations far beyond the sizes of the other streams (13..1025, around powers of two), heavy ties
    on the first objective: an operator must not change behaviour with the population size"""
    total = (6000 if tier == "thorough" else 390) * mult
    for it in range(total):
        yield make_case(rng, LARGE_OPS[it % len(LARGE_OPS)], "large")


def gen_flavoured(tier, rng, mult):
    total = (75000 if tier == "thorough" else 4500) * mult
    for it in range(total):
        flavour, ops = FLAVOURS[it % len(FLAVOURS)]
        yield make_case(rng, ops[(it // len(FLAVOURS)) % len(ops)], flavour)


def gen_random(tier, rng, mult):
    total = (200000 if tier == "thorough" else 8000) * mult
    for it in range(total):
        yield make_case(rng, RANDOM_OPS[it % len(RANDOM_OPS)])


# ------------------------------------------------------------------------------------------
# histories: several selector calls in one process over a family of fitness classes
# ------------------------------------------------------------------------------------------

_family_counter = [0]


def resolved_weights(fam):
    """the weights every class of the family resolves to (own entry, else the parent's), as Python's MRO does"""
    out = []
    for c in fam:
        out.append(list(c["w"]) if c["w"] is not None else list(out[c["parent"]]))
    return out


def build_family(fam):
    """creates the classes of one history (fresh ones for every case, so that what was used first is decided by
    the history alone): `how` = creator.create / a class statement / type()"""
    _family_counter[0] += 1
    classes, created = [], []
    for i, c in enumerate(fam):
        parent = base.Fitness if c["parent"] is None else classes[c["parent"]]
        name = "C06Fam%d_%d" % (_family_counter[0], i)
        ns = {} if c["w"] is None else {"weights": tuple(float(Fr(x)) for x in c["w"])}
        if c["how"] == "creator" or type(parent) is not type:
            creator.create(name, parent, **ns)
            created.append(name)
            cls = getattr(creator, name)
        elif c["how"] == "type":
            cls = type(name, (parent,), dict(ns))
        elif ns:
            class cls(parent):
                weights = ns["weights"]
        else:
            class cls(parent):
                pass
        classes.append(cls)
    return classes, created


def step_kind(op):
    return "wheel" if op in ("roulette", "sus") else "dcd" if op == "dcd" else "plain"


def evaluate_hist(d):
    fam, steps = d["fam"], d["steps"]
    res_w = resolved_weights(fam)
    classes, created = build_family(fam)
    try:
        return _evaluate_hist(d, fam, steps, res_w, classes)
    finally:
        for nm in created:
            if hasattr(creator, nm):
                delattr(creator, nm)


def _evaluate_hist(d, fam, steps, res_w, classes):
    for cls, rw in zip(classes, res_w):
        if tuple(cls.weights) != tuple(float(Fr(x)) for x in rw):
            raise ValueError("harness: class weights do not resolve as described")
    segs = ["class %s %s" % ("inh" if c["w"] is None else slist(Fr(x) for x in c["w"]),
                             "root" if c["parent"] is None else c["parent"]) for c in fam]
    tagbits = d.get("tag", "hist")
    slots = {}
    answers = []
    orc = None
    nontrivial = False
    for si, st in enumerate(steps):
        op, k = st["op"], st["k"]
        F = classes[st["cls"]]
        st = dict(st)
        st["w"] = res_w[st["cls"]]
        w = [Fr(x) for x in st["w"]]
        attr = attr_of(st)
        if st["pop"] in slots:
            pop = slots[st["pop"]]
            if st.get("reval"):
                # the caller re-evaluates the individuals (same objects, new fitness values)
                for i, ind in enumerate(pop):
                    if canon_map(st)[i] == i:
                        getattr(ind, attr).values = tuple(float(Fr(v)) for v in st["vals"][i])
        else:
            _, pop = build_pop(st, F=F)
            slots[st["pop"]] = pop
        n = len(pop)
        where = "call #%d of the history (%s, k=%d): " % (si + 1, op, k)
        if not in_quantifier(st, n):
            raise ValueError("harness: history step outside the quantifier")
        before = snapshot(pop)
        order_before = [id(x) for x in pop]
        forced = forced_tape_for(st, pop, w)
        res, err, tape_err, draws = run_impl(st, pop, forced)
        if tape_err is not None and forced is not None:
            res, err, tape_err2, draws = run_impl(st, pop, None)
        if [id(x) for x in pop] != order_before or snapshot(pop) != before:
            return Case(d, [], [], where + "the population or one of its individuals was modified", tag=tagbits)
        if err is not None:
            return Case(d, [], [], where + "implementation raised " + err, tag=tagbits + "/exception")
        index_of = {}
        for i, x in enumerate(pop):
            index_of.setdefault(id(x), i)
        idx = [index_of.get(id(x)) for x in res]
        o = oracle(st, w, pop, res, idx, draws, tape_ok=tape_err is None)
        if tape_err is not None and (o is None or o.startswith("TAPE:")):
            o = "TAPE: " + tape_err
        if o is not None:
            if o.startswith("TAPE:"):
                return Case(d, [], [], "TAPE: " + where + o[5:], tag=tagbits + "/tape")
            return Case(d, [], [], where + o, tag=tagbits)
        try:
            segs.append(" ".join(["call", str(st["cls"])] + req_tokens(st, w, pop, draws, wtok="@")))
        except ValueError as e:
            return Case(d, [], [], "TAPE: " + where + str(e), tag=tagbits + "/tape")
        answers.append(",".join(str(i) for i in idx) or "-")
        nontrivial = nontrivial or (k >= 1 and n >= 2)
    return Case(d, ["C06 hist " + " | ".join(segs)], ["|".join(answers) + " 0"], orc, tag=tagbits, nontrivial=nontrivial)


HIST_GROUPS = [("lexicase", ["lex", "epslex", "autolex"]), ("best-worst", ["best", "worst"]),
               ("tournaments", ["tourn", "dtourn"]), ("wheel", ["roulette", "sus"]), ("dcd", ["dcd"]),
               ("lexicase", ["lex", "lex", "epslex"]),
               ("mixed", ["best", "worst", "random", "tourn", "dtourn", "lex", "epslex", "autolex", "dcd", "roulette", "sus"])]
ATTR_OPS = ("best", "worst", "tourn", "roulette", "sus", "dtourn")


def neg_w(x):
    return sfr(-Fr(x))


def make_family(rng, nobj, positive_first, order):
    """2..4 classes: a base class and classes derived from it (or from one another), weights overridden (other signs
    in some coordinates) or inherited; `order` = which of base / derived the history uses first"""
    ncls = rng.choice([2, 2, 3, 4])
    fam = []
    for i in range(ncls):
        how = rng.choice(["creator", "creator", "class", "type"])
        if i == 0:
            w = [rng.choice(WEIGHTS) for _ in range(nobj)]
            parent = None
        else:
            parent = rng.choice([0, 0, i - 1, rng.randrange(i), None])
            if parent is not None and rng.random() < 0.25:
                w = None                                              # inherited
            else:
                src = resolved_weights(fam)[parent if parent is not None else 0]
                w = [neg_w(x) if rng.random() < 0.6 else rng.choice([x, x, rng.choice(WEIGHTS)]) for x in src]
        if w is not None and positive_first and Fr(w[0]) <= 0:
            w[0] = neg_w(w[0])
        if parent is not None and fam[parent]["how"] == "creator":
            how = "creator"          # a class made by creator.create can only be derived from through creator.create
        fam.append({"w": w, "parent": parent, "how": how})
    return fam


def make_step(rng, op, cls, nobj, n=None):
    for _ in range(200):
        fl = rng.choice([None, None, "alias", "attr" if op in ATTR_OPS else None, "neg" if step_kind(op) != "wheel" else None])
        st = make_case(rng, op, fl, n=n, nobj=nobj)
        st.pop("rforce", None)
        if not st.get("exact", True) or st.get("edge"):
            continue
        st["cls"] = cls
        if not in_quantifier(st, len(st["vals"])):
            continue
        return st
    raise ValueError("harness: no admissible history step for " + op)


def make_history(rng, it):
    gname, ops = HIST_GROUPS[it % len(HIST_GROUPS)]
    order = (it // len(HIST_GROUPS)) % 2            # 0: a base class is used first, 1: a derived class first
    nobj = rng.choice([1, 2, 2, 3, 3, 4])
    wheel = any(step_kind(o) == "wheel" for o in ops)
    fam = make_family(rng, nobj, wheel, order)
    derived = [i for i, c in enumerate(fam) if c["parent"] is not None] or [len(fam) - 1]
    nsteps = rng.choice([2, 3, 4, 5, 6])
    steps = []
    for si in range(nsteps):
        op = rng.choice(ops)
        if si == 0:
            cls = 0 if order == 0 else rng.choice(derived)
        elif si == 1:
            cls = rng.choice(derived) if order == 0 else fam[steps[0]["cls"]]["parent"] or 0
        else:
            cls = rng.randrange(len(fam))
        # (an operator without fit_attr reads `fitness`: it is not given a population whose `fitness` is the decoy)
        same = [s0 for s0 in steps if step_kind(s0["op"]) == step_kind(op) and (op in ATTR_OPS or "attr" not in s0)]
        if same and rng.random() < 0.45:
            # the same population objects again: another selector / k / fit_attr, possibly re-evaluated
            src = rng.choice(same)
            st = make_step(rng, op, src["cls"], nobj, n=len(src["vals"]))
            for key in ("sizes", "cd", "alias", "cont", "genome"):
                st.pop(key, None)
                if key in src:
                    st[key] = src[key]
            st["pop"] = src["pop"]
            if "attr" in src:
                st["attr"] = rng.choice(["other", "fitness"])
            else:
                st.pop("attr", None)
            if op == "dcd":
                ks = [x for x in (0, 4, 8, 12) if x <= len(src["vals"])]
                st["k"] = rng.choice(ks)
            if rng.random() < 0.5 and st.get("attr", "fitness") == src.get("attr", "fitness"):
                st["reval"] = 1
                al = st.get("alias")
                if al:
                    st["vals"] = [list(st["vals"][al[i]]) for i in range(len(al))]
            else:
                st["vals"] = [list(v) for v in src["vals"]]
            if op == "roulette":
                st.pop("sweep", None)
                st["den"] = 1024
                st["j"] = [rng.choice([0, 1023, rng.randrange(1024)]) for _ in range(st["k"])]
            if op == "sus":
                st["k"] = rng.choice([0, 1, 2, 4, 8, 16])
                st["j"] = rng.choice([rng.randrange(1, 1024), 512, 1, 1023])
                st["exact"] = True
        else:
            st = make_step(rng, op, cls, nobj)
            st["pop"] = si
        steps.append(st)
    return {"op": "hist", "fam": fam, "steps": steps, "k": sum(s0["k"] for s0 in steps),
            "tag": "hist/%s/%s-first" % (gname, "base" if order == 0 else "derived")}


def gen_histories(tier, rng, mult):
    total = (14000 if tier == "thorough" else 700) * mult
    for it in range(total):
        yield make_history(rng, it)


def gen_pools(tier, rng, mult):
    """mating pools: a population drawn with replacement from distinct individuals (what selTournament / selRandom /
    selRoulette hand to the next operator) - every selector, the wheels first and most often"""
    thorough = tier == "thorough"
    # every wheel of n <= 3 positions over {1,2,3} with every way of listing an object again, swept / sampled
    for n in (2, 3):
        for alias in itertools.product(*[range(i + 1) for i in range(n)]):
            alias = [alias[a] if alias[alias[a]] == alias[a] else alias[alias[a]] for a in alias]
            if alias == list(range(n)) or any(alias[alias[i]] != alias[i] for i in range(n)):
                continue
            for base_vals in itertools.product(["1", "2", "3"], repeat=n):
                vals = [[base_vals[alias[i]]] for i in range(n)]
                if [v[0] for v in vals] != list(base_vals):
                    continue
                yield {"op": "roulette", "w": ["1"], "vals": vals, "k": 64, "j": list(range(64)), "den": 64, "sweep": 1,
                       "exh": 1, "alias": list(alias)}
                for k in (1, 2, 3, 4, 5, 8):
                    m = odd_part(k)
                    vv = [[str(int(v[0]) * m)] for v in vals]
                    for j in ((1, 2, 3, 4, 5, 6, 7) if thorough else (1, 4, 7)):
                        yield {"op": "sus", "w": ["1"], "vals": vv, "k": k, "j": j, "den": 8, "exh": 1, "alias": list(alias)}
    ops = ["roulette", "sus", "roulette", "sus", "best", "worst", "tourn", "dtourn", "lex", "epslex", "autolex", "dcd", "random"]
    total = (12000 if thorough else 780) * mult
    for it in range(total):
        op = ops[it % len(ops)]
        for _ in range(50):
            d = make_case(rng, op, "alias")
            if "alias" in d:
                break
        yield d


def generate(tier, rng, mult):
    # which streams run never depends on the seed; every stream covers every operator it applies to
    for d in gen_exhaustive(tier):
        yield d
    for d in gen_pools(tier, rng, mult):
        yield d
    for d in gen_histories(tier, rng, mult):
        yield d
    for d in gen_large(tier, rng, mult):
        yield d
    for d in gen_flavoured(tier, rng, mult):
        yield d
    for d in gen_random(tier, rng, mult):
        yield d


def shrink(d):
    if d["op"] == "hist":
        steps = d["steps"]
        if len(steps) > 1:
            for i in range(len(steps)):
                e = dict(d)
                e["steps"] = steps[:i] + steps[i + 1:]
                e["k"] = sum(s0["k"] for s0 in e["steps"])
                yield e
        last = len(d["fam"]) - 1
        if last > 0 and not any(s0["cls"] == last for s0 in steps) and not any(c["parent"] == last for c in d["fam"]):
            e = dict(d)
            e["fam"] = d["fam"][:-1]
            yield e
        return
    n = len(d["vals"])
    if n > 1 and "forced" not in d and "alias" not in d and "attr" not in d:
        for i in range(n):
            e = dict(d)
            e["vals"] = d["vals"][:i] + d["vals"][i + 1:]
            for key in ("sizes", "cd"):
                if key in d:
                    e[key] = d[key][:i] + d[key][i + 1:]
            yield e
    if d["k"] > 0 and "j" not in d and "forced" not in d:
        step = 4 if d["op"] == "dcd" else 1
        for kk in (d["k"] - step, d["k"] // 2 // step * step):
            if 0 <= kk < d["k"]:
                e = dict(d)
                e["k"] = kk
                yield e
    if d["op"] == "roulette" and len(d.get("j", [])) > 1 and not d.get("sweep"):
        for i in range(len(d["j"])):
            e = dict(d)
            e["j"] = d["j"][:i] + d["j"][i + 1:]
            e["k"] = len(e["j"])
            yield e
    if len(d["w"]) > 1:
        for c in range(len(d["w"])):
            if d["op"] in ("roulette", "sus") and c == 0:
                continue
            e = dict(d)
            e["w"] = d["w"][:c] + d["w"][c + 1:]
            e["vals"] = [v[:c] + v[c + 1:] for v in d["vals"]]
            yield e
    for key in ("ts", "fs"):
        if d.get(key, 1) > 1:
            e = dict(d)
            e[key] = d[key] - 1
            if "forced" not in e:
                yield e


def classify(desc, msg, known):
    # F13 would only be reported for the exact shape "universal sampling with the draw 0.0"; the oracle
    # does not evaluate the count clause there, so nothing is ever classified.
    return None
