"""C02, stream `seq` — several varAnd / varOr calls IN ONE PROCESS on individuals of ONE class whose gene structure changes between the
calls (all genes atomic -> genes that are nested lists -> atomic again, and the other orders), with ONE toolbox object reused
(its default `clone`), a crossover that moves or edits nested genes and a mutation that edits nested genes in place.

"Never modify any individual of the population they are given ... each offspring shares no mutable state with every input" must hold
for every call of such a history: whatever a clone implementation remembers about a class from the first individuals it saw must not
decide how later individuals of that class are copied (seeded change C02-r7m3).  A fresh class is created for every case, so the cases
are independent of each other.

Every call is one protocol line of the ordinary `C02 and` / `C02 or` form (scripted operators; a gene is interned by its `repr`,
nested genes included) and the oracle is the statement on the real objects (snapshots and the mutable-parts walk descend into nested
genes)."""
import itertools
import random
import warnings

from lib import Case, fbits
import tape as tapemod
from deap import algorithms, base, creator, tools

from props import c02 as B

_counter = itertools.count()
KINDS = ["flat", "nested", "mixed", "empty-genes"]


def mut_nested(ind):
    """in place, as the DEAP mutations are: an atomic gene is replaced, a nested gene is EDITED (insert)"""
    for i, g in enumerate(ind):
        if random.random() < 0.6:
            if isinstance(g, list):
                g.insert(random.randint(0, len(g)), random.randint(100, 199))
            else:
                ind[i] = random.randint(0, 9)
    return ind,


def cx_inner(a, b):
    """in place: exchanges the heads of the nested genes the two individuals have at the same position, atomic genes wholesale"""
    for i in range(min(len(a), len(b))):
        if random.random() < 0.5:
            if isinstance(a[i], list) and isinstance(b[i], list) and a[i] and b[i]:
                a[i][0], b[i][0] = b[i][0], a[i][0]
            else:
                a[i], b[i] = b[i], a[i]
    return a, b


MATES = {"cxTwoPoint": tools.cxTwoPoint, "cx_inner": cx_inner}


def mk_ind(cls, spec):
    ind = cls([list(g) if isinstance(g, list) else g for g in spec["g"]])
    if spec["fit"] is not None:
        ind.fitness.values = tuple(float(v) for v in spec["fit"])
    if spec.get("extra"):
        ind.meta = {"k": [spec["extra"]]}
    return ind


def evaluate(d):
    name = "C02Seq_%d" % next(_counter)
    creator.create(name, list, fitness=creator.C02FitMO if d["fk"] == "mo" else creator.C02FitMax)
    cls = getattr(creator, name)
    try:
        return _run(d, cls)
    finally:
        delattr(creator, name)


def _run(d, cls):
    tb = base.Toolbox()                      # ONE toolbox for the whole history, with its default clone
    tb.register("mate", MATES[d["mate"]])
    tb.register("mutate", mut_nested)
    orig = (tb.clone, tb.mate, tb.mutate)
    lines, expects, orc, tags = [], [], None, []
    nontrivial = False
    for k, ph in enumerate(d["phases"]):
        fn = ph["fn"]
        inds = [mk_ind(cls, s) for s in ph["inds"]]
        pop = [inds[i] for i in ph["pop"]]
        pop_ids = [id(x) for x in pop]
        cxpb, mutpb, lam = float(ph["cxpb"]), float(ph["mutpb"]), int(ph.get("lam", 0))
        before = [B.snap(x) for x in inds]
        before_pop = [B.snap(x) for x in pop]
        tb.clone, tb.mate, tb.mutate = orig
        with tapemod.Tape(rng=random.Random(ph["seed"])) as tp:
            rec = B.Recorder(tp, inds)
            heap_tok = ";".join(rec.obj(x) for x in inds) if inds else "-"
            rec.wrap(tb)
            with warnings.catch_warnings():
                warnings.simplefilter("ignore")
                if fn == "and":
                    out = algorithms.varAnd(pop, tb, cxpb, mutpb)
                else:
                    out = algorithms.varOr(pop, tb, lam, cxpb, mutpb)
        draws = rec.var_draws()
        script = ";".join(rec.calls) if rec.calls else "-"
        pops = B.sl(ph["pop"])
        if fn == "and":
            line = "C02 and %s %s %s %s %s %s" % (pops, heap_tok, fbits(cxpb), fbits(mutpb),
                                                 B.sl(fbits(x[1]) for x in draws if x[0] == "random"), script)
        else:
            toks = []
            for x in draws:
                if x[0] == "random":
                    toks.append("r:" + fbits(x[1]))
                elif x[0] == "sample":
                    toks.append("s:%d:%d" % tuple(x[3]))
                elif x[0] == "choice":
                    toks.append("c:%d" % x[2])
            line = "C02 or %s %s %d %s %s %s %s" % (pops, heap_tok, lam, fbits(cxpb), fbits(mutpb), B.sl(toks), script)

        def cls_of(o):
            for j, p in enumerate(pop):
                if p is o:
                    return "i%d" % j
            if any(o is x for x in inds):
                return "i%d" % len(pop)
            return "f"
        ans = "off=%s cls=%s objs=%s par=%s log=%s" % (
            B.sl(rec.of(o) for o in out), B.sl(cls_of(o) for o in out),
            ";".join(rec.obj(o) for o in out) if out else "-",
            ";".join(rec.obj(x) for x in inds) if inds else "-", B.sl(rec.events))
        if rec.contract:
            ans = "operator-contract-violated: " + rec.contract
        if orc is None:
            orc = B.statement_oracle(fn, pop, pop_ids, len(ph["pop"]), inds, before, before_pop, out,
                                     len(pop) if fn == "and" else lam, rec.touched)
            if orc is not None:
                orc = "call %d (%s genes, after %s) of a history on one class: %s" % (
                    k, ph["kind"], "/".join(p["kind"] for p in d["phases"][:k]) or "nothing", orc)
        lines.append(line)
        expects.append(ans)
        tags.append(ph["kind"][0])
        nontrivial = nontrivial or len(out) > 0
    return Case(d, lines, expects, orc, tag="seq/%s/%s" % (d["mate"], "".join(tags)), nontrivial=nontrivial)


def mk_gene(rng, kind):
    if kind == "flat":
        return rng.randint(0, 9)
    if kind == "nested":
        return [rng.randint(0, 9) for _ in range(rng.randint(1, 3))]
    if kind == "empty-genes":
        return [] if rng.random() < 0.5 else rng.randint(0, 9)
    return rng.randint(0, 9) if rng.random() < 0.5 else [rng.randint(0, 9) for _ in range(rng.randint(0, 3))]


def mk_phase(rng, kind, fk):
    n = rng.randint(2, 5)
    size = rng.randint(2, 6)
    inds = []
    for i in range(n):
        spec = {"g": [mk_gene(rng, kind) for _ in range(size)],
                "fit": [rng.randint(-3, 3) for _ in range(2 if fk == "mo" else 1)] if rng.random() < 0.6 else None}
        if rng.random() < 0.3:
            spec["extra"] = i + 1
        inds.append(spec)
    pop = list(range(n))
    if rng.random() < 0.2:
        pop[rng.randrange(n)] = pop[0]
    fn = rng.choice(["and", "or"])
    cxpb = rng.choice([0.0, 0.5, 0.5, 1.0])
    mutpb = rng.choice([0.0, 0.5, 1.0, 0.6]) if fn == "and" else rng.choice([0.0, 1.0 - cxpb, 0.5 * (1.0 - cxpb)])
    return {"kind": kind, "fn": fn, "inds": inds, "pop": pop, "cxpb": cxpb, "mutpb": mutpb, "lam": rng.randint(1, 6),
            "seed": rng.getrandbits(32)}


def mk_case(rng, kinds=None, mate=None):
    fk = rng.choice(["max", "mo"])
    kinds = kinds or [rng.choice(KINDS) for _ in range(rng.randint(2, 4))]
    return {"fn": "seq", "fk": fk, "mate": mate or rng.choice(sorted(MATES)), "phases": [mk_phase(rng, k, fk) for k in kinds]}


def generate(tier, rng, mult):
    thorough = tier == "thorough"
    orders = [["flat", "nested", "flat"], ["nested", "flat", "nested"], ["flat", "mixed"], ["empty-genes", "nested"],
              ["flat", "flat", "nested", "nested"], ["mixed", "flat", "mixed"], ["nested", "nested"], ["flat", "empty-genes", "mixed"]]
    for kinds in orders:
        for mate in sorted(MATES):
            for _ in range(12 if thorough else 3):
                yield mk_case(rng, kinds, mate)
    for _ in range((3000 if thorough else 100) * mult):
        yield mk_case(rng)


def shrink(d):
    if len(d["phases"]) > 1:
        for i in range(len(d["phases"])):
            e = dict(d)
            e["phases"] = d["phases"][:i] + d["phases"][i + 1:]
            yield e
    for i, ph in enumerate(d["phases"]):
        if len(ph["pop"]) > 1:
            for j in range(len(ph["pop"])):
                e = dict(d)
                e["phases"] = [dict(x) for x in d["phases"]]
                e["phases"][i]["pop"] = ph["pop"][:j] + ph["pop"][j + 1:]
                if e["phases"][i]["fn"] == "or" and len(e["phases"][i]["pop"]) < 2 and e["phases"][i]["cxpb"] > 0:
                    continue
                yield e
