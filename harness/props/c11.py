"""C11 — GP trees stay well-formed, well-typed and within limits under all operators (deap/gp.py)."""
import copy
import itertools
import functools
import operator
import os
import pickle
import random
import warnings

from lib import Case, fbits
import tape as _tape
from deap import gp

ANCHORS = [("deap/gp.py", ["PrimitiveTree.__init__", "PrimitiveTree.__deepcopy__", "PrimitiveTree.__setitem__", "PrimitiveTree.height", "PrimitiveTree.root",
                           "PrimitiveTree.searchSubtree", "PrimitiveSetTyped._add", "PrimitiveSetTyped.terminalRatio",
                           "generate", "genFull", "genGrow", "genHalfAndHalf", "genRamped", "cxOnePoint", "cxOnePointLeafBiased",
                           "mutUniform", "mutNodeReplacement", "mutEphemeral", "mutInsert", "mutShrink",
                           "staticLimit", "mutSemantic", "cxSemantic",
                           "PrimitiveSetTyped.__init__", "PrimitiveSetTyped.addPrimitive", "PrimitiveSetTyped.addTerminal",
                           "PrimitiveSetTyped.addEphemeralConstant", "PrimitiveSetTyped.addADF",
                           "PrimitiveSetTyped.renameArguments", "PrimitiveSet.__init__", "PrimitiveSet.addPrimitive",
                           "PrimitiveSet.addTerminal", "PrimitiveSet.addEphemeralConstant", "MetaEphemeral.__new__"])]
LEVEL = "proof"
RULE = ("primitive sets: 4 loose, 8 strongly typed (subclass pairs, object-rooted, terminals-only type, strict-subclass "
        "returning primitive, two distinct homonymous types) and 6 with the int/bool/float vocabulary registered in shuffled order; "
        "searchSubtree at every Python int index (-len <= i < len through the oracle; IndexError / wrap-around below -len against "
        "the model); exhaustive part: every primitive set x generator (full, grow, half-and-half; genRamped on a third of the "
        "grid) x every min <= max in 0..6 x every requestable type (sizes capped); histories: chains of 3-8 operators on the same "
        "2-3 tree objects (all mutations, both crossovers, bare / some / all wrapped by one staticLimit) with read-only looks "
        "(searchSubtree at every or some indices, height, str), deepcopy clones and pickle round trips in between, checked after "
        "every step and replayed as a whole by the model; then every operator (cxOnePoint, cxOnePointLeafBiased, mutUniform with "
        "the three replacement generators, mutNodeReplacement, mutEphemeral one/all, mutInsert, mutShrink), bare and wrapped by "
        "staticLimit(len | height), on trees from the real generators incl. single-node trees, with the recorded tape "
        "replayed by the Lean model; height, __setitem__ guards, _add pools; "
        "geometric semantic operators (mutSemantic with given / drawn ms, cxSemantic) on 4 loosely typed GSGP sets, one strongly "
        "typed one and sets lacking one of lf/mul/add/sub (the assertion), generators full/grow/half-and-half, replayed by the model; "
        "declaration histories of PrimitiveSetTyped / PrimitiveSet (addPrimitive, addTerminal, addEphemeralConstant, addADF, "
        "renameArguments, pool reads in between, deliberate name clashes) in random orders against the whole state of the real "
        "object (pools in key order, mapping, context, arguments, counters, terminalRatio). "
        "Non-trivial = distinct case in which the operator changed a tree / the generated tree has more than one node")
EXHAUSTIVE = {"quick": False, "thorough": False}
TIME_BUDGET = {"quick": 50, "thorough": 800}
TRUSTED = ["CPython list slicing / slice assignment / defaultdict / issubclass (slice assignment modelled as take ++ val ++ drop)",
           "random.randint(a, b) returns a value in [a, b], random.randrange(a, b) one in [a, b), random.choice(seq) an element "
           "of seq (the contracts the tape draws are checked against)",
           "IEEE-754 double division and comparison (terminalRatio, termpb) are the same operation in Lean's Float",
           "random.uniform(a, b) is a + (b - a) * random() (CPython's definition; the tape records it that way), repr / str of the "
           "Python values handed to addTerminal (transported as text)",
           "translator tie: the rendering rules of harness/py2lean_c11.py (docstring), the prelude lean/DeapModel/Core/GenPreludeC11.lean "
           "(Python index / pop / [e]*n / slice assignment / format / dict with int keys / for / fuel-bounded while) and the signature table SIG of "
           "harness/props/c11_translate.py (declared types, loop bounds: running out of the declared bound is rendered as an exception)"]
def translate(repo):
    """translator tie (lib._translated_obligations): Lean definitions regenerated from `repo`'s current deap/gp.py (PrimitiveTree.root /
    height / searchSubtree / __setitem__ / __str__, graph) + the committed theorems `Gen.<f> = <model>` of lean/DeapModel/GenEq/C11.lean.tmpl"""
    from props import c11_translate
    import json
    import os
    import lib
    tr = c11_translate.translate(repo)
    try:
        os.makedirs(os.path.join(lib.OUT, "evidence"), exist_ok=True)
        with open(os.path.join(lib.OUT, "evidence", "C11.translated.json"), "w") as fh:
            json.dump({"definitions": len(tr["definitions"]), "theorems": len(tr["theorems"]),
                       "refused": len(tr["refused"]), "problems": tr["problems"],
                       "functions": [dict(name=n, status=st, detail=d) for n, st, d in tr.get("table", [])],
                       "theorem_names": tr["theorems"]}, fh, indent=1)
            fh.write("\n")
    except OSError:
        pass
    return tr


ASSUMPTIONS = ["an index of searchSubtree is read as Python reads a list index: -len <= i < len, a negative one counting from "
               "the end; the returned slice must select exactly the nodes of the subtree rooted at tree[i] (slice.indices), "
               "whether its start is reported negative or normalised is not demanded; other ints are no node's index "
               "(model vs implementation only)",
               "a history applies operators to tree objects that earlier operators, read-only calls, copy.deepcopy or a pickle "
               "round trip produced; the trees of one history share the root slot (a population), so a static-limited "
               "crossover may hand back a copy of either parent",
               "primitive sets: every primitive has arity >= 1, every terminal arity 0; where a requested type has no "
               "terminal / no primitive, generate raises its documented IndexError and produces no tree (model: none)",
               "ephemeral generators draw their value with random.randint (so the value is on the tape)",
               "the two parents of a crossover are distinct objects (algorithms.varAnd clones them; cxOnePoint(t, t) "
               "assigns two slices of the same list and can leave an incomplete expression — outside the statement's "
               "'every pair of such trees')",
               "an operator wrapped by staticLimit gets at least its first tree POSITIONALLY (the wrapper keeps copies of the "
               "leading positional arguments as fall-back parents; with every tree passed by keyword that pool is empty "
               "and an over-limit child makes it raise — out of domain); the second parent of a crossover and the other "
               "parameters may be positional or keywords, all forms are exercised",
               "semantic operators: the title's 'all operators' is read to include mutSemantic / cxSemantic on sets where their own "
               "precondition holds (lf unary, add/mul/sub binary, all over `object`: a loosely typed set) - there the offspring must be "
               "complete and well typed; in a strongly typed set the constant they create is declared `object` and the offspring is "
               "compared with the model only (observation); the two parents of cxSemantic are distinct objects; ms is a float",
               "declaration histories: names and printed constants contain none of the protocol separators; a symbol's identity is "
               "its value (name, types, text) - two argument terminals never share a name unless a renaming made them"]
MIN_CASES = 2000
CASE_TIMEOUT = 10
EXPLANATION = ("Closure theorems for every `.ok` result — per operator and, by induction over the operator list, along every "
               "history of (possibly static-limited) operators on the same tree objects (ops_closed_history, ops_limit_history) — "
               "and totality theorems (gen_total, cx_total, cxlb_total, mut*_total, staticLimit_total): on "
               "well-formed inputs the model never ends in the fault `raised` (Python exception) or `fuel`, and returns on every "
               "well-typed tape longer than an explicit bound. "
               "Theorems C11.* are proved for every primitive set satisfying the pool invariant established by _add, all "
               "trees, all tapes (no size bounds); the correspondence ties Core/GpTree.lean to deap.gp by replaying the "
               "recorded random draws, single calls and whole histories (one `hist` line per chain).")

SIZE_CAP = 700


# ----------------------------------------------------------------------------------------------
# tape that also remembers the chosen element of random.choice
# ----------------------------------------------------------------------------------------------

class MyTape(_tape.Tape):
    def __init__(self, rng=None, forced=None):
        _tape.Tape.__init__(self, rng=rng, forced=forced)
        self.elems = {}

    def _choice(self, seq):
        x = _tape.Tape._choice(self, seq)
        self.elems[len(self.draws) - 1] = x
        return x


# ----------------------------------------------------------------------------------------------
# primitive sets
# ----------------------------------------------------------------------------------------------

class TA(object):
    pass


class TB(TA):
    pass


class TC(object):
    pass


def _eph():
    return random.randint(-9, 9)


def _eph2():
    return random.randint(0, 3)


def f_add(a, b):
    return a + b


def f_sub(a, b):
    return a - b


def f_mul(a, b):
    return a * b


def f_neg(a):
    return -a


def f_ite(c, a, b):
    return a if c else b


def f_lt(a, b):
    return a < b


def f_not(a):
    return not a


def f_and(a, b):
    return a and b


def f_id(a):
    return a


def f_max3(a, b, c):
    return max(a, b, c)


_uid = [0]


def uniq(name):
    _uid[0] += 1
    return "%s_%d_%d" % (name, os.getpid(), _uid[0])


class PS(object):
    """A primitive set together with the type-id table and the order of the `_add` calls."""

    def __init__(self, name, typed, in_types, ret, types):
        self.name = name
        self.types = [object] + [t for t in types if t is not object]
        self.order = []
        if typed:
            self.pset = gp.PrimitiveSetTyped("MAIN", in_types, ret)
        else:
            self.pset = gp.PrimitiveSet("MAIN", in_types)
        # log every _add (constructor arguments were added before we could hook: replay them)
        for a in self.pset.arguments:
            self.order.append(self.pset.mapping[a])
        orig = self.pset._add

        def logged(prim):
            self.order.append(prim)
            return orig(prim)
        self.pset._add = logged
        self._tok = None

    def tid(self, t):
        return self.types.index(t)

    def requestable(self):
        """type ids that may be asked from a generator (keys having a terminal and a primitive)"""
        out = []
        for t in self.types:
            if self.pset.terminals.get(t) and self.pset.primitives.get(t):
                out.append(self.tid(t))
        return out

    def node_tok(self, n):
        if isinstance(n, gp.Primitive):
            return "%s:%d:%s:p:" % (n.name, self.tid(n.ret), ".".join(str(self.tid(a)) for a in n.args))
        if type(n) is gp.MetaEphemeral:          # the class, inside a pool
            return "%s:%d::e:" % (n.name, self.tid(n.ret))
        if type(type(n)) is gp.MetaEphemeral:    # an instance
            return "%s:%d::e:%s" % (n.name, self.tid(n.ret), n.format())
        return "%s:%d::t:%s" % (n.name, self.tid(n.ret), n.format())

    def nodes_tok(self, l):
        return ",".join(self.node_tok(n) for n in l) if len(l) else "-"

    def sub_tok(self):
        n = len(self.types)
        return ",".join("%d.%d" % (a, b) for a in range(n) for b in range(n) if issubclass(self.types[a], self.types[b]))

    def pool_tok(self, d):
        if not d:
            return "-"
        return ";".join("%d=%s" % (self.tid(t), ",".join(self.node_tok(x) for x in l)) for t, l in d.items())

    def tokens(self):
        if self._tok is None:
            p = self.pset
            self._tok = "%s %s %s %d %d %d" % (self.sub_tok(), self.pool_tok(p.primitives), self.pool_tok(p.terminals),
                                               self.tid(p.ret), p.terms_count, p.prims_count)
        return self._tok


def build_loose1():
    ps = PS("loose1", False, 1, None, [])
    p = ps.pset
    p.addPrimitive(f_add, 2, name="add")
    p.addPrimitive(f_neg, 1, name="neg")
    p.addPrimitive(f_ite, 3, name="ite")
    p.addTerminal(1)
    p.addEphemeralConstant(uniq("E"), _eph)
    return ps


def build_loose0():
    ps = PS("loose0", False, 0, None, [])
    p = ps.pset
    p.addPrimitive(f_sub, 2, name="sub")
    p.addTerminal(0)
    p.addTerminal(1)
    return ps


def build_loose2():
    ps = PS("loose2", False, 2, None, [])
    p = ps.pset
    p.addPrimitive(f_max3, 3, name="max3")
    p.addPrimitive(f_mul, 2, name="mul")
    p.addPrimitive(f_add, 2, name="add")
    p.addPrimitive(f_neg, 1, name="neg")
    p.addEphemeralConstant(uniq("R"), _eph)
    p.addEphemeralConstant(uniq("S"), _eph2)
    p.addTerminal(-1)
    p.addTerminal(3, name="three")
    return ps


def build_loose_unary():
    ps = PS("unary", False, 1, None, [])
    p = ps.pset
    p.addPrimitive(f_neg, 1, name="neg")
    p.addPrimitive(f_id, 1, name="idf")
    p.addEphemeralConstant(uniq("U"), _eph)
    return ps


def build_typed1(ret=int):
    ps = PS("typed1", True, [int, float], ret, [int, bool, float])
    p = ps.pset
    p.addPrimitive(f_add, [int, int], int, name="addI")
    p.addPrimitive(f_lt, [int, int], bool, name="ltI")
    p.addPrimitive(f_ite, [bool, int, int], int, name="iteI")
    p.addPrimitive(f_not, [bool], bool, name="notB")
    p.addPrimitive(f_and, [bool, bool], bool, name="andB")
    p.addPrimitive(f_id, [int], float, name="i2f")
    p.addPrimitive(f_mul, [float, float], float, name="mulF")
    p.addPrimitive(f_id, [float], int, name="f2i")
    p.addPrimitive(f_ite, [bool, float, float], float, name="iteF")
    p.addTerminal(1, int)
    p.addTerminal(True, bool)
    p.addTerminal(False, bool)
    p.addTerminal(0.5, float)
    p.addEphemeralConstant(uniq("EI"), _eph, int)
    return ps


def build_typed2():
    ps = PS("typed2", True, [TA, TC], TA, [TA, TB, TC])
    p = ps.pset
    p.addTerminal(10, TB, name="b1")           # a subclass terminal BEFORE the superclass key fills (exercises addType)
    p.addPrimitive(f_id, [TA], TB, name="g")
    p.addPrimitive(f_add, [TA, TC], TA, name="f")
    p.addPrimitive(f_add, [TB, TB], TB, name="h")
    p.addPrimitive(f_max3, [TC, TA, TB], TC, name="k")
    p.addPrimitive(f_id, [TA], TC, name="m")
    p.addPrimitive(f_max3, [TA, TA, TA], TA, name="f3")
    p.addTerminal(1, TA, name="a1")
    p.addTerminal(2, TC, name="c1")
    p.addEphemeralConstant(uniq("EC"), _eph, TC)
    p.addEphemeralConstant(uniq("EB"), _eph2, TB)
    return ps


def build_typed3():
    # return type is the subclass; slots of the superclass accept it; no ephemerals
    ps = PS("typed3", True, [bool], bool, [int, bool, float])
    p = ps.pset
    p.addPrimitive(f_lt, [float, float], bool, name="ltF")
    p.addPrimitive(f_and, [bool, bool], bool, name="andB")
    p.addPrimitive(f_ite, [bool, int, int], int, name="iteI")
    p.addPrimitive(f_add, [int, int], int, name="addI")
    p.addPrimitive(f_id, [int], float, name="i2f")
    p.addPrimitive(f_add, [float, float], float, name="addF")
    p.addTerminal(2, int)
    p.addTerminal(0.25, float)
    p.addTerminal(False, bool)
    return ps


def build_typedobj():
    # strongly typed, but tree roots return `object` (ret_type object and a primitive returning object)
    ps = PS("typedobj", True, [int], object, [int, bool, float])
    p = ps.pset
    p.addPrimitive(f_add, [int, int], int, name="addI")
    p.addPrimitive(f_lt, [int, int], bool, name="ltI")
    p.addPrimitive(f_ite, [bool, object, object], object, name="iteO")
    p.addTerminal(1, int)
    p.addTerminal(True, bool)
    p.addTerminal(0.5, float)
    return ps


# two DISTINCT, incompatible types with the same __name__ / __qualname__ / __module__ (a class defined twice, dynamically
# created classes, bool vs numpy.bool_ ...): types are identified by the object, never by their name or repr
VecA = type("Vector", (object,), {})
VecB = type("Vector", (object,), {})


def build_typedH():
    ps = PS("typedH", True, [float], float, [float, VecA, VecB])
    p = ps.pset
    p.addPrimitive(f_add, [VecA, VecB], float, name="mix")
    p.addPrimitive(f_add, [float, float], float, name="addF")
    p.addPrimitive(f_id, [VecA], VecA, name="rotA")
    p.addPrimitive(f_add, [VecA, VecA], VecA, name="sumA")
    p.addPrimitive(f_id, [VecB], VecB, name="rotB")
    p.addPrimitive(f_add, [VecB, VecB], VecB, name="sumB")
    p.addPrimitive(f_id, [float], VecA, name="liftA")
    p.addPrimitive(f_id, [float], VecB, name="liftB")
    p.addTerminal(1, VecA, name="a0")
    p.addTerminal(2, VecB, name="b0")
    p.addTerminal(1.0, float)
    p.addEphemeralConstant(uniq("EH"), _eph, VecB)
    return ps


def build_typedN():
    # the type bool has primitives (ltF, notB) but NO terminal: generate raises its documented IndexError whenever a
    # bool slot reaches the leaf depth, mutInsert / mutUniform raise when they need a bool terminal
    ps = PS("typedN", True, [float], float, [float, bool])
    p = ps.pset
    p.addPrimitive(f_add, [float, float], float, name="addF")
    p.addPrimitive(f_lt, [float, float], bool, name="ltF")
    p.addPrimitive(f_not, [bool], bool, name="notB")
    p.addPrimitive(f_ite, [bool, float, float], float, name="iteF")
    p.addPrimitive(f_and, [bool, float], float, name="gate")
    p.addTerminal(0.5, float)
    p.addTerminal(2.0, float)
    return ps


# sets in which some type lacks a terminal or a primitive: the documented IndexError (no tree / no offspring) is the
# expected behaviour there and nowhere else
PARTIAL = ("typedT", "typedN", "typedobj")     # typedobj: float has a terminal but no primitive


def build_typedT():
    # the type bool is provided by terminals only (constants feeding an if-then-else); float has both
    ps = PS("typedT", True, [float], float, [float, bool])
    p = ps.pset
    p.addPrimitive(f_add, [float, float], float, name="addF")
    p.addPrimitive(f_neg, [float], float, name="negF")
    p.addPrimitive(f_ite, [bool, float, float], float, name="iteF")
    p.addTerminal(True, bool, name="true")
    p.addTerminal(False, bool, name="false")
    p.addTerminal(0.5, float)
    return ps


class TN(object):
    pass


class TI(TN):
    pass


def build_typedS():
    # subclass pair Int(Num) with a primitive returning a strict subclass of its argument type (floor: Num -> Int)
    # and slots that accept only the subclass (inc, addi, first argument of pick)
    ps = PS("typedS", True, [TN], TN, [TN, TI])
    p = ps.pset
    p.addPrimitive(f_add, [TN, TN], TN, name="addn")
    p.addPrimitive(f_ite, [TI, TN, TN], TN, name="pick")
    p.addPrimitive(f_id, [TN], TI, name="floor")
    p.addPrimitive(f_id, [TI], TI, name="inc")
    p.addPrimitive(f_add, [TI, TI], TI, name="addi")
    p.addTerminal(0.5, TN, name="half")
    p.addTerminal(2, TI, name="two")
    p.addEphemeralConstant(uniq("EN"), _eph, TI)
    return ps


def build_perm(k):
    """the int/bool/float vocabulary registered in a shuffled ORDER (primitives and terminals interleaved, the
    subtype possibly before the supertype), with varying program inputs"""
    r = random.Random(7919 * (k + 1))
    ins = [[bool], [], [int], [bool, int], [float, bool], [bool, float, int]][k % 6]
    ret = [int, bool, float][k % 3]
    ps = PS("perm%d" % k, True, ins, ret, [int, bool, float])
    p = ps.pset
    items = [("p", f_add, [int, int], int, "addI"), ("p", f_lt, [int, int], bool, "ltI"),
             ("p", f_ite, [bool, int, int], int, "iteI"), ("p", f_not, [bool], bool, "notB"),
             ("p", f_and, [bool, bool], bool, "andB"), ("p", f_id, [int], float, "i2f"),
             ("p", f_mul, [float, float], float, "mulF"), ("p", f_id, [float], int, "f2i"),
             ("p", f_ite, [bool, float, float], float, "iteF"), ("p", f_id, [int], bool, "nz"),
             ("t", 1, int), ("t", True, bool), ("t", False, bool), ("t", 0.5, float), ("t", 3, int),
             ("e", "EI", int), ("e", "EB", bool)]
    r.shuffle(items)
    for it in items:
        if it[0] == "p":
            p.addPrimitive(it[1], it[2], it[3], name=it[4])
        elif it[0] == "t":
            p.addTerminal(it[1], it[2])
        else:
            p.addEphemeralConstant(uniq(it[1]), _eph if it[2] is int else _eph2, it[2])
    return ps


BUILDERS = {"loose1": build_loose1, "loose0": build_loose0, "loose2": build_loose2, "unary": build_loose_unary,
            "typed1": build_typed1, "typed1f": lambda: build_typed1(float), "typed1b": lambda: build_typed1(bool),
            "typed2": build_typed2, "typed3": build_typed3, "typedobj": build_typedobj, "typedT": build_typedT,
            "typedS": build_typedS, "typedN": build_typedN, "typedH": build_typedH}
for _k in range(6):
    BUILDERS["perm%d" % _k] = (lambda k: (lambda: build_perm(k)))(_k)
PSNAMES = sorted(BUILDERS)
_cache = {}


def assert_unique_names(pset):
    """the quantifier: "Primitives are required to have a unique name" (gp.py) — a set in which one name carries two
    Primitive objects (the same function registered twice with two signatures) is outside; no operator stream may use one"""
    seen = {}
    for lst in pset.primitives.values():
        for q in lst:
            if seen.setdefault(q.name, q) is not q:
                raise AssertionError("generator bug: two primitives named %r in one set (outside the quantifier)" % q.name)
    return pset


def get_ps(name):
    if name not in _cache:
        _cache[name] = BUILDERS[name]()
        assert_unique_names(_cache[name].pset)
    return _cache[name]


# ----------------------------------------------------------------------------------------------
# sets for the geometric semantic operators (they need 'lf', 'mul', 'add', 'sub' in pset.mapping)
# ----------------------------------------------------------------------------------------------

def f_lf(x):
    import math
    return 1 / (1 + math.exp(-x))


def build_gs(name, nargs, extra=(), miss=None, eph=True):
    ps = PS(name, False, nargs, None, [])
    p = ps.pset
    items = [("sub", f_sub, 2), ("lf", f_lf, 1), ("add", f_add, 2), ("mul", f_mul, 2)] + list(extra)
    for nm, f, ar in items:
        if nm != miss:
            p.addPrimitive(f, ar, name=nm)
    p.addTerminal(3)
    if nargs == 0:
        p.addTerminal(-1)
    if eph:
        p.addEphemeralConstant(uniq("G"), _eph)
    return ps


def build_gsT():
    # a strongly typed GSGP set over float: the operators create constants declared `object` (model only, no oracle)
    ps = PS("gsT", True, [float], float, [float])
    p = ps.pset
    p.addPrimitive(f_sub, [float, float], float, name="sub")
    p.addPrimitive(f_lf, [float], float, name="lf")
    p.addPrimitive(f_add, [float, float], float, name="add")
    p.addPrimitive(f_mul, [float, float], float, name="mul")
    p.addTerminal(0.5, float)
    return ps


GS_BUILDERS = {"gs1": lambda: build_gs("gs1", 1), "gs2": lambda: build_gs("gs2", 2, [("neg", f_neg, 1), ("max3", f_max3, 3)]),
               "gs0": lambda: build_gs("gs0", 0, eph=False), "gs3": lambda: build_gs("gs3", 1, [("ite", f_ite, 3)]),
               "gsT": build_gsT,
               "gsm_lf": lambda: build_gs("gsm_lf", 1, miss="lf"), "gsm_mul": lambda: build_gs("gsm_mul", 1, miss="mul"),
               "gsm_add": lambda: build_gs("gsm_add", 1, miss="add"), "gsm_sub": lambda: build_gs("gsm_sub", 1, miss="sub")}
GS_OK = ["gs1", "gs2", "gs0", "gs3"]
GS_MISS = ["gsm_lf", "gsm_mul", "gsm_add", "gsm_sub"]


def get_gs(name):
    if name not in _cache:
        _cache[name] = GS_BUILDERS[name]()
        assert_unique_names(_cache[name].pset)
    return _cache[name]


def fbits_int(x):
    import struct
    return struct.unpack("<Q", struct.pack("<d", x))[0]


def sem_node_tok(ps, n, own):
    """like PS.node_tok, but a float constant the OPERATOR created (a plain Terminal that is no node of the set) travels as
    `F<bits>` - name and text: Python's repr of a double is not modelled"""
    if type(n) is gp.Terminal and isinstance(n.value, float) and id(n) not in own:
        t = "F%d" % fbits_int(n.value)
        return "%s:%d::t:%s" % (t, ps.tid(n.ret), t)
    return ps.node_tok(n)


def sem_nodes_tok(ps, l, own):
    return ",".join(sem_node_tok(ps, n, own) for n in l) if len(l) else "-"


def own_ids(ps):
    out = set()
    for d in (ps.pset.primitives, ps.pset.terminals):
        for l in d.values():
            out.update(id(x) for x in l)
    out.update(id(x) for x in ps.pset.mapping.values())
    return out


def semmap_tok(ps):
    m = ps.pset.mapping
    out = ["%s=%s" % (k, ps.node_tok(m[k])) for k in ("lf", "mul", "add", "sub") if k in m]
    return ";".join(out) if out else "-"


def eval_sem(ps, d):
    """mutSemantic / cxSemantic on trees from the real generators, the random trees generated by the real generators on the
    recorded tape; the whole call is replayed by the model.  Oracle (loosely typed GSGP sets only): the offspring are
    complete, well-typed expressions."""
    k = d["k"]
    trees = [make_tree(ps, g, retry=50)[0] for g in d["t"]]
    slot = ps.types[d["t"][0]["ty"]]
    for tree in trees:
        msg = well_formed(tree, slot)
        if msg:
            return Case(d, [], [], "generated expression: " + msg, tag=k)
    own = own_ids(ps)
    btok = [ps.nodes_tok(t) for t in trees]
    before = [list(t) for t in trees]
    gm = d["gm"]
    kw = dict(gen_func=GEN[gm["mode"]], pset=ps.pset, min=gm["mn"], max=gm["mx"])
    out, raised = None, None
    with MyTape(rng=random.Random(d["seed"])) as tp:
        try:
            if k == "msem":
                if d.get("ms") is not None:
                    kw["ms"] = d["ms"]
                out = list(gp.mutSemantic(trees[0], **kw))
            else:
                out = list(gp.cxSemantic(trees[0], trees[1], **kw))
        except (AssertionError, KeyError) as e:
            raised = e
    if k == "msem":
        line = "C11 msem %s %s %s %s %d %d %s %s" % (semmap_tok(ps), btok[0], ps.tokens(), gm["mode"], gm["mn"], gm["mx"],
                                                     "none" if d.get("ms") is None else fbits(d["ms"]), tape_tok(ps, tp))
    else:
        line = "C11 cxsem %s %s %s %s %s %d %d %s" % (semmap_tok(ps), btok[0], btok[1], ps.tokens(), gm["mode"], gm["mn"],
                                                      gm["mx"], tape_tok(ps, tp))
    missing = [n for n in ("lf", "mul", "add", "sub") if n not in ps.pset.mapping]
    if raised is not None:
        # only where the set lacks one of the four names (the documented assertion); elsewhere an exception is a failure
        orc = None if missing else "%s raised %s: %s" % (k, type(raised).__name__, raised)
        return Case(d, [line], ["none"], orc, tag="%s/%s/raises" % (k, d["ps"]), nontrivial=False)
    expect = "%s 0" % " ".join(sem_nodes_tok(ps, o, own) for o in out)
    orc = None
    if len(out) != len(trees):
        orc = "%s returned %d trees for %d" % (k, len(out), len(trees))
    if orc is None and d["ps"] in GS_OK:
        for o in out:
            if not isinstance(o, gp.PrimitiveTree):
                orc = orc or "%s returned a %s instead of a tree" % (k, type(o).__name__)
                continue
            msg = well_formed(o, slot)
            if msg:
                orc = orc or "%s output: %s" % (k, msg)
    lines, exp = [line], [expect]
    if orc is None and d.get("observe") and d["ps"] in GS_OK and len(out[0]) <= 60:
        # the read-only methods on the offspring (spans at every index, height, root)
        nodes = sem_nodes_tok(ps, out[0], own)
        o0 = out[0]
        t = parse_all(list(o0))
        sp = spans(t)
        n = len(o0)
        got = [span_of(o0, i) for i in range(-n, n)]
        lines.append("C11 spans %s" % nodes)
        exp.append("%s %d" % (",".join("none" if s_ is None else "%s:%s" % s_ for s_ in got), o0.height))
        for i, s_ in zip(range(-n, n), got):
            orc = orc or span_oracle(o0, i, s_, sp)
        if orc is None and o0.height != t_height(t):
            orc = "height %d but the deepest node is at depth %d" % (o0.height, t_height(t))
    tag = "%s/%s/%s/%s" % (k, d["ps"], gm["mode"], "ms" if d.get("ms") is not None else "draw")
    return Case(d, lines, exp, orc, tag=tag, nontrivial=True)


# ----------------------------------------------------------------------------------------------
# declaration histories of PrimitiveSetTyped / PrimitiveSet
# ----------------------------------------------------------------------------------------------

DTYPES = [object, TA, TB, TC, int, bool]          # TB is a subclass of TA, bool of int
DFUNS = [f_add, f_sub, f_mul, f_neg, f_ite, f_lt, f_not, f_and, f_id, f_max3]
DEPHS = [_eph, _eph2]


def _named_const():
    return 7


def decl_node_tok(n, objid):
    tid = DTYPES.index
    if isinstance(n, gp.Primitive):
        return "%s:%d:%s:p:" % (n.name, tid(n.ret), ".".join(str(tid(a)) for a in n.args))
    if type(n) is gp.MetaEphemeral:
        return "%s:%d::e:fn%d" % (n.name, tid(n.ret), objid(n.func))
    return "%s:%d::t:%s" % (n.name, tid(n.ret), n.format())


def tval_tok(v):
    if isinstance(v, bool):
        return "b1" if v else "b0"
    if isinstance(v, int):
        return "i%d" % v
    if isinstance(v, float):
        return "f%d" % fbits_int(v)
    return "o"


def eval_decls(d):
    """one history from the constructor on, against the real class; it ends at the first declaration that raises"""
    ids = {}

    def objid(o):
        # identities of the Python objects bound in `context` / the generating functions of ephemerals
        key = id(o) if not isinstance(o, (int, float, bool, str)) else ("v", type(o).__name__, repr(o))
        if key not in ids:
            ids[key] = len(ids) + 1
        return ids[key]
    tid = DTYPES.index
    untyped = d["untyped"]
    pre = d.get("prefix", "ARG")
    if untyped:
        pset = gp.PrimitiveSet("MAIN", d["ins"], pre)
        ins_tok = str(d["ins"])
    else:
        pset = gp.PrimitiveSetTyped("MAIN", [DTYPES[i] for i in d["ins"]], DTYPES[d["ret"]], pre)
        ins_tok = ".".join(map(str, d["ins"]))
    toks, failed = [], False
    with warnings.catch_warnings():
        warnings.simplefilter("ignore")
        for op in d["ops"]:
            k = op[0]
            try:
                if k == "P":
                    _, name, fi, args, ret = op
                    toks.append("P|%s|%d|%s|%d" % (name, objid(DFUNS[fi]), ".".join(map(str, args)), ret))
                    pset.addPrimitive(DFUNS[fi], [DTYPES[a] for a in args], DTYPES[ret], name=name)
                elif k == "p":
                    _, name, fi, arity = op
                    toks.append("p|%s|%d|%d" % (name, objid(DFUNS[fi]), arity))
                    pset.addPrimitive(DFUNS[fi], arity, name=name)
                elif k in ("T", "t"):
                    name, val = op[1], op[2]
                    if val == "<fn>":              # a callable terminal without a name takes its __name__
                        val = _named_const
                        eff = name if name is not None else val.__name__
                        tv, st, rp = "o", "fn", "fn"
                    else:
                        eff, tv, st, rp = name, tval_tok(val), str(val), repr(val)
                    head = "%s|%s|%d|%s|%s|%s" % (k, "~" if eff is None else eff, objid(val), tv, st, rp)
                    if k == "T":
                        toks.append(head + "|%d" % op[3])
                        pset.addTerminal(val, DTYPES[op[3]], name=name)
                    else:
                        toks.append(head)
                        pset.addTerminal(val, name=name)
                elif k == "E":
                    _, name, fi, ret = op
                    toks.append("E|%s|%d|%d" % (name, objid(DEPHS[fi]), ret))
                    pset.addEphemeralConstant(name, DEPHS[fi], DTYPES[ret])
                elif k == "e":
                    _, name, fi = op
                    toks.append("e|%s|%d" % (name, objid(DEPHS[fi])))
                    pset.addEphemeralConstant(name, DEPHS[fi])
                elif k == "A":
                    _, name, ins, ret = op
                    toks.append("A|%s|%s|%d" % (name, ".".join(map(str, ins)), ret))
                    pset.addADF(gp.PrimitiveSetTyped(name, [DTYPES[a] for a in ins], DTYPES[ret]))
                elif k == "R":
                    toks.append("R|%s" % (",".join("%s>%s" % tuple(kv) for kv in op[1]) if op[1] else "-"))
                    pset.renameArguments(**dict(op[1]))
                elif k == "rP":
                    toks.append("rP|%d" % op[1])
                    pset.primitives[DTYPES[op[1]]]
                elif k == "rT":
                    toks.append("rT|%d" % op[1])
                    pset.terminals[DTYPES[op[1]]]
                else:
                    raise ValueError(k)
            except (AssertionError, KeyError, AttributeError) as e:
                failed = type(e).__name__
                break
            except Exception as e:  # noqa  (the two `raise Exception(...)` of addEphemeralConstant)
                if type(e) is not Exception:
                    raise
                failed = "Exception"
                break
    n = len(DTYPES)
    sub = ",".join("%d.%d" % (a, b) for a in range(n) for b in range(n) if issubclass(DTYPES[a], DTYPES[b]))
    line = "C11 decls %s %d %s %s %s" % (sub, 1 if untyped else 0, ins_tok if ins_tok != "" else "", pre if pre else "~",
                                         ";".join(toks) if toks else "-")
    if not untyped and not d["ins"]:
        line = "C11 decls %s 0 - %s %s" % (sub, pre if pre else "~", ";".join(toks) if toks else "-")
    if failed:
        return Case(d, [line], ["none"], None, tag="decls/%s/raises-%s" % ("untyped" if untyped else "typed", failed),
                    nontrivial=True)

    def pool(dd):
        return ";".join("%d=%s" % (tid(t), ",".join(decl_node_tok(x, objid) for x in l)) for t, l in dd.items()) if dd else "-"
    mp = ";".join("%s=%s" % (kk, decl_node_tok(v, objid)) for kk, v in pset.mapping.items()) if pset.mapping else "-"
    ctx = [(kk, v) for kk, v in pset.context.items() if kk != "__builtins__"]
    ctxt = ",".join("%s=%d" % (kk, objid(v)) for kk, v in ctx) if ctx else "-"
    try:
        ratio = fbits(pset.terminalRatio)
    except ZeroDivisionError:
        ratio = "none"
    exp = "%s %s %s %s %s %d %d %s" % (pool(pset.primitives), pool(pset.terminals), mp, ctxt,
                                       ",".join(pset.arguments) if pset.arguments else "-", pset.terms_count,
                                       pset.prims_count, ratio)
    reads = any(op[0] in ("rP", "rT") for op in d["ops"])
    return Case(d, [line], [exp], None, tag="decls/%s/%s%s" % ("untyped" if untyped else "typed", len(d["ops"]),
                                                               "/reads" if reads else ""), nontrivial=len(d["ops"]) > 0)


def decls_desc(rng, untyped):
    """a random history: the same vocabulary in a random order, with deliberate clashes now and then"""
    if untyped:
        d = {"k": "decls", "untyped": True, "ins": rng.choice([0, 1, 2, 3]), "ops": []}
    else:
        d = {"k": "decls", "untyped": False, "ins": [rng.randrange(1, 6) for _ in range(rng.choice([0, 1, 2, 2]))],
             "ret": rng.randrange(0, 6), "ops": []}
    if rng.random() < 0.2:
        d["prefix"] = rng.choice(["IN", "x", "A_"])
    pre = d.get("prefix", "ARG")
    nargs = d["ins"] if untyped else len(d["ins"])
    names = ["f", "g", "h", "k", "m", "add", "lf"]
    tnames = ["one", "pi", "b1", "c"]
    enames = ["E", "R"]
    ops = []
    ty = lambda: rng.randrange(1, 6) if rng.random() < 0.85 else 0
    for _ in range(rng.randint(2, 9)):
        r = rng.random()
        if r < 0.38:
            name = rng.choice(names)
            if untyped:
                ops.append(["p", name, rng.randrange(len(DFUNS)), rng.choice([1, 1, 2, 2, 3, 0])])
            else:
                ops.append(["P", name, rng.randrange(len(DFUNS)), [ty() for _ in range(rng.choice([1, 2, 2, 3]))], ty()])
        elif r < 0.68:
            name = rng.choice(tnames + [None, None, None])
            val = rng.choice([1, 0, -1, 2, 0.5, 1.0, True, False, "ab", "<fn>", 7])
            if rng.random() < 0.05:
                name = rng.choice(names)                     # clashes with a primitive's name
            ops.append(["t", name, val] if untyped else ["T", name, val, ty()])
        elif r < 0.82:
            name = rng.choice(enames + ([rng.choice(names)] if rng.random() < 0.1 else []))
            ops.append(["e", name, rng.randrange(2)] if untyped else ["E", name, rng.randrange(2), ty()])
        elif r < 0.88 and not untyped:
            ops.append(["A", rng.choice(["ADF0", "ADF1"]), [ty() for _ in range(rng.choice([0, 1, 2]))], ty()])
        elif r < 0.95 and nargs:
            olds = ["%s%d" % (pre, i) for i in range(nargs)]
            news = rng.sample(["x", "y", "z"] + olds, min(len(olds), rng.randint(1, 2)))
            ops.append(["R", [[o, n] for o, n in zip(rng.sample(olds, len(news)), news)]])
        elif rng.random() < 0.5:
            ops.append([rng.choice(["rP", "rT"]), rng.randrange(0, 6)])
    rng.shuffle(ops)
    d["ops"] = ops
    return d


# ----------------------------------------------------------------------------------------------
# tape -> protocol
# ----------------------------------------------------------------------------------------------

def tape_tok(ps, tp):
    out = []
    for j, d in enumerate(tp.draws):
        k = d[0]
        if k == "random":
            out.append("r" + fbits(d[1])[2:])
        elif k == "randint":
            out.append("i%d.%d.%d" % (d[1], d[2], d[3]))
        elif k == "randrange":
            a = d[1]
            lo, hi = (0, a[0]) if len(a) == 1 else (a[0], a[1])
            out.append("g%d.%d.%d" % (lo, hi, d[2]))
        elif k == "uniform":
            # random.uniform(a, b) = a + (b - a) * random(): the model reads ONE `rnd` draw and computes 0 + (2 - 0) * x;
            # another range is not what mutSemantic asks for: an unreadable token (the model answers bad-op)
            if (d[1], d[2]) == (0, 2):
                out.append("r" + fbits(d[3] / 2.0)[2:])
            else:
                out.append("u%r.%r" % (d[1], d[2]))
        elif k == "choice":
            # also `random.choice(common_types)` of the crossovers: the list is in order of first occurrence in
            # ind1 (no longer a set of classes), so the plain index is reproducible and the model checks the order
            out.append("c%d.%d" % (d[1], d[2]))
        else:
            raise ValueError("unexpected draw %r" % (d,))
    return ",".join(out) if out else "-"


# ----------------------------------------------------------------------------------------------
# the independent oracle (written from the statement)
# ----------------------------------------------------------------------------------------------

class Bad(Exception):
    pass


def parse(nodes, i=0):
    """recursive-descent parse of a prefix list -> (tree, next index); tree = (node, [children], begin, end)"""
    if i >= len(nodes):
        raise Bad("incomplete: argument missing at position %d" % i)
    n = nodes[i]
    j = i + 1
    kids = []
    for _ in range(n.arity):
        t, j = parse(nodes, j)
        kids.append(t)
    return (n, kids, i, j), j


def parse_all(nodes):
    if len(nodes) == 0:
        raise Bad("empty tree")
    t, j = parse(nodes, 0)
    if j != len(nodes):
        raise Bad("not a single complete expression: %d orphan nodes" % (len(nodes) - j))
    return t


def check_types(t, slot):
    n, kids, b, _ = t
    if not issubclass(n.ret, slot):
        raise Bad("node %d (%s) returns %s, not accepted by slot %s%s" % (
            b, n.name, n.ret.__name__, slot.__name__, " (a different type of the same name)" if n.ret.__name__ == slot.__name__ else ""))
    if n.arity:
        if len(n.args) != len(kids):
            raise Bad("arity mismatch")
        for a, k in zip(n.args, kids):
            check_types(k, a)


def t_height(t):
    return 0 if not t[1] else 1 + max(t_height(k) for k in t[1])


def leaf_depths(t, d=0):
    if not t[1]:
        return [d]
    return [x for k in t[1] for x in leaf_depths(k, d + 1)]


def spans(t, acc=None):
    acc = {} if acc is None else acc
    acc[t[2]] = t[3]
    for k in t[1]:
        spans(k, acc)
    return acc


def well_formed(nodes, slot):
    """None or the message of the violated clause"""
    try:
        t = parse_all(list(nodes))
        check_types(t, slot)
    except Bad as e:
        return str(e)
    except RecursionError:
        return "parse recursion"
    return None


# ----------------------------------------------------------------------------------------------
# building trees with the real generators
# ----------------------------------------------------------------------------------------------

def _ramped(*a, **k):
    # the deprecated name of genHalfAndHalf (it warns, then calls it)
    with warnings.catch_warnings():
        warnings.simplefilter("ignore")
        return gp.genRamped(*a, **k)


GEN = {"full": gp.genFull, "grow": gp.genGrow, "half": gp.genHalfAndHalf, "ramped": _ramped}


def documented(e):
    """generate's documented IndexError: the requested type has no primitive / terminal"""
    return isinstance(e, IndexError) and "The gp.generate function tried to add" in str(e)


def make_tree(ps, g, retry=0):
    """g = {mode, mn, mx, ty, seed}; returns (PrimitiveTree, tape); the tree is None when generate raised its
    documented IndexError (retry > 0: try the following seeds instead)"""
    for j in range(retry + 1):
        with MyTape(rng=random.Random(g["seed"] + j)) as tp:
            try:
                if g.get("noty") and g["ty"] == ps.tid(ps.pset.ret):        # the default `type_=None` (= pset.ret)
                    expr = GEN[g["mode"]](ps.pset, g["mn"], g["mx"])
                else:
                    expr = GEN[g["mode"]](ps.pset, g["mn"], g["mx"], ps.types[g["ty"]])
            except IndexError as e:
                if not (documented(e) and ps.name in PARTIAL):
                    raise
                expr = None
        if expr is not None:
            return gp.PrimitiveTree(expr), tp
    if retry and (g["mode"], g["mn"]) != ("grow", 0):
        # a set where some type has terminals only cannot produce every shape: fall back to a small grown tree
        return make_tree(ps, dict(g, mode="grow", mn=0, mx=min(g["mx"], 2)), retry)
    return None, tp


def gen_line(ps, g, tp):
    return "C11 gen %s %s %d %d %d %s" % (ps.tokens(), g["mode"], g["mn"], g["mx"], g["ty"], tape_tok(ps, tp))


def gen_oracle(ps, g, tree, tp):
    slot = ps.types[g["ty"]]
    msg = well_formed(tree, slot)
    if msg:
        return "generated expression: " + msg
    t = parse_all(list(tree))
    ld = leaf_depths(t)
    h = t_height(t)
    mn, mx = g["mn"], g["mx"]
    if not (mn <= h <= mx):
        return "generated height %d not in [%d,%d]" % (h, mn, mx)
    # half-and-half promises what grow promises (a full tree satisfies it too); which of the two generators ran is
    # compared with the model, not demanded here
    if g["mode"] == "full" and len(set(ld)) != 1:
        return "full: leaves at different depths %s" % sorted(set(ld))
    if min(ld) < mn:
        return "a leaf at depth %d is shallower than the minimum %d" % (min(ld), mn)
    return None


# ----------------------------------------------------------------------------------------------
# evaluate
# ----------------------------------------------------------------------------------------------

def span_of(tree, i):
    """searchSubtree(i) as `start:stop` (`none` for the IndexError of an index that is not a node's)"""
    try:
        s = tree.searchSubtree(i)
    except IndexError:
        return None
    return (s.start, s.stop)


def span_oracle(tree, i, s, sp):
    """the statement for one index -len <= i < len: the returned slice selects exactly the nodes of the subtree rooted
    at the node `tree[i]` (read as Python reads a slice: `slice.indices`; whether a negative index comes back as a
    negative or as a normalised start is not demanded)"""
    n = len(tree)
    j = i % n
    if s is None:
        return "searchSubtree(%d) raised IndexError although %d is the index of a node" % (i, i)
    try:
        norm = slice(s[0], s[1]).indices(n)
    except TypeError:
        return "searchSubtree(%d) returned slice(%r, %r)" % (i, s[0], s[1])
    if norm != (j, sp[j], 1):
        return "searchSubtree(%d) = [%s,%s) but the subtree rooted there spans [%d,%d)" % (i, s[0], s[1], j, sp[j])
    return None


def observe_lines(ps, tree, limit=40, rnd=None, some=None):
    """searchSubtree at every Python index -len <= i < len (a sample of them above `limit` nodes, or `some` of them),
    height, root: protocol lines + the oracle for the observers"""
    lines, expect, orc = [], [], None
    nodes = ps.nodes_tok(tree)
    try:
        t = parse_all(list(tree))
    except Bad as e:
        return [], [], "observer input: %s" % e
    sp = spans(t)
    n = len(tree)
    idx = list(range(-n, n))
    if some is not None:
        idx = sorted(set(some))
    elif n > limit:
        idx = sorted(set((rnd or random.Random(n)).sample(idx, limit - 4) + [0, n - 1, -1, -n]))
    if len(idx) == 2 * n:
        # every index in one line (which also carries the height)
        got = [span_of(tree, i) for i in idx]
        h = tree.height
        lines.append("C11 spans %s" % nodes)
        expect.append("%s %d" % (",".join("none" if s is None else "%s:%s" % s for s in got), h))
        for i, s in zip(idx, got):
            orc = orc or span_oracle(tree, i, s, sp)
    else:
        for i in idx:
            s = span_of(tree, i)
            lines.append("C11 search %s %d" % (nodes, i))
            expect.append("none" if s is None else "%s %s" % s)
            orc = orc or span_oracle(tree, i, s, sp)
        h = tree.height
        lines.append("C11 height %s" % nodes)
        expect.append(str(h))
    if h != t_height(t) and orc is None:
        orc = "height %d but the deepest node is at depth %d" % (h, t_height(t))
    lines.append("C11 root %s" % nodes)
    expect.append(ps.node_tok(tree.root))
    if tree.root is not tree[0] and orc is None:
        orc = "root is not element 0"
    return lines, expect, orc


def key_fn(name):
    return len if name == "len" else operator.attrgetter("height")


def op_call(ps, k, d, trees, btok):
    """the operator `k` with the parameters of `d` on the tree objects `trees`: (function, protocol tokens without the
    tape, how it is called given the possibly decorated function)"""
    if k == "cx":
        fn, optoks = gp.cxOnePoint, "cx %s %s" % tuple(btok)
        call = (lambda f: f(trees[0], ind2=trees[1])) if d.get("kw2") else (lambda f: f(trees[0], trees[1]))
    elif k == "cxlb":
        fn, optoks = gp.cxOnePointLeafBiased, "cxlb %s %s %s" % (btok[0], btok[1], fbits(d["termpb"]))
        if d.get("kw2"):        # the second parent by keyword: mate(ind1, ind2=ind2, termpb=...)
            call = lambda f: f(trees[0], ind2=trees[1], termpb=d["termpb"])
        else:
            call = (lambda f: f(trees[0], trees[1], d["termpb"])) if d.get("pos") else \
                (lambda f: f(trees[0], trees[1], termpb=d["termpb"]))
    elif k == "mutu":
        expr = functools.partial(GEN[d["emode"]], min_=d["emn"], max_=d["emx"])
        fn, optoks = gp.mutUniform, "mutu %s %s %s %d %d" % (ps.tokens(), btok[0], d["emode"], d["emn"], d["emx"])
        call = (lambda f: f(trees[0], expr, ps.pset)) if d.get("pos") else (lambda f: f(trees[0], expr=expr, pset=ps.pset))
    elif k == "mutn":
        fn, optoks = gp.mutNodeReplacement, "mutn %s %s" % (ps.tokens(), btok[0])
        call = (lambda f: f(trees[0], ps.pset)) if d.get("pos") else (lambda f: f(trees[0], pset=ps.pset))
    elif k == "mute":
        fn, optoks = gp.mutEphemeral, "mute %s %s" % (btok[0], d["mode"])
        call = (lambda f: f(trees[0], d["mode"])) if d.get("pos") else (lambda f: f(trees[0], mode=d["mode"]))
    elif k == "muti":
        fn, optoks = gp.mutInsert, "muti %s %s" % (ps.tokens(), btok[0])
        call = (lambda f: f(trees[0], ps.pset)) if d.get("pos") else (lambda f: f(trees[0], pset=ps.pset))
    elif k == "muts":
        fn, optoks = gp.mutShrink, "muts %s" % btok[0]
        call = lambda f: f(trees[0])
    else:
        raise ValueError(k)
    return fn, optoks, call


# ----------------------------------------------------------------------------------------------
# searchSubtree at every Python index
# ----------------------------------------------------------------------------------------------

def eval_search(ps, d):
    """every int index a caller can pass: -len <= i < len are the indices of the nodes (oracle: the span of the subtree
    rooted at tree[i]); outside, the model follows the code (IndexError, or below -len the walk that wraps around)"""
    tree, _ = make_tree(ps, d["t"], retry=200)
    msg = well_formed(tree, ps.types[d["t"]["ty"]])
    if msg:
        return Case(d, [], [], "generated expression: " + msg, tag="search")
    n = len(tree)
    nodes = ps.nodes_tok(tree)
    sp = spans(parse_all(list(tree)))
    lines, expect, orc = [], [], None
    r = random.Random(d["seed"])
    inside = list(range(-n, n))
    if len(inside) > 24:
        inside = sorted(set(r.sample(inside, 20) + [-n, -1, 0, n - 1]))
    outside = sorted(set([n, n + 1, -n - 1, -2 * n, -2 * n - 1, r.randrange(-2 * n - 2, -n), r.randrange(n, 2 * n + 2)]))
    for i in inside + outside:
        s = span_of(tree, i)
        lines.append("C11 search %s %d" % (nodes, i))
        expect.append("none" if s is None else "%s %s" % s)
        if -n <= i < n:
            orc = orc or span_oracle(tree, i, s, sp)
    return Case(d, lines, expect, orc, tag="search/%s" % d["ps"], nontrivial=n > 1)


# ----------------------------------------------------------------------------------------------
# histories: chains of operators on the same tree objects
# ----------------------------------------------------------------------------------------------

UNPICKLABLE = ("typedH",)      # its two homonymous types cannot be found by name: a pickle step is a deepcopy there
CHAIN_CAP = 150        # a chain ends when a tree outgrows this many nodes (the protocol lines carry whole trees)


def step_tok(st, lim_tok):
    k = st["op"]
    if k == "cx":
        body = "cx|%d|%d" % (st["i"], st["j"])
    elif k == "cxlb":
        body = "cxlb|%d|%d|%s" % (st["i"], st["j"], fbits(st["termpb"]))
    elif k == "mutu":
        body = "mutu|%d|%s|%d|%d" % (st["i"], st["emode"], st["emn"], st["emx"])
    elif k == "mute":
        body = "mute|%d|%s" % (st["i"], st["mode"])
    else:
        body = "%s|%d" % (k, st["i"])
    return (lim_tok + "|" + body) if lim_tok else body


def look(ps, tree, how, rnd):
    """read-only calls on a tree of the history: searchSubtree (every index / some of them), height, str"""
    if how == "none":
        return [], [], None
    some = None
    if how == "some":
        n = len(tree)
        some = rnd.sample(range(-n, n), min(2 * n, rnd.randint(1, 4)))
    l, e, orc = observe_lines(ps, tree, limit=10 ** 9, some=some)
    if orc is None:
        str(tree)
    return l, e, orc


def eval_seq(ps, d):
    trees = [make_tree(ps, g, retry=200)[0] for g in d["t"]]
    slot = ps.types[d["t"][0]["ty"]]
    for tree in trees:
        msg = well_formed(tree, slot)
        if msg:
            return Case(d, [], [], "generated expression: " + msg, tag="seq")
    lines, expect, orc = [], [], None
    init = [ps.nodes_tok(t) for t in trees]
    hsteps, htape = [], []
    lim = d.get("lim")
    key = maxv = None
    if lim:
        key = key_fn(lim["key"])
        maxv = max(0, max(key(t) for t in trees) + lim["delta"])
    changed = False
    ended = ""
    nops = 0

    def fail(n, st, msg):
        what = st.get("op", st["a"])
        return "history step %d (%s%s): %s" % (n, what, " under staticLimit" if st.get("lim") else "", msg)

    def flush():
        """the operators since the last flush, replayed as ONE history by the model (`runHistory`)"""
        if hsteps:
            lines.append(" ".join(["C11 hist", ps.tokens(), str(len(init))] + init + [str(len(hsteps))] + hsteps +
                                  [",".join(htape) if htape else "-"]))
            expect.append("%s 0" % " ".join(ps.nodes_tok(t) for t in trees))
        init[:] = [ps.nodes_tok(t) for t in trees]
        del hsteps[:], htape[:]

    for n, st in enumerate(d["steps"]):
        a = st["a"]
        rnd = random.Random(st["seed"])
        if a == "copy":
            # toolbox.clone of one object into another place of the population: both stay in use
            flush()
            src = trees[st["i"]]
            if st.get("via") == "pickle" and ps.name not in UNPICKLABLE:
                trees[st["j"]] = pickle.loads(pickle.dumps(src, st.get("proto", 2)))
            else:
                trees[st["j"]] = copy.deepcopy(src)
            init[:] = [ps.nodes_tok(t) for t in trees]
        elif a == "look":
            l2, e2, o2 = look(ps, trees[st["i"]], st["how"], rnd)
            lines += l2
            expect += e2
            if o2:
                orc = fail(n, st, o2)
        elif a == "clone":
            trees[st["i"]] = copy.deepcopy(trees[st["i"]])
        elif a == "pickle":
            if ps.name in UNPICKLABLE:
                trees[st["i"]] = copy.deepcopy(trees[st["i"]])
            else:
                trees[st["i"]] = pickle.loads(pickle.dumps(trees[st["i"]], st.get("proto", 2)))
        else:
            k = st["op"]
            pos = [st["i"], st["j"]] if k in ("cx", "cxlb") else [st["i"]]
            args = [trees[i] for i in pos]
            before = [list(t) for t in args]
            fn, optoks, call = op_call(ps, k, st, args, [ps.nodes_tok(t) for t in args])
            lim_tok = None
            if st.get("lim"):
                fn = gp.staticLimit(key=key, max_value=maxv)(fn)
                npos = 1 if st.get("kw2") else len(args)
                optoks = "slim %s %d %d %s" % (lim["key"], maxv, npos, optoks)
                lim_tok = "slim|%s|%d|%d" % (lim["key"], maxv, npos)
            with MyTape(rng=rnd) as tp:
                try:
                    out = list(call(fn))
                except IndexError:
                    # a type without terminal / primitive (generate's documented IndexError inside mutUniform,
                    # random.choice([]) of the terminal pool inside mutInsert): no offspring, the history ends here
                    if ps.name not in PARTIAL or k not in ("mutu", "muti"):
                        raise
                    out = None
            if out is None:
                lines.append("C11 %s %s" % (optoks, tape_tok(ps, tp)))
                expect.append("none")
                ended = "/raises"
                break
            nops += 1
            if len(out) != len(args):
                orc = fail(n, st, "operator returned %d trees for %d" % (len(out), len(args)))
                break
            for o in out:
                if not isinstance(o, gp.PrimitiveTree):
                    orc = orc or fail(n, st, "returned a %s instead of a tree" % type(o).__name__)
            if orc:
                break
            lines.append("C11 %s %s" % (optoks, tape_tok(ps, tp)))
            expect.append("%s 0" % " ".join(ps.nodes_tok(o) for o in out))
            hsteps.append(step_tok(st, lim_tok))
            tt = tape_tok(ps, tp)
            if tt != "-":
                htape.append(tt)
            # ---- the statement, after this step ----
            for o in out:
                msg = well_formed(o, slot)
                if msg:
                    orc = orc or fail(n, st, "output: " + msg)
            if orc is None and not st.get("lim"):
                if k in ("cx", "cxlb") and sum(map(len, out)) != sum(map(len, before)):
                    orc = fail(n, st, "crossover changed the total node count %d -> %d" % (sum(map(len, before)), sum(map(len, out))))
                if k == "muts" and len(out[0]) > len(before[0]):
                    orc = fail(n, st, "shrink grew the tree %d -> %d" % (len(before[0]), len(out[0])))
                if k == "muti" and len(out[0]) < len(before[0]):
                    orc = fail(n, st, "insert shrank the tree %d -> %d" % (len(before[0]), len(out[0])))
            if orc is None and st.get("lim") and all(key(gp.PrimitiveTree(b)) <= maxv for b in before):
                for o in out:
                    if key(o) > maxv:
                        orc = orc or fail(n, st, "staticLimit(%s, %d) returned a tree measuring %d although the inputs respected the limit"
                                          % (lim["key"], maxv, key(o)))
            changed = changed or any(list(o) != b for o, b in zip(out, before))
            for i, o in zip(pos, out):
                trees[i] = o
            if orc is None and st.get("how", "all") != "none":
                # the observers on the objects the operator just worked on
                for i in pos:
                    l2, e2, o2 = look(ps, trees[i], st.get("how", "all"), rnd)
                    lines += l2
                    expect += e2
                    if o2:
                        orc = orc or fail(n, st, "afterwards " + o2)
            if max(len(t) for t in trees) > CHAIN_CAP:
                ended = "/cap"
                break
        if orc:
            break
    if orc is None and not ended.startswith("/raises"):
        # the end of the history: every object once more at every index, and the whole history through the model
        for i, t in enumerate(trees):
            msg = well_formed(t, slot)
            if msg:
                orc = orc or "after the history, tree %d: %s" % (i, msg)
        for t in trees:
            if orc:
                break
            l2, e2, o2 = look(ps, t, "all", None)
            lines += l2
            expect += e2
            if o2:
                orc = "after the history: " + o2
        if orc is None:
            flush()
    tag = "seq%s/%s/%dops%s/%s" % ("+lim" if lim and all(st.get("lim") for st in d["steps"] if st["a"] == "op") else
                                    "+somelim" if lim else "", d["ps"], nops, ended, "changed" if changed else "same")
    return Case(d, lines, expect, orc, tag=tag, nontrivial=changed)


def evaluate(d):
    k = d["k"]
    if k == "decls":
        return eval_decls(d)
    if k in ("msem", "cxsem"):
        return eval_sem(get_gs(d["ps"]), d)
    ps = get_ps(d["ps"])
    if k == "gen":
        tree, tp = make_tree(ps, d)
        if tree is None:
            # documented IndexError: no tree is produced; the model stops at the same draw
            return Case(d, [gen_line(ps, d, tp)], ["none"], None, tag="gen/%s/%s/raises" % (d["ps"], d["mode"]),
                        nontrivial=False)
        lines = [gen_line(ps, d, tp)]
        expect = ["%s 0" % ps.nodes_tok(tree)]
        orc = gen_oracle(ps, d, tree, tp)
        lines.append("C11 check %s %d %s" % (ps.sub_tok(), d["ty"], ps.nodes_tok(tree)))
        expect.append("11")
        if orc is None and d.get("observe", True):
            l2, e2, orc = observe_lines(ps, tree, rnd=random.Random(d["seed"]))
            lines += l2
            expect += e2
        t = parse_all(list(tree)) if orc is None else None
        tag = "gen/%s/%s/h=%s" % (d["ps"], d["mode"], t_height(t) if t else "?")
        return Case(d, lines, expect, orc, tag=tag, nontrivial=len(tree) > 1)

    if k == "search":
        return eval_search(ps, d)

    if k == "seq":
        return eval_seq(ps, d)

    if k == "add":
        # the pools as filled by _add vs the model of _add
        order = ps.order
        tys = list(range(len(ps.types)))
        line = "C11 add %s %s %s" % (ps.sub_tok(), ps.nodes_tok(order), ",".join(map(str, tys)))
        p = ps.pset
        exp = ";".join("%d=%s/%s" % (i, ",".join(x.name for x in p.primitives.get(ps.types[i], [])),
                                     ",".join(x.name for x in p.terminals.get(ps.types[i], []))) for i in tys)
        # the statement does not speak about the pools: their content is compared with the model of `_add` only
        return Case(d, [line], [exp], None, tag="add/" + d["ps"])

    if k == "guard":
        tree, _ = make_tree(ps, d["t"], retry=200)
        r = random.Random(d["seed"])
        nodes = ps.nodes_tok(tree)
        lines, expect = [], []
        pool = list(tree) + [x for l in ps.pset.primitives.values() for x in l]
        # slice assignment of an arbitrary node sequence at an arbitrary span
        b = r.randrange(0, len(tree) + 2)
        e = b + r.randrange(0, 4)
        val = [r.choice(pool) for _ in range(r.randrange(0, 5))]
        if r.random() < 0.4 and b < len(tree):
            val = list(tree[tree.searchSubtree(r.randrange(len(tree)))])
        c = copy.deepcopy(tree)
        try:
            c[b:e] = val
            exp = ps.nodes_tok(c)
        except (ValueError, IndexError):
            exp = "none"
        lines.append("C11 setslice %s %d %d %s" % (nodes, b, e, ps.nodes_tok(val)))
        expect.append(exp)
        i = r.randrange(0, len(tree) + 1)
        v = r.choice(pool)
        c = copy.deepcopy(tree)
        try:
            c[i] = v
            exp = ps.nodes_tok(c)
        except (ValueError, IndexError):
            exp = "none"
        lines.append("C11 setitem %s %d %s" % (nodes, i, ps.node_tok(v)))
        expect.append(exp)
        # observers on a possibly incomplete list
        cut = gp.PrimitiveTree(list(tree)[:r.randrange(1, len(tree) + 1)] + [r.choice(pool) for _ in range(r.randrange(0, 3))])
        try:
            exp = str(cut.height)
        except IndexError:
            exp = "none"
        lines.append("C11 height %s" % ps.nodes_tok(cut))
        expect.append(exp)
        j = r.randrange(-len(cut), len(cut))
        sj = span_of(cut, j)
        exp = "none" if sj is None else "%s %s" % sj
        lines.append("C11 search %s %d" % (ps.nodes_tok(cut), j))
        expect.append(exp)
        msg = well_formed(cut, object)
        lines.append("C11 check %s 0 %s" % (ps.sub_tok(), ps.nodes_tok(cut)))
        try:
            parse_all(list(cut))
            comp = "1"
        except Bad:
            comp = "0"
        expect.append(comp + ("1" if msg is None else "0"))
        return Case(d, lines, expect, None, tag="guard/" + d["ps"])

    # ---- operators ---------------------------------------------------------------------------
    trees, lines, expect = [], [], []
    for g in d["t"]:
        tree, tpg = make_tree(ps, g, retry=200)
        trees.append(tree)
    slots = [ps.types[g["ty"]] for g in d["t"]]
    for tree, s in zip(trees, slots):
        msg = well_formed(tree, s)
        if msg:
            return Case(d, [], [], "generated expression: " + msg, tag=k)
    before = [list(t) for t in trees]
    btok = [ps.nodes_tok(t) for t in trees]
    fn, optoks, call = op_call(ps, k, d, trees, btok)
    lim = d.get("lim")
    maxv = None
    if lim:
        key = key_fn(lim["key"])
        maxv = max(key(t) for t in trees) + lim["delta"]
        if maxv < 0:
            maxv = 0
        fn = gp.staticLimit(key=key, max_value=maxv)(fn)
        # how many of the trees are positional: only those are kept as fall-back parents, every child is measured
        npos = 1 if d.get("kw2") else len(trees)
        optoks = "slim %s %d %d %s" % (lim["key"], maxv, npos, optoks)
    with MyTape(rng=random.Random(d["seed"])) as tp:
        try:
            out = list(call(fn))
        except IndexError:
            # only where a type lacks a terminal / primitive (generate's documented IndexError inside mutUniform,
            # random.choice([]) of the terminal pool inside mutInsert): no offspring; the model stops at the same draw
            if ps.name not in PARTIAL or k not in ("mutu", "muti"):
                raise
            out = None
    if out is None:
        return Case(d, ["C11 %s %s" % (optoks, tape_tok(ps, tp))], ["none"], None, tag="%s/%s/raises" % (k, d["ps"]),
                    nontrivial=False)
    for o in out:
        if not isinstance(o, gp.PrimitiveTree):
            return Case(d, [], [], "%s%s returned a %s instead of a tree" % (k, " under staticLimit" if lim else "",
                                                                        type(o).__name__), tag=k + "/nontree")
    lines.append("C11 %s %s" % (optoks, tape_tok(ps, tp)))
    expect.append("%s 0" % " ".join(ps.nodes_tok(o) for o in out))
    # ---- oracle: the statement ----
    orc = None
    if len(out) != len(trees):
        orc = "operator returned %d trees for %d" % (len(out), len(trees))
    for o in out:
        if not isinstance(o, gp.PrimitiveTree) and orc is None:
            orc = "%s returned a %s instead of a tree" % (k, type(o).__name__)
    for o, s, b in zip(out, slots, before):
        if orc is not None:
            break
        msg = well_formed(o, s)
        if msg and orc is None:
            orc = "%s output: %s" % (k, msg)
    if orc is None and not lim:
        if k in ("cx", "cxlb") and sum(map(len, out)) != sum(map(len, before)):
            orc = "crossover changed the total node count %d -> %d" % (sum(map(len, before)), sum(map(len, out)))
        if k == "muts" and len(out[0]) > len(before[0]):
            orc = "shrink grew the tree %d -> %d" % (len(before[0]), len(out[0]))
        if k == "muti" and len(out[0]) < len(before[0]):
            orc = "insert shrank the tree %d -> %d" % (len(before[0]), len(out[0]))
    if orc is None and lim:
        key = key_fn(lim["key"])
        respected = all(key(gp.PrimitiveTree(b)) <= maxv for b in before)
        if respected:
            for o in out:
                if key(o) > maxv:
                    orc = "staticLimit(%s, %d) returned a tree measuring %d although the inputs respected the limit" % (
                        lim["key"], maxv, key(o))
    changed = any(list(o) != b for o, b in zip(out, before))
    if orc is None and d.get("observe"):
        l2, e2, orc = observe_lines(ps, out[0], limit=12, rnd=random.Random(d["seed"]))
        lines += l2
        expect += e2
    tag = "%s%s%s%s/%s/%s" % (k, "+lim" if lim else "", "+pos" if d.get("pos") else "", "+kw2" if d.get("kw2") else "",
                            d["ps"], "changed" if changed else "same")
    if k == "mutu":
        tag += "/" + d["emode"]
    return Case(d, lines, expect, orc, tag=tag, nontrivial=changed)


# ----------------------------------------------------------------------------------------------
# generate
# ----------------------------------------------------------------------------------------------

def rand_tree_desc(rng, ps, small=False):
    mx = rng.choice([0, 1, 2, 2, 3, 3]) if small else rng.choice([0, 1, 2, 2, 3, 3, 3, 4, 4, 4, 5, 6])
    mn = rng.choice([0, rng.randint(0, mx), rng.randint(0, mx), mx])
    mode = rng.choice(["full", "grow", "half"])
    # keep full trees with arity-3 primitives at a size the protocol can carry
    if mode != "grow" and mx > 4 and ps.name not in ("unary",):
        mx = 4
        mn = min(mn, mx)
    g = {"mode": mode, "mn": mn, "mx": mx, "ty": rng.choice(ps.requestable()), "seed": rng.randrange(1 << 30)}
    if g["ty"] == ps.tid(ps.pset.ret) and rng.random() < 0.5:
        g["noty"] = True
    return g


def same_type_desc(rng, ps, g):
    h = rand_tree_desc(rng, ps)
    if rng.random() < 0.8:
        h["ty"] = g["ty"]
    return h


def op_desc(rng, ps, k):
    g = rand_tree_desc(rng, ps)
    if rng.random() < 0.12:
        g["mn"] = g["mx"] = 0                 # single-node tree
    d = {"k": k, "ps": ps.name, "t": [g], "seed": rng.randrange(1 << 30)}
    if k in ("cx", "cxlb"):
        h = same_type_desc(rng, ps, g)
        if rng.random() < 0.08:
            h["mn"] = h["mx"] = 0
        d["t"].append(h)
    if k == "cxlb":
        d["termpb"] = rng.choice([0.0, 0.1, 0.5, 0.9, 1.0, rng.random()])
    if k == "mutu":
        d["emode"] = rng.choice(["full", "grow", "half"])
        d["emx"] = rng.randint(0, 3)
        d["emn"] = rng.randint(0, d["emx"])
    if k == "mute":
        d["mode"] = rng.choice(["one", "all"])
    # the non-tree parameters (termpb, expr, pset, mode) positionally or by keyword
    d["pos"] = rng.random() < 0.5
    if k in ("cx", "cxlb"):
        d["kw2"] = rng.random() < 0.35      # the second parent passed by keyword (ind2=...)
    return d


OPS = ["cx", "cxlb", "mutu", "mutn", "mute", "muti", "muts"]


def seq_desc(rng, ps, limited, sparse):
    """a history: 2-3 trees for one root slot (a population), 3-8 operators on them - every mutation, both crossovers,
    bare or under staticLimit (`limited`: all / some / none of them) - with read-only looks (searchSubtree, height, str),
    deepcopy clones and pickle round trips (in place, or of one object into another place of the population) in between.  `sparse`: after a step only some indices are looked at (or none),
    so that what a tree object may remember from earlier calls differs from chain to chain."""
    npop = rng.choice([2, 2, 3])
    g = rand_tree_desc(rng, ps, small=True)
    if rng.random() < 0.7:
        g["mx"] = max(g["mx"], 2)
    ts = [g]
    for _ in range(npop - 1):
        h = rand_tree_desc(rng, ps, small=True)
        h["ty"] = g["ty"]
        h.pop("noty", None)
        if h["ty"] == ps.tid(ps.pset.ret) and rng.random() < 0.5:
            h["noty"] = True
        ts.append(h)
    d = {"k": "seq", "ps": ps.name, "t": ts, "steps": [], "seed": rng.randrange(1 << 30)}
    if limited != "none":
        d["lim"] = {"key": rng.choice(["len", "height"]), "delta": rng.choice([0, 0, 1, 2, 4])}
    steps = d["steps"]

    def aux():
        r = rng.random()
        i = rng.randrange(npop)
        if r < 0.45:
            steps.append({"a": "look", "i": i, "how": rng.choice(["all", "all", "some"]), "seed": rng.randrange(1 << 30)})
        elif r < 0.60:
            steps.append({"a": "clone", "i": i, "seed": 0})
        elif r < 0.72:
            steps.append({"a": "pickle", "i": i, "proto": rng.choice([0, 2, pickle.HIGHEST_PROTOCOL]), "seed": 0})
        elif r < 0.84:
            j = rng.choice([x for x in range(npop) if x != i])
            steps.append({"a": "copy", "i": i, "j": j, "via": rng.choice(["deepcopy", "deepcopy", "pickle"]),
                          "proto": rng.choice([0, 2, pickle.HIGHEST_PROTOCOL]), "seed": 0})

    if rng.random() < 0.8:
        # somebody looks at the fresh trees first
        for i in range(npop):
            if rng.random() < 0.8:
                steps.append({"a": "look", "i": i, "how": "all" if rng.random() < 0.8 else "some", "seed": rng.randrange(1 << 30)})
    for n in range(rng.randint(3, 8)):
        k = rng.choice(OPS)
        st = op_desc(rng, ps, k)
        del st["t"], st["ps"], st["k"]
        st["a"], st["op"] = "op", k
        st["i"] = rng.randrange(npop)
        if k in ("cx", "cxlb"):
            st["j"] = rng.choice([x for x in range(npop) if x != st["i"]])
        if limited == "all" or (limited == "some" and rng.random() < 0.5):
            st["lim"] = True
        st["how"] = rng.choice(["some", "none", "none", "all"]) if sparse else "all"
        steps.append(st)
        aux()
        if rng.random() < 0.3:
            aux()
    return d


def generate(tier, rng, mult):
    thorough = tier == "thorough"
    for name in PSNAMES:
        yield {"k": "add", "ps": name}
    # geometric semantic operators: every GSGP set x generator x (ms given / drawn), the assertion on incomplete sets
    nsem = (6000 if thorough else 360) * mult
    for i in range(nsem):
        name = (GS_OK + ["gsT"])[i % 5] if i % 12 else GS_MISS[(i // 12) % 4]
        ps = get_gs(name)
        k = "msem" if (i // 12 + i) % 2 == 0 else "cxsem"
        g = rand_tree_desc(rng, ps, small=True)
        g["ty"] = ps.tid(ps.pset.ret)
        d = {"k": k, "ps": name, "t": [g], "seed": rng.randrange(1 << 30),
             "gm": {"mode": rng.choice(["full", "grow", "half"]), "mx": rng.choice([0, 1, 2, 2, 3])}}
        d["gm"]["mn"] = rng.randint(0, d["gm"]["mx"])
        if k == "cxsem":
            h = rand_tree_desc(rng, ps, small=True)
            h["ty"] = g["ty"]
            d["t"].append(h)
        elif rng.random() < 0.5:
            d["ms"] = rng.choice([0.5, 1.0, 0.1, 2.0, 0.0, -1.5, rng.random() * 2])
        d["observe"] = i % 3 == 0
        yield d
    # declaration histories (typed and untyped) in random orders
    for i in range((20000 if thorough else 1200) * mult):
        yield decls_desc(rng, untyped=i % 3 == 2)
    # searchSubtree at every Python index (negative ones count from the end, as the list is indexed)
    for i in range((3000 if thorough else 240) * mult):
        ps = get_ps(PSNAMES[i % len(PSNAMES)])
        yield {"k": "search", "ps": ps.name, "t": rand_tree_desc(rng, ps, small=i % 3 != 0), "seed": rng.randrange(1 << 30)}
    # every min <= max in 0..6, every generator, every set, every requestable type
    nseeds = 3 if thorough else 1
    for name in PSNAMES:
        ps = get_ps(name)
        for mn in range(0, 7):
            for mx in range(mn, 7):
                for mode in ("full", "grow", "half", "ramped"):
                    for ty in ps.requestable():
                        if mode == "ramped" and (mn + 2 * mx) % 3:      # the alias: a third of the (min, max) grid
                            continue
                        if mode != "grow" and mn >= 5 and name != "unary" and not thorough:
                            if rng.random() < 0.7:
                                continue
                        for _ in range(nseeds):
                            d = {"k": "gen", "ps": name, "mode": mode, "mn": mn, "mx": mx, "ty": ty,
                                 "seed": rng.randrange(1 << 30)}
                            if ty == ps.tid(ps.pset.ret) and (mn + mx) % 2 == 0:
                                d["noty"] = True      # call the generator without `type_` (default: pset.ret)
                            # large full trees: compare the generator only (no per-index observers)
                            if mode != "grow" and mx >= 5:
                                d["observe"] = False
                            yield d
    # histories: chains of operators on the SAME tree objects, looked at / cloned / pickled in between
    # (the closure clauses speak about trees the operators produced themselves, however often and in whatever order)
    nseq = (40000 if thorough else 2400) * mult
    for i in range(nseq):
        ps = get_ps(PSNAMES[i % len(PSNAMES)])
        yield seq_desc(rng, ps, ["none", "all", "some", "none"][(i // len(PSNAMES)) % 4], sparse=(i // (4 * len(PSNAMES))) % 2 == 1)
    # crossover in a strongly typed set whose roots return `object` (the untyped shortcut removed by the fix of
    # cxOnePoint would swap nodes of unrelated types there)
    for i in range((2000 if thorough else 200) * mult):
        ps = get_ps("typedobj")
        d = op_desc(rng, ps, "cx")
        for g in d["t"]:
            g["mode"], g["mn"], g["mx"], g["ty"] = "full", rng.randint(1, 2), 3, 0
        yield d
    # ... and in a set with two distinct types of the same name (candidates must be keyed by the type OBJECT)
    for i in range((2000 if thorough else 200) * mult):
        ps = get_ps("typedH")
        d = op_desc(rng, ps, "cx" if i % 2 == 0 else "cxlb")
        for g in d["t"]:
            g["mode"], g["mn"], g["mx"], g["ty"] = rng.choice(["full", "grow"]), 2, rng.randint(2, 4), ps.tid(float)
        yield d
    # staticLimit on the height with a tight limit: both parents exactly at the limit
    for _ in range((20000 if thorough else 2000) * mult):
        ps = get_ps(rng.choice(PSNAMES))
        k = rng.choice(["cx", "cxlb", "cxlb", "mutu", "muti"])
        d = op_desc(rng, ps, k)
        h = rng.choice([2, 3, 3, 4])
        for g in d["t"]:
            g["mode"], g["mn"], g["mx"], g["ty"] = rng.choice(["full", "grow"]), h if rng.random() < 0.7 else 1, h, d["t"][0]["ty"]
        d["lim"] = {"key": "height", "delta": 0}
        yield d
    nrand = (250000 if thorough else 8000) * mult
    for i in range(nrand):
        ps = get_ps(rng.choice(PSNAMES))
        r = rng.random()
        if r < 0.06:
            yield {"k": "guard", "ps": ps.name, "t": rand_tree_desc(rng, ps, small=True), "seed": rng.randrange(1 << 30)}
            continue
        k = OPS[i % len(OPS)]
        d = op_desc(rng, ps, k)
        if rng.random() < 0.35:
            d["lim"] = {"key": rng.choice(["len", "height"]), "delta": rng.choice([0, 0, 0, 1, 2, -1])}
            # the wrapper may hand back a copy of EITHER parent: like in a population, both parents are
            # trees for the same root slot
            for g in d["t"]:
                g["ty"] = d["t"][0]["ty"]
        if rng.random() < 0.3:
            d["observe"] = True
        yield d


def shrink(d):
    def smaller(g):
        for key in ("mx", "mn"):
            if g[key] > 0:
                h = dict(g)
                h[key] = g[key] - 1
                h["mn"] = min(h["mn"], h["mx"])
                yield h
        if g["mode"] in ("half", "ramped"):
            for m in ("full", "grow"):
                h = dict(g)
                h["mode"] = m
                yield h
    if d["k"] == "gen":
        for h in smaller(d):
            yield h
        return
    if d["k"] == "decls":
        for n in range(len(d["ops"]) - 1, -1, -1):           # drop one declaration (from the end)
            e = dict(d)
            e["ops"] = d["ops"][:n] + d["ops"][n + 1:]
            yield e
        return
    if d["k"] == "seq":
        st = d["steps"]
        for n in range(len(st) - 1, -1, -1):           # drop one step (from the end)
            e = dict(d)
            e["steps"] = st[:n] + st[n + 1:]
            yield e
        if d.get("lim"):
            e = dict(d)
            del e["lim"]
            e["steps"] = [dict((k, v) for k, v in x.items() if k != "lim") for x in st]
            yield e
        if len(d["t"]) > 2 and not any(x.get("i") == len(d["t"]) - 1 or x.get("j") == len(d["t"]) - 1 for x in st):
            e = dict(d)
            e["t"] = d["t"][:-1]
            yield e
        for n, x in enumerate(st):
            if x.get("how") not in (None, "all") :
                e = dict(d)
                e["steps"] = st[:n] + [dict(x, how="all")] + st[n + 1:]
                yield e
    elif "lim" in d:
        e = dict(d)
        del e["lim"]
        yield e
    if d.get("observe"):
        e = dict(d)
        e["observe"] = False
        yield e
    if isinstance(d.get("t"), list):
        for i, g in enumerate(d["t"]):
            for h in smaller(g):
                e = dict(d)
                e["t"] = d["t"][:i] + [h] + d["t"][i + 1:]
                yield e
    if isinstance(d.get("t"), dict):
        for h in smaller(d["t"]):
            e = dict(d)
            e["t"] = h
            yield e
    for s in range(0, 6):
        if d.get("seed") != s:
            e = dict(d)
            e["seed"] = s
            yield e


def classify(desc, msg, known):
    return None
