"""C01 — the translator tie: `translate(repo)` for harness/lib.py::_translated_obligations.

Reads deap/base.py of `repo` AS IT IS NOW, renders the methods of `Fitness` / `ConstrainedFitness` and the module function
`_violates_constraint` with harness/py2lean_c01.py (ITS DOCSTRING IS THE TRUSTED BASE: sub-language and rendering rules) as
Lean definitions `Gen01.<Class>_<method>` and appends the committed theorems of lean/DeapModel/GenEq/C01.lean.tmpl
(`Gen01.<f> … = <the hand-written model of Core/Fitness.lean / Core/FitClass.lean>`, at every scalar type).
A target that has a theorem block in the template but can no longer be translated is a PROBLEM (the tie is broken);
a function without a block is only listed."""
import hashlib
import os
import re
import sys

HERE = os.path.dirname(os.path.abspath(__file__))
sys.path.insert(0, os.path.normpath(os.path.join(HERE, "..")))

import py2lean_c01 as T  # noqa: E402
from py2lean_c01 import F, I, L, OPT, OBJ, SL, OPAQUE, Refuse  # noqa: E402

LEAN_DIR = os.path.normpath(os.path.join(HERE, "..", "..", "lean"))
TEMPLATE = os.path.join(LEAN_DIR, "DeapModel", "GenEq", "C01.lean.tmpl")
DIGEST = os.path.join(LEAN_DIR, "DeapModel", "GenEq", "C01.defs.sha256")
REL = "deap/base.py"

# declared state and parameter types: an assumption of the tie (like the ASSUMPTIONS of the check)
CFG = dict(
    ns="Gen01",
    short={"Fitness": "Fitness", "ConstrainedFitness": "CFit"},
    attr_short={"constraint_violation": "cv"},
    class_attrs={"Fitness": [("weights", L(F))]},
    fields={"Fitness": [("wvalues", L(F))], "ConstrainedFitness": [("constraint_violation", OPT(L(I)))]},
    default_sig={"other": ("OBJ", "SELF"), "values": L(F), "obj": SL, "memo": OPAQUE,
                 "constraint_violation": OPT(L(I)), "fitness": OBJ("ConstrainedFitness")},
    sigs={},
    # `Fitness.__init__` is where the class attribute is allowed to be None (abstract class): its two guards are rendered
    attr_types={("Fitness", "__init__"): {"weights": OPT(L(F))}, ("ConstrainedFitness", "__init__"): {"weights": OPT(L(F))}},
)

# (class generated for | None, function name): the translation targets, in the order of the generated file
TARGETS = [("Fitness", n) for n in ("getValues", "setValues", "delValues", "valid", "dominates", "__hash__", "__le__", "__lt__",
                                    "__eq__", "__gt__", "__ge__", "__ne__", "__init__", "__deepcopy__")] \
    + [(None, "_violates_constraint")] \
    + [("ConstrainedFitness", n) for n in ("__le__", "__lt__", "__eq__", "__gt__", "__ge__", "__ne__", "__hash__", "dominates",
                                           "values", "__init__", "__deepcopy__")]

HEADER = """import DeapModel.Lemmas.C01Gen

set_option linter.unusedVariables false
set_option linter.unusedSimpArgs false
set_option linter.unusedSectionVars false

namespace Gen01
variable {α : Type} [LT α] [LE α] [DecidableEq α] [DecidableLT α] [DecidableLE α] [Mul α] [Div α]

"""


def template_blocks(path):
    src = open(path).read()
    blocks, pre, cur, buf = {}, [], None, []
    for line in src.splitlines():
        m = re.match(r"^--! begin (\S+)\s*$", line)
        if m:
            cur, buf = m.group(1), []
            continue
        if re.match(r"^--! end\s*$", line):
            blocks[cur] = "\n".join(buf)
            cur = None
            continue
        (buf if cur is not None else pre).append(line)
    return "\n".join(pre), blocks


def theorem_names(text):
    return re.findall(r"^theorem\s+([\w.']+)", text, re.M)


def find_target(tr, D, name):
    """-> (D, K, FunctionDef) of a target: a method / property accessor found along D's MRO, or a module function"""
    if D is None:
        g = tr.m.globals.get(name)
        if g is None or g[0] != "func":
            raise Refuse("no module-level function %s" % name)
        return None, None, g[1]
    if D not in tr.classes:
        raise Refuse("no class %s" % D)
    ci = tr.classes[D]
    if ci.problem:
        raise Refuse(ci.problem)
    # accessor functions of a property are found by the function's own name in the class body
    if name in ci.methods:
        return D, D, ci.methods[name]
    for pn, p in ci.props.items():
        for kind in ("get", "set", "delete"):
            if p[kind] is not None and p[kind][0] == D and p[kind][1].name == name:
                return D, D, p[kind][1]
    raise Refuse("class %s defines no function %s" % (D, name))


def generate(repo, rel=REL, cfg=CFG, targets=TARGETS):
    """-> (translator, [(full lean name, Def)], refused [(label, reason)], problems)"""
    problems, refused, done = [], [], []
    path = os.path.join(repo, rel)
    try:
        mod = T.Module(path)
    except (OSError, SyntaxError) as e:
        return None, [], [], ["%s unreadable: %s" % (rel, e)]
    tr = T.Translator(mod, cfg)
    for D, name in targets:
        label = "%s:%s%s" % (rel, (D + ".") if D else "", name)
        try:
            D_, K, fn = find_target(tr, D, name)
            d = tr.get_def(D_, K, fn, None)
            done.append((cfg["ns"] + "." + d.name, d, label))
        except Refuse as e:
            short = cfg["short"].get(D, D)
            full = cfg["ns"] + "." + (("%s_%s" % (short, name)) if D else name)
            refused.append((label, full, str(e)))
    return tr, done, refused, problems


def translate(repo):
    pre, blocks = template_blocks(TEMPLATE)
    tr, done, refused, problems = generate(repo)
    out = [HEADER]
    table, gen_texts, defs = [], [], []
    if tr is not None:
        for d in tr.order:          # dependency order: callees first
            full = "Gen01." + d.name
            out.append("/-- `%s` line %d, regenerated from the source -/" % (REL, d.lineno))
            out.append(d.text)
            out.append("")
            gen_texts.append(d.text)
            defs.append(full)
    out.append("end Gen01\n")
    # a helper the source introduces (a generated definition without a theorem block) is unfolded by `simp` in the proofs
    helpers = [f for f in defs if f not in blocks]
    if helpers:
        out.append("attribute [simp] %s\n" % " ".join(helpers))
    out.append(pre)
    theorems = []
    lost = []
    for label, full, why in refused:
        table.append((label, "refused", why))
        if full in blocks:
            lost.append(full)
            problems.append("%s has left the translated sub-language (%s); its theorems %s cannot be checked"
                            % (label, why, theorem_names(blocks[full])))
    for full in defs:
        label = [l for f, d, l in done if f == full]
        table.append((label[0] if label else full, "translated", "theorem" if full in blocks else "no theorem (helper)"))
        if full in blocks:
            out.append(blocks[full])
            theorems += theorem_names(blocks[full])
    for full in blocks:
        if full not in defs and full not in lost:
            problems.append("%s has theorems in the template but no such definition is generated any more" % full)
    source = "\n".join(out)
    digest = hashlib.sha256("\n".join(gen_texts).encode()).hexdigest()
    try:
        known = open(DIGEST).read().split()
    except OSError:
        known = []
    if digest not in known and theorems:
        failing = failing_theorems(source)
        if failing:
            problems.append("regenerated definitions differ from the committed digest; theorems that no longer hold: %s"
                            % ", ".join(failing))
    return {"problems": problems, "source": source, "theorems": theorems, "definitions": defs,
            "refused": ["%s (%s)" % (l, w) for l, f, w in refused], "table": table, "digest": digest}


def failing_theorems(source):
    """names of the theorems of `source` in whose text Lean reports an error"""
    import shutil
    import subprocess
    import tempfile
    d = tempfile.mkdtemp(prefix="deapverif-gendiag-")
    try:
        f = os.path.join(d, "GenEqDiag.lean")
        with open(f, "w") as fh:
            fh.write(source + "\n")
        p = subprocess.run(["lake", "env", "lean", f], cwd=LEAN_DIR, stdout=subprocess.PIPE, stderr=subprocess.STDOUT,
                           text=True, timeout=3000)
    finally:
        shutil.rmtree(d, ignore_errors=True)
    lines = source.split("\n")
    starts = [(k + 1, m.group(1)) for k, l in enumerate(lines)
              for m in [re.match(r"^(?:theorem|def|example)\s+([\w.']+)?", l)] if m]
    bad = []
    for m in re.finditer(r":(\d+):\d+: error", p.stdout):
        ln = int(m.group(1))
        owner = None
        for k, nm in starts:
            if k <= ln:
                owner = nm or "example"
        if owner and owner not in bad:
            bad.append(owner)
    return bad


def prelude_selftest():
    """differential test of Core/GenPreludeC01.lean (trusted base) against CPython: `seq[slice(a, b, c)]` for every
    a, b in {None, -7..7}, c in {None, -3..3} \\ {0} on a 5-element list (run by hand: `c01_translate.py --prelude-test`)"""
    import subprocess
    import tempfile
    Ls = [[10, 11, 12, 13, 14], [], [7]]
    vals = [None] + list(range(-7, 8))
    steps = [None, -3, -2, -1, 1, 2, 3]
    opt = lambda v: "none" if v is None else "(some (%d))" % v
    lines, exp = ["import DeapModel.Core.GenPreludeC01"], []
    for k, Lx in enumerate(Ls):
        lines.append("def L%d : List Int := %s" % (k, Lx))
    for k, Lx in enumerate(Ls):
        for a in vals:
            for b in vals:
                for c in steps:
                    lines.append("#eval Gen01.sliceObj ⟨%s, %s, %s⟩ L%d" % (opt(a), opt(b), opt(c), k))
                    exp.append(str(Lx[slice(a, b, c)]))
    with tempfile.TemporaryDirectory() as d:
        f = os.path.join(d, "Pre.lean")
        open(f, "w").write("\n".join(lines) + "\n")
        out = subprocess.run(["lake", "env", "lean", f], cwd=LEAN_DIR, capture_output=True, text=True).stdout.strip().split("\n")
    bad = [(l, a, b) for l, a, b in zip(lines[1 + len(Ls):], out, exp) if a.replace(" ", "") != b.replace(" ", "")]
    return len(exp), len(out), bad


if __name__ == "__main__":
    if "--prelude-test" in sys.argv:
        n, m, bad = prelude_selftest()
        print("prelude self-test: %d cases, %d answers, %d differences %s" % (n, m, len(bad), bad[:5]))
        sys.exit(1 if bad or n != m else 0)
    r = translate(sys.argv[1] if len(sys.argv) > 1 else os.environ.get("DEAP_REPO", "/repo"))
    if len(sys.argv) > 2:
        open(sys.argv[2], "w").write(r["source"] + "\n" + "".join("#print axioms %s\n" % n for n in r["theorems"]))
    for row in r["table"]:
        print("%-48s %-11s %s" % row)
    print("problems:", r["problems"])
    print(len(r["definitions"]), "definitions,", len(r["theorems"]), "theorems,", len(r["refused"]), "refused; digest", r["digest"])
