"""C18 — Logbook and statistics record every entry once, in order, chapters aligned
(deap/tools/support.py: Statistics, MultiStatistics, Logbook)."""
import collections
import copy
import numbers
import itertools
import pickle
import re
from operator import itemgetter

import numpy

from lib import Case
from deap import tools
from deap.tools import support

ANCHORS = [("deap/tools/support.py", ["Statistics", "MultiStatistics", "Logbook", "identity"])]
LEVEL = "proof"
RULE = ("fixed witnesses of the repaired defects (F3, F4, F5, F12); fixed logbooks whose print exercises every part of __txt__; "
        "HISTORIES OVER A MultiStatistics AND ITS Statistics OBJECTS AS MUTABLE STATE: 56 fixed histories (every dict mutator - ms[k]=, del, update(dict / kwargs / pairs), "
        "|=, setdefault (new and present key), pop (present and absent key), popitem, clear - after nothing / after `fields` / after `compile` / after fields+compile+record, "
        "followed by compile, a re-registration through the MultiStatistics, fields, compile) and random histories in five profiles (mixed, bypass = mutators that are not "
        "__setitem__/__delitem__, register-heavy with re-registered names and frozen arguments, alias = one object under several names / re-inserted after pop, pipeline = "
        "Logbook.record(**ms.compile(data)) with the header taken from ms.fields) x data as list / tuple / short-lived objects; construction by keywords, by item list or empty; "
        "after EVERY compile the oracle demands exactly one sub-record per statistics object currently in the dict, each = every function currently registered in that object "
        "applied with its frozen arguments to the tuple of key values (result and the recorded calls); the dict (name -> object identity, in order), fields, "
        "Statistics.fields, return values and KeyErrors of every operation are compared with the model `Core/StatsHist.lean` after every operation; "
        "the Python string functions of the text model one by one (format of ints / None / str / doubles incl. ties of the sixth digit, any bit pattern, "
        "inf, nan; center, ljust, expandtabs); histories with a pickle round trip (protocols 0..5) continued on the copy AND on the original in turn; "
        "histories over non-uniform chapter sets with str() everywhere (text or raise, model against implementation only); enumeration of operation sequences over {record, stream, "
        "pop(), pop(-1), del[0], del[-1], del[0:2], del[::-2], select, pickle} (plus `chapters[..].stream` when there is a chapter) "
        "followed by a final stream, in three configurations: no chapter, one chapter, one chapter holding a sub-chapter (one op "
        "shorter) - quick: all sequences of length <= 3 and a RANDOM HALF of those of length 4; thorough: all of length <= 5; "
        "statistics: 1..3 statistics objects x key functions (identity default, len, item0, last, sum, tuple-valued fit1/fit2) x data given as list / tuple of live objects, as a sequence or generator of short-lived objects, as a 2-D numpy array x "
        "14 functions with 0..2 frozen positional and keyword arguments, re-registration, objects sharing one key function object "
        "and the same field names, compile -> record pipelines; random histories of length <= 12 over records with 0..3 chapters: "
        "sub-chapters, optional fields, None / float (dyadic, decimal, extreme) / str (spaces, tabs, empty) valued fields, colliding keys, records WITHOUT scalar fields, the same "
        "dict object handed to several record() calls, dict / OrderedDict / defaultdict values, non-uniform chapter sets, "
        "positive/negative/out-of-range indices, slices with steps +-1,+-2,+-3, select with repeated names, streams of single "
        "chapters and sub-chapters, explicit/default headers, log_header, pickle protocols 0..5. "
        "Non-trivial = distinct history with at least one deletion/pop/stream after a record, or a statistics case with "
        "a frozen argument or more than one function")
EXHAUSTIVE = {"quick": False, "thorough": False}
TIME_BUDGET = {"quick": 60, "thorough": 900}
TRUSTED = ["the text parser of this module, used by the ORACLE only (which record ids and whether a header line occur in the streamed "
           "text): every record carries a unique id field `rid` >= 100000, no other cell is an all-digit number >= 100000; a header "
           "line is a line with a cell equal to the column name `rid`",
           "the text itself is compared VERBATIM with the model's (`x=` field, injective escaping), after every stream / str() / chapter "
           "stream, together with every `columns_len` (`w=` field); CPython's str.format / '{0:n}' in the C locale (the harness never "
           "calls setlocale), str.center, str.expandtabs, len are what the model's Val.format / center / expandtabsLen transcribe",
           "CPython list / dict / defaultdict / pickle semantics (list.pop, slice.indices, dict.update); the index list of a "
           "slice is computed by Python and handed to the model",
           "strings never contain a newline (the text is returned as ONE string joined by newlines)",
           "translator tie: harness/py2lean_c18.py (its docstring = the accepted Python sub-language and the state-passing rendering of objects, "
           "dicts, functools.partial, loops, exceptions, recursion by fuel) and lean/DeapModel/Core/GenPreludeC18.lean (dictSet / dictGet, list.pop, "
           "sorted, the Res outcome type, the loop combinators); the signature table METHODS of py2lean_c18.py (field and parameter types: buffindex is a "
           "length, names are numbers, the argument of __delitem__ is an int or a slice known through the builtin slice.indices); a call of "
           "Logbook.__txt__ is rendered as the model's observation Logbook.txt (its text is tied by the differential correspondence only); "
           "Logbook.record and Logbook.__txt__ are refused (listed in evidence/C18.translated.json) and stay tied by correspondence only"]
ASSUMPTIONS = ["chapter alignment (at every depth) is demanded for logbooks all of whose records carry the same chapter names at "
               "every level (DESIGN section 6); integer indices out of range must raise and change nothing; pop / del on a "
               "logbook whose chapters are misaligned by construction (records with differing chapter names) only compare "
               "model and implementation, and the oracle stops for the rest of that history",
               "the header is counted over the texts returned by `logbook.stream` (str(logbook) prints its header every time, by design)",
               "'the statistics objects of a MultiStatistics' are the items of the dict at the moment of the call (dict.items), whichever dict method put them there; "
               "what update / setdefault / pop / popitem / clear / |= do to the dict itself is not part of the statement (model against implementation only)"]
EXPLANATION = ("Theorems C18.* are proved over all histories of the model Core/Logbook.lean (no length bound) and, for the text, of "
               "Core/LogbookText.lean (the complete __txt__ with columns_len as state); the correspondence compares, after every operation "
               "of a history, the complete observable state (rows, buffindex, every chapter recursively, header settings, every "
               "columns_len), the operation's result and, for stream / str() / chapter streams, the returned text character for "
               "character; the oracle re-derives the expected logbook from the statement with plain Python list semantics. Pickling "
               "is the identity on the model state (C18.pickle_transparent says what that implies); that the real pickle restores "
               "the whole state is established by this correspondence: after a round trip under every protocol the history goes on "
               "on the copy and on the original, both compared with the model and checked by the oracle. "
               "MultiStatistics / Statistics as mutable objects: Core/StatsHist.lean is a state machine (heap of Statistics objects, dict name -> object id) under "
               "alloc / register / ms.register / every dict mutator / fields / compile; compile_after_history (observations can be struck out of a history, compile is "
               "Multi.compile of the resolved current mapping), multi_compile_keys (keys of the record = keys of the dict, each once, after every history), "
               "register_overrides(_multi), fields_sorted_current are proved for all histories; `C18 mhist` replays the harness histories step by step.")

Logbook = tools.Logbook

# ------------------------------------------------------------------------------------------------
# names
# ------------------------------------------------------------------------------------------------
FIELDS = ["rid", "gen", "a", "b", "c", "max", "q", "avg", "min"]
CHAPTERS = ["fit", "size", "x"]
SUBS = ["s1", "s2"]
NUM = {}
for _i, _n in enumerate(FIELDS):
    NUM[_n] = _i
for _i, _n in enumerate(CHAPTERS):
    NUM[_n] = 10 + _i
for _i, _n in enumerate(SUBS):
    NUM[_n] = 20 + _i


def translate(repo):
    """translator tie (lib._translated_obligations): Lean definitions regenerated from `repo`'s current deap/tools/support.py +
    the committed theorems `Gen.<Class>_<method> = <model>` of lean/DeapModel/GenEq/C18.lean.tmpl (harness/py2lean_c18.py)"""
    from props import c18_translate
    import json
    import os
    import lib
    tr = c18_translate.translate(repo)
    try:
        os.makedirs(os.path.join(lib.OUT, "evidence"), exist_ok=True)
        with open(os.path.join(lib.OUT, "evidence", "C18.translated.json"), "w") as fh:
            json.dump({"definitions": len(tr["definitions"]), "theorems": len(tr["theorems"]),
                       "refused": len(tr["refused"]), "problems": tr["problems"],
                       "methods": [dict(name=n, status=st, detail=d) for n, st, d in tr.get("table", [])],
                       "theorem_names": tr["theorems"]}, fh, indent=1)
            fh.write("\n")
    except OSError:
        pass
    return tr


def is_dict(v):
    return isinstance(v, dict)


# scalar values other than integers travel as reserved integer codes (the model never computes on values); the
# code book of a history (code -> Python value) travels with the protocol line as `V:` definitions, so that the
# model can render the very text.  The first six codes are fixed, further values get the next free code.
VALCODES = [(None, 900001), (2.5, 900002), (-0.5, 900003), ("ab", 900004), ("x", 900005), (1e+20, 900006)]


def val_key(v):
    if v is None:
        return ("n",)
    if isinstance(v, float):
        return ("f", v.hex())
    if isinstance(v, str):
        return ("s", v)
    return None


class Book(object):
    """code book of one history"""

    def __init__(self):
        self.codes = dict((val_key(v), c) for v, c in VALCODES)
        self.values = dict((c, v) for v, c in VALCODES)
        self.used = set()

    def code(self, v):
        k = val_key(v)
        if k is None:
            return None
        if k not in self.codes:
            c = 900001 + len(self.codes)
            self.codes[k] = c
            self.values[c] = v
        self.used.add(self.codes[k])
        return self.codes[k]


_BOOK = [Book()]


def cps(text):
    return ".".join(str(ord(ch)) for ch in text)


def val_tok(v):
    """protocol token of a non-integer value: None, a string by its code points, a double by its exact ratio"""
    if v is None:
        return "n"
    if isinstance(v, str):
        return "s" + cps(v)
    if v != v:
        return "fnan"
    if v in (float("inf"), float("-inf")):
        return "finf" if v > 0 else "f-inf"
    num, den = abs(v).as_integer_ratio()
    import math
    return "f%s%d/%d" % ("-" if math.copysign(1.0, v) < 0 else "+", num, den)


def defs_toks(book):
    """the definitions a `hist` line starts with: the string of every name, the value behind every reserved code"""
    names = ["N:%d=%s" % (NUM[n], cps(n)) for n in sorted(NUM, key=NUM.get)]
    vals = ["V:%d=%s" % (c, val_tok(book.values[c])) for c in sorted(book.used)]
    return names + vals


def esc(text):
    """the injective one-line escaping of a text the driver uses"""
    return text.replace("\\", "\\\\").replace(" ", "\\s").replace("\t", "\\t").replace("\n", "\\n")


def enc_val(v):
    if isinstance(v, numbers.Integral) and not isinstance(v, (bool, numpy.bool_)):
        return int(v)
    if isinstance(v, numpy.floating):
        v = float(v)
    if isinstance(v, (bool, numpy.bool_)):
        return None
    return _BOOK[0].code(v)


def enc_items(e):
    out = []
    for k, v in e.items():
        if is_dict(v):
            out.append("%d<" % NUM[k])
            out.extend(enc_items(v))
            out.append(">")
        else:
            out.append("%d=%d" % (NUM[k], enc_val(v)))
    return out


def enc_entry(e):
    return ",".join(enc_items(e)) or "-"


def show_val(v):
    c = enc_val(v)
    return str(c) if c is not None else "<%r>" % (v,)


def show_row(r):
    if not isinstance(r, dict):
        return "<%r>" % (r,)
    if not r:
        return "e"
    return ",".join("%d=%s" % (NUM.get(k, 99), show_val(v)) for k, v in sorted(r.items(), key=lambda kv: NUM.get(kv[0], 99)))


def dump(lb):
    rows = "/".join(show_row(r) for r in lb) or "-"
    chs = sorted(lb.chapters.items(), key=lambda kv: NUM.get(kv[0], 99))
    return "[%s%s:%s:%s]" % (lb.buffindex, "*" if getattr(lb, "header_streamed", False) else "", rows, "".join("%d%s" % (NUM.get(k, 99), dump(ch)) for k, ch in chs) or "-")


def dump_state(lb):
    hdr = "none" if lb.header is None else (",".join(str(NUM[n]) for n in lb.header) or "-")
    return "%s;%s;%d;%d" % (dump(lb), hdr, 1 if lb.log_header else 0, 1 if getattr(lb, "header_streamed", False) else 0)


def dump_cl(lb):
    """the `columns_len` of a logbook and, recursively, of its chapters"""
    cl = getattr(lb, "columns_len", None)
    own = "N" if cl is None else (",".join(str(x) for x in cl) or "-")
    chs = sorted(lb.chapters.items(), key=lambda kv: NUM.get(kv[0], 99))
    return "[%s:%s]" % (own, "".join("%d%s" % (NUM.get(k, 99), dump_cl(ch)) for k, ch in chs) or "-")


def show_col(col):
    return ",".join("N" if v is None else show_val(v) for v in col) or "-"


def parse_text(text):
    """(number of header lines, record ids of the data lines in order, consistent?) of a streamed text"""
    headers, rids, consistent = 0, [], True
    for line in (text.split("\n") if text else []):
        cells = [c.strip() for c in line.split("\t")]
        if "rid" in cells:
            headers += 1
            continue
        ids = [int(c) for c in cells if c.isdigit() and int(c) >= 100000]
        if ids:
            rids.append(ids[0])
            if any(i != ids[0] for i in ids):
                consistent = False
    return headers, rids, consistent


# ------------------------------------------------------------------------------------------------
# the statement, with plain Python list semantics (no DEAP, no model): what the logbook must hold
# ------------------------------------------------------------------------------------------------

def scalars(e):
    return dict((k, v) for k, v in e.items() if not is_dict(v))


def chapter_entry(e, c):
    """what chapter c receives from record e: the dictionary's entries and the record's scalar fields"""
    m = dict(e[c])
    m.update(scalars(e))
    return m


def dict_keys(e):
    return frozenset(k for k, v in e.items() if is_dict(v))


def deep_uniform(entries):
    if not entries:
        return True
    ks = set(dict_keys(e) for e in entries)
    if len(ks) != 1:
        return False
    return all(deep_uniform([chapter_entry(e, c) for e in entries]) for c in next(iter(ks)))


def has_sub(entries):
    return any(dict_keys(chapter_entry(e, c)) for e in entries for c in dict_keys(e))


def rid_of(e):
    """the record id: a scalar field of the record, or (records without scalar fields) of its dictionaries"""
    if "rid" in e:
        return e["rid"]
    for v in e.values():
        if is_dict(v) and "rid" in v:
            return v["rid"]
    return None


def to_py(v, cls):
    """the Python object for a (nested) dictionary of the description: a dict, an OrderedDict or a defaultdict"""
    if not is_dict(v):
        return v
    items = [(k, to_py(x, cls)) for k, x in v.items()]
    if cls == "ordered":
        return collections.OrderedDict(items)
    if cls == "default":
        dd = collections.defaultdict(int)
        dd.update(items)
        return dd
    return dict(items)


class Shadow(object):
    """Plain-list bookkeeping of a history, written from the statement; pure (does not touch DEAP)."""

    def __init__(self):
        self.entries = []          # surviving records, in order
        self.ever = []             # every record ever entered
        self.lost = False          # an out-of-premise operation made the expected content undefined
        self.delivered = {}        # rid -> times delivered
        self.header_ops = []       # op indices of the streams that carried a header (filled by evaluate)

    # premises --------------------------------------------------------------------------------
    def uniform_top(self):
        return len(set(dict_keys(e) for e in self.ever)) <= 1

    def chapters(self):
        return sorted(dict_keys(self.ever[0])) if self.ever else []

    def any_chapter(self):
        return any(dict_keys(e) for e in self.ever)

    def chapters_checked(self):
        return not self.lost and self.uniform_top()

    def deep_checked(self):
        return self.chapters_checked() and deep_uniform(self.ever)

    def printable(self):
        """the premise under which the printed text is defined: every chapter at every level aligned"""
        return not self.lost and deep_uniform(self.ever)

    def norm(self, i):
        n = len(self.entries)
        p = i + n if i < 0 else i
        return p if 0 <= p < n else None

    def delete_in_premise(self):
        return not self.any_chapter() or deep_uniform(self.ever)

    # operations ------------------------------------------------------------------------------
    def record(self, e):
        self.entries.append(e)
        self.ever.append(e)


def plan(ops):
    """Pure walk through a history: for every op whether it is executed (streams/prints are skipped
    where the text is undefined) and the shadow just before it.  Used by evaluate and by classify."""
    sh = Shadow()
    out = []
    for op in ops:
        k = op[0]
        executed = True
        if k in ("stream", "str", "cstream"):
            executed = sh.printable()
        out.append((executed, {"entries": list(sh.entries), "delivered": dict(sh.delivered), "lost": sh.lost}))
        if sh.lost or not executed:
            continue
        if k == "rec":
            sh.record(op[1])
        elif k == "pop":
            p = sh.norm(0 if op[1] is None else op[1])
            if p is not None:
                if not sh.delete_in_premise():
                    sh.lost = True
                else:
                    del sh.entries[p]
        elif k == "del":
            p = sh.norm(op[1])
            if p is not None:
                if not sh.delete_in_premise():
                    sh.lost = True
                else:
                    del sh.entries[p]
        elif k == "dels":
            sl = slice(*op[1])
            if len(range(*sl.indices(len(sh.entries)))):
                if not sh.delete_in_premise():
                    sh.lost = True
                else:
                    del sh.entries[sl]
        elif k == "stream":
            for e in sh.entries:
                sh.delivered[rid_of(e)] = 1
    return out


def expected_rows(entries):
    return [scalars(e) for e in entries]


def check_chapters(lb, entries, deep, names=None, where="logbook"):
    """chapter alignment and content, from the statement; returns a failure message or None"""
    if names is None:
        if not entries:
            return None
        names = sorted(dict_keys(entries[0]))
    if sorted(lb.chapters.keys()) != names:
        return "%s: chapters %r but the records carry the dictionaries %r" % (where, sorted(lb.chapters.keys()), names)
    for c in names:
        ch = lb.chapters[c]
        if not isinstance(ch, Logbook):
            return "%s: chapter %s is not a Logbook" % (where, c)
        sub_entries = [chapter_entry(e, c) for e in entries]
        if len(ch) != len(lb):
            return "%s: chapter %s has %d records, the logbook %d" % (where, c, len(ch), len(lb))
        if list(ch) != expected_rows(sub_entries):
            return "%s: chapter %s holds %r, expected the dictionaries' entries plus the scalar fields %r" % (
                where, c, list(ch), expected_rows(sub_entries))
        if deep:
            m = check_chapters(ch, sub_entries, True, None, where + "/" + c)
            if m:
                return m
    return None


def expected_at(entries, path):
    """the records a chapter path must hold (None when some record lacks it)"""
    for c in path:
        if not all(is_dict(e.get(c)) for e in entries):
            return None
        entries = [chapter_entry(e, c) for e in entries]
    return entries


# ------------------------------------------------------------------------------------------------
# evaluation of a history on the real Logbook
# ------------------------------------------------------------------------------------------------

class Hist(object):
    """One logbook driven through a history: the real object, the protocol tokens, the implementation's canonical
    answers, and the statement evaluated after every operation (the oracle)."""

    def __init__(self):
        self.log = Logbook()
        self.toks, self.answers = [], []
        self.failure = None
        self.f5 = None
        self.header_ops = []
        self.delivered = {}
        self.sh = Shadow()          # the walk of `plan` again, advanced in step with the real object
        self.n_stream = 0
        self.pool = {}              # shared dictionary OBJECTS: the same dict handed to several record() calls
        self.cdelivered = {}        # chapter path -> rid -> times delivered by that chapter's own stream
        self.cheaders = {}

    def fork(self, proto):
        """the history continues on an unpickled copy (returned) AND on the original (self)"""
        other = Hist()
        other.log = pickle.loads(pickle.dumps(self.log, proto))
        other.toks, other.answers = list(self.toks), list(self.answers)
        other.failure, other.f5 = self.failure, self.f5
        other.header_ops = list(self.header_ops)
        other.delivered = dict(self.delivered)
        other.sh = copy.deepcopy(self.sh)
        other.n_stream = self.n_stream
        other.pool = self.pool
        other.cdelivered = copy.deepcopy(self.cdelivered)
        other.cheaders = dict(self.cheaders)
        return other

    def fail(self, msg):
        if self.failure is None:
            self.failure = msg

    def top_tok(self, r):
        """what the model shows for a delivered row: its top-level record id, `?` when the record has none"""
        for e in self.sh.ever:
            if rid_of(e) == r:
                return str(r) if "rid" in e else "?"
        return str(r)

    def chapter(self, path):
        ch = self.log
        for c in path:
            ch = ch.chapters.get(c) if isinstance(ch, Logbook) and c in ch.chapters else None
            if ch is None:
                break
        return ch

    def step(self, j, op, executed, keep_original=False):
        if not executed:
            return
        log, sh, fail = self.log, self.sh, self.fail
        toks = self.toks
        k = op[0]
        obs = "-"
        text = None
        raised = False
        checks = not sh.lost
        if k == "rec":
            e = op[1]
            opts = op[2] if len(op) > 2 else {}
            toks.append("R:" + enc_entry(e))
            kwargs = {}
            for key, v in e.items():
                if is_dict(v) and opts.get("shared") is not None and key in opts.get("shared_keys", []):
                    # the caller passes the very same dict object to several record() calls
                    pk = (opts["shared"], key)
                    if pk not in self.pool:
                        self.pool[pk] = to_py(copy.deepcopy(v), opts.get("cls"))
                    kwargs[key] = self.pool[pk]
                else:
                    kwargs[key] = to_py(copy.deepcopy(v), opts.get("cls"))
            log.record(**kwargs)
            sh.record(e)
        elif k == "sel":
            path, names = op[1], op[2]
            toks.append("L:%s:%s" % (".".join(str(NUM[c]) for c in path) or "-", ",".join(str(NUM[n]) for n in names) or "-"))
            ch = self.chapter(path)
            if ch is None:
                obs = "nopath"
            else:
                res = ch.select(*names)
                if isinstance(res, list):
                    obs = "L:" + show_col(res)
                elif isinstance(res, tuple):
                    obs = "T:" + (";".join(show_col(c) for c in res) or "-")
                else:
                    obs = "<%r>" % (res,)
                if checks and (not path or (sh.chapters_checked() and (len(path) == 1 or sh.deep_checked()))):
                    ent = expected_at(sh.entries, path)
                    if ent is not None:
                        cols = [[scalars(e).get(n) for e in ent] for n in names]
                        want = cols[0] if len(names) == 1 else tuple(cols)
                        if res != want or type(res) is not type(want):
                            fail("op %d: select%r on %r returned %r, the chronological columns are %r" % (j, tuple(names), path, res, want))
                # the returned columns belong to the caller: scramble them in place (after they have been compared), as a
                # caller that sorts / pops / extends its column does; every later select must still return the logbook's
                # columns (seeded change C18-r8m2 hands out its per-name cache entry itself)
                for col in ([res] if isinstance(res, list) else list(res) if isinstance(res, tuple) else []):
                    if isinstance(col, list):
                        col.reverse()
                        col.append("caller-owned")
                        if len(col) > 2:
                            del col[0]
        elif k in ("stream", "str"):
            toks.append("S" if k == "stream" else "P")
            text = log.stream if k == "stream" else str(log)
            h, rids, consistent = parse_text(text)
            obs = "t%d:%s" % (h, ",".join(self.top_tok(r) for r in rids) or "-")
            surviving = [rid_of(e) for e in sh.entries]
            if not consistent:
                fail("op %d: a printed line mixes different records (chapter columns out of step): %r" % (j, text))
            if h > 1:
                fail("op %d: one text carries %d header lines" % (j, h))
            if k == "str":
                if rids != surviving:
                    fail("op %d: str() shows records %r, the logbook holds %r" % (j, rids, surviving))
            else:
                self.n_stream += 1
                delivered = self.delivered
                for r in rids:
                    delivered[r] = delivered.get(r, 0) + 1
                    if delivered[r] > 1:
                        fail("op %d: record %d delivered by the stream a second time" % (j, r))
                for r in rids:
                    if r not in surviving:
                        fail("op %d: stream delivered record %d which is not in the logbook" % (j, r))
                missing = [r for r in surviving if delivered.get(r, 0) == 0]
                if missing:
                    fail("op %d: records %r were never delivered by the stream" % (j, missing))
                if [r for r in surviving if r in rids] != rids:
                    fail("op %d: stream delivered %r out of order" % (j, rids))
                if h >= 1:
                    self.header_ops.append(j)
                    if len(self.header_ops) >= 2 and self.f5 is None:
                        self.f5 = "header delivered twice: the streams at ops #%d and #%d both carried a header" % (self.header_ops[-2], j)
                        fail(self.f5)
        elif k == "rstr":
            # str() of a logbook that need not be aligned: model against implementation only (text, or that it raises)
            toks.append("Q")
            try:
                text = str(log)
            except (IndexError, ValueError):
                raised = True
        elif k == "cstream":
            path = op[1]
            toks.append("C:%s" % ".".join(str(NUM[c]) for c in path))
            ch = self.chapter(path)
            if ch is None:
                obs = "nopath"
            else:
                text = ch.stream
                h, rids, consistent = parse_text(text)
                obs = "t%d:%s" % (h, ",".join(str(r) for r in rids) or "-")
                surviving = [rid_of(e) for e in sh.entries]
                key = tuple(path)
                dl = self.cdelivered.setdefault(key, {})
                if not consistent:
                    fail("op %d: a line of the chapter stream mixes different records: %r" % (j, text))
                if h > 1:
                    fail("op %d: one chapter text carries %d header lines" % (j, h))
                for r in rids:
                    dl[r] = dl.get(r, 0) + 1
                    if dl[r] > 1:
                        fail("op %d: chapter %s delivered record %d a second time" % (j, "/".join(path), r))
                    if r not in surviving:
                        fail("op %d: chapter %s delivered record %d which is not in the logbook" % (j, "/".join(path), r))
                missing = [r for r in surviving if dl.get(r, 0) == 0]
                if missing:
                    fail("op %d: chapter %s never delivered the records %r" % (j, "/".join(path), missing))
                if [r for r in surviving if r in rids] != rids:
                    fail("op %d: chapter %s delivered %r out of order" % (j, "/".join(path), rids))
                if h >= 1:
                    self.cheaders[key] = self.cheaders.get(key, 0) + 1
                    if self.cheaders[key] > 1:
                        fail("op %d: chapter %s delivered its header a second time" % (j, "/".join(path)))
        elif k == "pop":
            i = op[1]
            toks.append("O:%d" % (0 if i is None else i))
            p = sh.norm(0 if i is None else i)
            inprem = sh.delete_in_premise()
            try:
                r = log.pop() if i is None else log.pop(i)
                obs = "ok:" + show_row(r)
                if checks and inprem:
                    if p is None:
                        fail("op %d: pop(%r) out of range returned %r" % (j, i, r))
                    elif r != scalars(sh.entries[p]):
                        fail("op %d: pop(%r) returned %r, the addressed record is %r" % (j, i, r, scalars(sh.entries[p])))
            except IndexError:
                obs = "raise"
                if checks and p is not None and inprem:
                    fail("op %d: pop(%r) raised IndexError on an aligned logbook of %d records" % (j, i, len(sh.entries)))
            if p is not None and checks:
                if not inprem:
                    sh.lost = True
                else:
                    del sh.entries[p]
        elif k == "del":
            i = op[1]
            toks.append("D:%d" % i)
            p = sh.norm(i)
            inprem = sh.delete_in_premise()
            try:
                del log[i]
                obs = "ok"
            except IndexError:
                obs = "raise"
                if checks and p is not None and inprem:
                    fail("op %d: del logbook[%d] raised IndexError on an aligned logbook of %d records" % (j, i, len(sh.entries)))
            if checks and p is not None:
                if not inprem:
                    sh.lost = True
                else:
                    del sh.entries[p]
        elif k == "dels":
            sl = slice(*op[1])
            idx = list(range(*sl.indices(len(log))))
            toks.append("X:%s" % (",".join(str(x) for x in idx) or "-"))
            inprem = sh.delete_in_premise()
            try:
                del log[sl]
                obs = "ok"
            except IndexError:
                obs = "raise"
                if checks and inprem:
                    fail("op %d: del logbook[%r] raised IndexError on an aligned logbook" % (j, op[1]))
            if checks and len(range(*sl.indices(len(sh.entries)))):
                if not inprem:
                    sh.lost = True
                else:
                    del sh.entries[sl]
        elif k == "pickle":
            toks.append("K")
            before = dump_state(log)
            before_cl = dump_cl(log)
            new = pickle.loads(pickle.dumps(log, op[1]))
            if new is log or type(new) is not Logbook:
                fail("op %d: unpickling did not give a new Logbook" % j)
            elif dump_state(new) != before:
                fail("op %d: pickled logbook %s differs from the original %s" % (j, dump_state(new), before))
            else:
                def all_logbooks(lb):
                    return all(type(c) is Logbook and all_logbooks(c) for c in lb.chapters.values())
                if not all_logbooks(new):
                    fail("op %d: a chapter of the unpickled logbook is not a Logbook" % j)
            if dump_state(log) != before or dump_cl(log) != before_cl:
                fail("op %d: pickling changed the pickled logbook itself: %s, before %s" % (j, dump_state(log), before))
            if not keep_original:
                log = self.log = new
        elif k == "hdr":
            toks.append("H:%s" % ("none" if op[1] is None else (",".join(str(NUM[n]) for n in op[1]) or "-")))
            log.header = None if op[1] is None else list(op[1])
        elif k == "lh":
            toks.append("G:%d" % (1 if op[1] else 0))
            log.log_header = bool(op[1])
        else:
            raise ValueError(k)
        self.answers.append("%s;%s;w=%s%s" % (obs, dump_state(log), dump_cl(log), ";x!" if raised else "" if text is None else ";x=" + esc(text)))
        # the statement, after every operation
        if not sh.lost:
            if list(log) != expected_rows(sh.entries):
                fail("op %d (%s): the logbook holds %r, the records entered and not deleted are %r" % (
                    j, k, list(log), expected_rows(sh.entries)))
            elif sh.chapters_checked() and sh.ever:
                m = check_chapters(log, sh.entries, sh.deep_checked(), sh.chapters())
                if m:
                    fail("op %d (%s): %s" % (j, k, m))


def run_history(ops):
    """returns (protocol tokens incl. the definitions, expected answers per op, oracle message or None, f5 message or None)"""
    _BOOK[0] = Book()
    pl = plan(ops)
    h = Hist()
    for j, op in enumerate(ops):
        h.step(j, op, pl[j][0])
    return (defs_toks(_BOOK[0]) + h.toks) if h.toks else [], h.answers, h.failure, h.f5


def run_fork(prefix, proto, a, b):
    """prefix; pickle round trip; then history `a` on the ORIGINAL object and history `b` on the unpickled COPY,
    operation by operation in turn (a shared mutable part would let one branch disturb the other).
    Returns the two protocol lines' tokens, the two answer lists, the first oracle message."""
    _BOOK[0] = Book()
    ops_a = list(prefix) + [["pickle", proto]] + list(a) + [["stream"]]
    ops_b = list(prefix) + [["pickle", proto]] + list(b) + [["stream"]]
    pl_a, pl_b = plan(ops_a), plan(ops_b)
    ha = Hist()
    for j in range(len(prefix)):
        ha.step(j, ops_a[j], pl_a[j][0])
    hb = ha.fork(proto)
    n = len(prefix)
    ha.step(n, ops_a[n], pl_a[n][0], keep_original=True)
    hb.toks.append("K")
    hb.answers.append("-;%s;w=%s" % (dump_state(hb.log), dump_cl(hb.log)))
    if type(hb.log) is not Logbook or hb.log is ha.log:
        hb.fail("op %d: unpickling did not give a new Logbook" % n)
    for t in range(n + 1, max(len(ops_a), len(ops_b))):
        if t < len(ops_a):
            ha.step(t, ops_a[t], pl_a[t][0])
        if t < len(ops_b):
            hb.step(t, ops_b[t], pl_b[t][0])
    defs = defs_toks(_BOOK[0])
    msg = None
    if ha.failure or ha.f5:
        msg = "on the original after pickling: %s" % (ha.failure or ha.f5)
    elif hb.failure or hb.f5:
        msg = "on the unpickled copy: %s" % (hb.failure or hb.f5)
    return defs + ha.toks, ha.answers, defs + hb.toks, hb.answers, msg


# ------------------------------------------------------------------------------------------------
# statistics
# ------------------------------------------------------------------------------------------------

def f_lin(a, values, b=0):
    return a * sum(values) + b


def f_cnt(t, values):
    return sum(1 for v in values if v >= t)


def f_nth(i, values):
    return values[i % len(values)]


def f_wsum(values):
    return sum((j + 1) * v for j, v in enumerate(values))


def f_lin2(a, b, values):
    return a * sum(values) + b


def f_tsum(values):
    return sum(sum(t) for t in values)


def f_tmax0(values):
    return max(t[0] for t in values)


def f_twidth(values):
    return len(values[0])


def f_tlin(a, values, b=0):
    return a * f_tsum(values) + b


PLAIN = {"sum": sum, "len": len, "max": max, "min": min, "wsum": f_wsum, "lin": f_lin, "lin2": f_lin2, "cnt": f_cnt,
         "nth": f_nth, "tlen": len, "tsum": f_tsum, "tmax0": f_tmax0, "twidth": f_twidth, "tlin": f_tlin}
KEYS = {"len": len, "item0": itemgetter(0), "last": lambda ind: ind[-1], "sum": sum,
        # tuple-valued keys, like `ind.fitness.values`
        "fit1": lambda ind: (ind[0],), "fit2": lambda ind: (ind[0], ind[-1])}
TUPLE_KEYS = ("fit1", "fit2")


def frozen(fn, args):
    """positional and keyword arguments frozen at registration: ((args), {kwargs})"""
    if fn in ("lin", "tlin"):
        return (args[0],), ({"b": args[1]} if len(args) > 1 else {})
    if fn == "lin2":
        return (args[0], args[1]), {}          # two frozen positional arguments
    if fn in ("cnt", "nth"):
        return (args[0],), {}
    return (), {}


def build_stats(keycode, data_is_plain, calls, label, shared=None):
    """shared: a dict keycode -> key function object, so that statistics objects with the same key code use the
    very same function object (as `Statistics(key=len)` written twice does)"""
    def wrap_key(f):
        if shared is not None and keycode in shared:
            return shared[keycode]

        def key(elem):
            # (a copy is logged: the harness must not keep the data elements alive)
            calls.append(("key", label, list(elem) if hasattr(elem, "__iter__") else elem))
            return f(elem)
        if shared is not None:
            shared[keycode] = key
        return key
    if keycode == "id":
        return tools.Statistics() if data_is_plain else tools.Statistics(key=wrap_key(lambda ind: ind[0]))
    return tools.Statistics(key=wrap_key(KEYS[keycode]))


def register(target, name, fn, args, calls, label):
    pa, kw = frozen(fn, args)
    base = PLAIN[fn]

    def recorder(*a, **k):
        calls.append(("fn", label, name, fn, a, k))
        return base(*a, **k)
    target.register(name, recorder, *pa, **kw)


def key_value(keycode, ind):
    return ind[0] if keycode == "id" else KEYS[keycode](ind)


def spec_compile(keycode, regs, data):
    """the statement: every registered function, with its frozen arguments, applied to the tuple of key values"""
    values = tuple(key_value(keycode, ind) for ind in data)
    out = {}
    for name, fn, args in regs:
        pa, kw = frozen(fn, args)
        out[name] = PLAIN[fn](*(pa + (values,)), **kw)
    return out


def show_rec(d):
    return ",".join("%d=%s" % (NUM[k], show_val(v)) for k, v in d.items()) or "e"


def data_tok(data):
    return "d:" + (";".join(",".join(str(x) for x in ind) for ind in data) or "-")


def args_tok(args):
    return "_".join(str(a) for a in args) or "-"


class Fresh(object):
    """a re-iterable data sequence whose items are manufactured on iteration (like the rows of a 2-D numpy array):
    nothing keeps an item alive once the consumer drops it"""

    def __init__(self, rows):
        self.rows = [list(r) for r in rows]

    def __len__(self):
        return len(self.rows)

    def __iter__(self):
        for r in self.rows:
            yield list(r)


def make_data(rows, container, plain=False):
    """the data sequence handed to compile: a list / tuple of live objects, a sequence or a generator of short-lived
    objects, or a 2-D numpy array (rows of equal length only)"""
    if plain:
        vals = [r[0] for r in rows]
        return tuple(vals) if container == "tuple" else (v for v in vals) if container == "gen" else vals
    if container == "tuple":
        return tuple(list(r) for r in rows)
    if container == "fresh":
        return Fresh(rows)
    if container == "gen":
        return (list(r) for r in rows)
    if container == "ndarray" and rows and len(set(len(r) for r in rows)) == 1:
        return numpy.array(rows)
    return [list(r) for r in rows]


def eval_stats(d):
    data = [list(ind) for ind in d["data"]]
    keycode = d["key"]
    plain = keycode == "id" and d.get("plain", False)
    calls = []
    st = build_stats(keycode, plain, calls, "s")
    toks = ["k:%s" % keycode]
    regs = []
    for name, fn, args in d["regs"]:
        register(st, name, fn, args, calls, "s")
        regs.append((name, fn, list(args)))
        toks.append("r:%d:%s:%s" % (NUM[name], fn, args_tok(args)))
    toks.append(data_tok(data))
    pydata = [ind[0] for ind in data] if plain else [list(ind) for ind in data]
    del calls[:]
    res = st.compile(make_data(data, d.get("container", "list"), plain))
    orc = None
    want = spec_compile(keycode, regs, data)
    values = tuple(key_value(keycode, ind) for ind in data)
    fn_calls = [c for c in calls if c[0] == "fn"]
    if not isinstance(res, dict) or res != want:
        orc = "compile returned %r, the registered functions applied to the key values give %r" % (res, want)
    else:
        last = {}
        for name, fn, args in regs:
            last[name] = (fn, args)
        if sorted(c[2] for c in fn_calls) != sorted(last):
            orc = "functions called %r, registered %r" % ([c[2] for c in fn_calls], sorted(last))
        for c in fn_calls:
            fn, args = last[c[2]]
            pa, kw = frozen(fn, args)
            if c[4] != pa + (values,) or c[5] != kw or type(c[4][-1]) is not tuple:
                orc = "function %s was called with %r %r, expected frozen arguments %r, the tuple of key values %r and %r" % (
                    c[2], c[4], c[5], pa, values, kw)
        if not plain and [c[2] for c in calls if c[0] == "key"] != pydata:
            orc = "key function applied to %r, data is %r" % ([c[2] for c in calls if c[0] == "key"], pydata)
    nontrivial = len(regs) > 1 or any(a for _, _, a in regs)
    return Case(d, ["C18 %s " % ("statst" if keycode in TUPLE_KEYS else "stats") + " ".join(toks)], [show_rec(res) if isinstance(res, dict) else repr(res)], orc,
                tag="stats/key=%s/fns=%d%s" % (keycode, len(set(r[0] for r in regs)), "/rereg" if len(set(r[0] for r in regs)) < len(regs) else ""),
                nontrivial=nontrivial)


def build_multi(d, calls):
    objs = {}
    shared = {} if d.get("share_keys") else None
    for sname, keycode in d["stats"]:
        objs[sname] = build_stats(keycode, False, calls, sname, shared)
    ms = tools.MultiStatistics(**objs) if d.get("ctor", "kw") == "kw" else tools.MultiStatistics(list(objs.items()))
    toks = ["s:%d:%s" % (NUM[s], k) for s, k in d["stats"]]
    regs = dict((s, []) for s, _ in d["stats"])
    for target, name, fn, args in d["regs"]:
        if target == "*":
            # MultiStatistics.register hands the same function to every statistics object
            pa, kw = frozen(fn, args)

            def make(name_, fn_, base):
                def recorder(*a, **k):
                    calls.append(("fn", "*", name_, fn_, a, k))
                    return base(*a, **k)
                return recorder
            recorder = make(name, fn, PLAIN[fn])
            ms.register(name, recorder, *pa, **kw)
            for s in regs:
                regs[s].append((name, fn, list(args)))
        else:
            register(ms[target], name, fn, args, calls, target)
            regs[target].append((name, fn, list(args)))
        toks.append("r:%s:%d:%s:%s" % ("*" if target == "*" else NUM[target], NUM[name], fn, args_tok(args)))
    return ms, toks, regs


def show_multi(res, order):
    return " ".join("%d{%s}" % (NUM[s], show_rec(res[s])) for s in order) or "e"


def eval_multi(d):
    data = [list(ind) for ind in d["data"]]
    calls = []
    ms, toks, regs = build_multi(d, calls)
    toks.append(data_tok(data))
    res = ms.compile(make_data(data, d.get("container", "list") if d.get("container") != "gen" else "fresh"))
    keyof = dict(d["stats"])
    want = dict((s, spec_compile(keyof[s], regs[s], data)) for s in keyof)
    orc = None
    if not isinstance(res, dict) or res != want:
        orc = "MultiStatistics.compile returned %r, one record per named statistics object would be %r" % (res, want)
    elif sorted(ms.fields) != sorted(keyof):
        orc = "MultiStatistics.fields %r, statistics objects %r" % (ms.fields, sorted(keyof))
    order = list(res.keys()) if isinstance(res, dict) else []
    # the model keeps the construction order of the dict
    exp = show_multi(res, [s for s, _ in d["stats"] if s in res]) if isinstance(res, dict) else repr(res)
    if isinstance(res, dict) and set(order) != set(keyof):
        exp += " keys=%r" % (order,)
    lines, expect = ["C18 multi " + " ".join(toks)], [exp]
    tag = "multi/stats=%d/regs=%d%s" % (len(keyof), len(d["regs"]), "/shared-key" if d.get("share_keys") else "")
    # pipeline: compile per generation -> logbook.record(gen=..., **record) -> chapters
    if d.get("gens"):
        ops = []
        for g, gdata in enumerate(d["gens"]):
            rec = ms.compile(make_data(gdata, d.get("container", "list") if d.get("container") != "gen" else "fresh"))
            e = {"rid": 100001 + g, "gen": g}
            e.update(rec)
            ops.append(["rec", e])
            if d.get("stream_each"):
                ops.append(["stream"])
        ops.extend(d.get("tail", []))
        ops.append(["stream"])
        t2, a2, f, f5 = run_history(ops)
        lines.append("C18 hist " + " ".join(t2))
        expect.append(" | ".join(a2))
        if orc is None:
            orc = f or f5
        tag += "/pipeline"
    return Case(d, lines, expect, orc, tag=tag, nontrivial=True)


# ------------------------------------------------------------------------------------------------
# histories over a MultiStatistics and its Statistics objects (mutable state)
# ------------------------------------------------------------------------------------------------

MH_BYPASS = ("update", "ior", "setdefault", "pop", "popitem", "clear")     # dict mutators that are not __setitem__ / __delitem__
MH_MUTATORS = MH_BYPASS + ("set", "del", "ctor")


def pairs_tok(pairs):
    return ",".join("%d=%d" % (NUM[k], i) for k, i in pairs) or "-"


def show_mrec(res):
    return "{" + " ".join("%d{%s}" % (NUM[s], show_rec(res[s])) for s in res) + "}"


def eval_mhist(d):
    """One history on ONE MultiStatistics object (and the Statistics objects it creates): every operation is sent to
    the model (`C18 mhist`), the dict is compared after every operation, and after EVERY compile the statement is
    evaluated: exactly one sub-record per statistics object currently in the mapping, each holding every function
    currently registered in that object applied with its frozen arguments to the tuple of key values."""
    ops = d["ops"]
    calls = []
    ms = None
    objs = []                   # the real Statistics objects, by id
    keyof = []                  # id -> key code
    regs = []                   # id -> ordered dict: field name -> (fn, args): the registrations that count (the last per name)
    toks, answers = [], []
    orc = [None]
    log_ops = []
    gen = [0]
    seen_obs = False
    bypass_after_obs = False
    compiled_after = False

    def fail(msg):
        if orc[0] is None:
            orc[0] = msg

    def ident(o):
        for i, x in enumerate(objs):
            if x is o:
                return i
        return -1

    def dump():
        if ms is None:
            return "e"
        return ",".join("%d>%d" % (NUM[k], ident(v)) for k, v in dict.items(ms)) or "e"

    def reg_shadow(i, name, fn, args):
        regs[i][name] = (fn, list(args))         # a re-registered name keeps its place, the new function counts

    for j, op in enumerate(ops):
        k = op[0]
        obs = "-"
        if ms is None and k != "new" and k != "reg" and k != "ctor":
            ms = tools.MultiStatistics()
        if k == "new":
            objs.append(build_stats(op[1], False, calls, len(objs)))
            keyof.append(op[1])
            regs.append(collections.OrderedDict())
            toks.append("n:%s" % op[1])
            obs = "o%d" % (len(objs) - 1)
        elif k == "reg":
            _, i, name, fn, args = op
            register(objs[i], name, fn, args, calls, i)
            reg_shadow(i, name, fn, args)
            toks.append("g:%d:%d:%s:%s" % (i, NUM[name], fn, args_tok(args)))
        elif k == "mreg":
            _, name, fn, args = op
            register(ms, name, fn, args, calls, "*")
            for _k, o in dict.items(ms):
                reg_shadow(ident(o), name, fn, args)
            toks.append("R:%d:%s:%s" % (NUM[name], fn, args_tok(args)))
        elif k == "ctor":
            pairs, how = op[1], op[2]
            if ms is not None:
                raise ValueError("ctor twice")
            if how == "kw":
                ms = tools.MultiStatistics(**dict((n, objs[i]) for n, i in pairs))
            else:
                ms = tools.MultiStatistics([(n, objs[i]) for n, i in pairs])
            toks.append("u:" + pairs_tok(pairs))
        elif k == "set":
            ms[op[1]] = objs[op[2]]
            toks.append("s:%d:%d" % (NUM[op[1]], op[2]))
        elif k == "del":
            toks.append("x:%d" % NUM[op[1]])
            try:
                del ms[op[1]]
            except KeyError:
                obs = "!"
        elif k == "update":
            pairs, how = op[1], op[2]
            toks.append("u:" + pairs_tok(pairs))
            if how == "kw":
                ms.update(**dict((n, objs[i]) for n, i in pairs))
            elif how == "pairs":
                ms.update([(n, objs[i]) for n, i in pairs])
            else:
                ms.update(dict((n, objs[i]) for n, i in pairs))
        elif k == "ior":
            toks.append("i:" + pairs_tok(op[1]))
            ms |= dict((n, objs[i]) for n, i in op[1])
            if type(ms) is not tools.MultiStatistics:
                fail("op %d: `ms |= {...}` turned the MultiStatistics into %r" % (j, type(ms)))
        elif k == "setdefault":
            toks.append("t:%d:%d" % (NUM[op[1]], op[2]))
            obs = "o%d" % ident(ms.setdefault(op[1], objs[op[2]]))
        elif k == "pop":
            toks.append("p:%d" % NUM[op[1]])
            try:
                obs = "o%d" % ident(ms.pop(op[1]))
            except KeyError:
                obs = "!"
        elif k == "popitem":
            toks.append("q")
            try:
                n, o = ms.popitem()
                obs = "%d>%d" % (NUM[n], ident(o))
            except KeyError:
                obs = "!"
        elif k == "clear":
            toks.append("c")
            ms.clear()
        elif k == "fields":
            toks.append("f")
            obs = "[%s]" % ",".join(str(NUM[n]) for n in ms.fields)
        elif k == "ofields":
            toks.append("F:%d" % op[1])
            obs = "[%s]" % ",".join(str(NUM[n]) for n in objs[op[1]].fields)
        elif k in ("compile", "log"):
            data = [list(ind) for ind in op[1]]
            toks.append(data_tok(data))
            current = [(n, ident(o)) for n, o in dict.items(ms)]       # the statistics objects currently in the mapping
            want = collections.OrderedDict()
            want_calls = []
            for n, i in current:
                want[n] = spec_compile(keyof[i], [(f, fa[0], fa[1]) for f, fa in regs[i].items()], data)
                values = tuple(key_value(keyof[i], ind) for ind in data)
                for f, (fn, args) in regs[i].items():
                    pa, kw = frozen(fn, args)
                    want_calls.append(repr((f, pa + (values,), kw)))
            del calls[:]
            try:
                res = ms.compile(make_data(data, op[2] if len(op) > 2 else "list"))
            except Exception as exc:
                res = None
                obs = "raise:%s" % type(exc).__name__
                fail("op %d: compile raised %s: %s; the MultiStatistics holds the statistics objects %r, one record per object would be %r" % (
                    j, type(exc).__name__, exc, [n for n, _ in current], dict(want)))
            if res is not None:
                if not isinstance(res, dict) or not all(isinstance(v, dict) for v in res.values()):
                    obs = "<%r>" % (res,)
                    fail("op %d: compile returned %r" % (j, res))
                else:
                    obs = show_mrec(res)
                    got_calls = [repr((c[2], c[4], c[5])) for c in calls if c[0] == "fn"]
                    if res != want:
                        fail("op %d: compile returned %r; the MultiStatistics holds the statistics objects %r, one record per object "
                             "(every registered function, with its frozen arguments, on the tuple of key values) is %r" % (
                                 j, res, [n for n, _ in current], dict(want)))
                    elif sorted(got_calls) != sorted(want_calls):
                        fail("op %d: compile called %r, the registered functions with their frozen arguments on the tuple of "
                             "key values are %r" % (j, sorted(got_calls), sorted(want_calls)))
                    if k == "log":
                        # the pipeline of the algorithms: header from `fields`, one record per generation
                        e = {"rid": 100001 + gen[0], "gen": gen[0]}
                        e.update((n, dict(v)) for n, v in res.items())
                        hdr = ["rid", "gen"] + [n for n in ms.fields if n in NUM]
                        log_ops.append(["hdr", hdr])
                        log_ops.append(["rec", e])
                        if op[3] if len(op) > 3 else False:
                            log_ops.append(["stream"])
                        gen[0] += 1
            if bypass_after_obs:
                compiled_after = True
        else:
            raise ValueError(k)
        if k in ("fields", "compile", "log"):
            seen_obs = True
        elif k in MH_BYPASS and seen_obs:
            bypass_after_obs = True
        answers.append("%s;%s" % (obs, dump()))
    lines = ["C18 mhist " + " ".join(toks)] if toks else ["C18 mhist"]
    expect = [" | ".join(answers) if answers else "empty"]
    if log_ops:
        log_ops.append(["stream"])
        t2, a2, f, f5 = run_history(log_ops)
        lines.append("C18 hist " + " ".join(t2))
        expect.append(" | ".join(a2))
        if orc[0] is None and (f or f5):
            fail("logbook fed with the compiled records: %s" % (f or f5))
    kinds = set(op[0] for op in ops)
    tag = "mhist/%s/%s%s" % (d.get("profile", "fixed"), "bypass" if bypass_after_obs else "setitem-only" if kinds & {"set", "del"} else "static",
                             "/log" if log_ops else "")
    return Case(d, lines, expect, orc[0], tag=tag, nontrivial=compiled_after or (seen_obs and bool(kinds & set(MH_MUTATORS))))


def rand_mreg(rng):
    name, fn, args = rand_reg(rng, STAT_NAMES)
    return name, fn, args


def rand_mdata(rng):
    return [[rng.randint(-9, 30) for _ in range(rng.randint(1, 4))] for _ in range(rng.randint(1, 5))]


MH_PROFILES = ["mixed", "bypass", "register", "alias", "pipeline"]
MH_KEYS = ["len", "item0", "last", "sum", "id"]
MH_CONTAINERS = ["list", "tuple", "fresh"]


def rand_mhist(rng, profile, container):
    """a history: statistics objects are created, registered on (directly and through the MultiStatistics, names
    re-registered with other functions / frozen arguments), stored / replaced / removed with every dict mutator, and
    `fields` / `compile` are evaluated in between (so that anything remembered from an earlier evaluation shows)."""
    ops = []
    nobj = [0]
    held = []            # names probably in the mapping (generation-side guess only; absent names are fine: KeyError is modelled)

    def new_obj(nregs=None):
        ops.append(["new", rng.choice(MH_KEYS)])
        i = nobj[0]
        nobj[0] += 1
        for _ in range(rng.randint(0, 2) if nregs is None else nregs):
            name, fn, args = rand_mreg(rng)
            ops.append(["reg", i, name, fn, args])
        return i

    def some_obj(fresh=0.7):
        if nobj[0] == 0 or rng.random() < (fresh if profile != "alias" else 0.3):
            return new_obj()
        return rng.randrange(nobj[0])

    def observe(p_fields=0.5, p_compile=0.7):
        if rng.random() < p_fields:
            ops.append(["fields"])
        if rng.random() < p_compile:
            if profile == "pipeline":
                ops.append(["log", rand_mdata(rng), container, rng.random() < 0.4])
            else:
                ops.append(["compile", rand_mdata(rng), container])

    # construction
    how = rng.choice(["kw", "items", "empty"])
    n0 = rng.randint(0 if how == "empty" else 1, 2)
    first = rng.sample(CHAPTERS, n0)
    if how == "empty":
        for n in first:
            ops.append(["set", n, new_obj()])
    else:
        ops.append(["ctor", [[n, new_obj()] for n in first], how])
    held.extend(first)
    observe(0.6, 0.8)
    weights = {"mixed": [3, 2, 2, 2, 2, 2, 1, 1, 2, 3, 2],
               "bypass": [1, 1, 4, 3, 4, 4, 2, 1, 1, 2, 1],
               "register": [2, 1, 1, 1, 1, 1, 1, 0, 1, 6, 6],
               "alias": [4, 2, 3, 2, 3, 2, 1, 1, 1, 3, 2],
               "pipeline": [2, 1, 3, 2, 3, 2, 1, 0, 1, 3, 1]}[profile]
    kinds = ["set", "del", "update", "ior", "setdefault", "pop", "popitem", "clear", "ofields", "mreg", "reg"]
    for _ in range(rng.randint(2, 7)):
        k = rng.choices(kinds, weights)[0]
        if k == "set":
            n = rng.choice(CHAPTERS)
            ops.append(["set", n, some_obj()])
        elif k == "del":
            ops.append(["del", rng.choice(held) if held and rng.random() < 0.85 else rng.choice(CHAPTERS)])
        elif k == "update":
            names = rng.sample(CHAPTERS, rng.randint(0 if rng.random() < 0.1 else 1, 2))
            ops.append(["update", [[n, some_obj()] for n in names], rng.choice(["dict", "kw", "pairs"])])
        elif k == "ior":
            names = rng.sample(CHAPTERS, rng.randint(1, 2))
            ops.append(["ior", [[n, some_obj()] for n in names]])
        elif k == "setdefault":
            n = rng.choice(CHAPTERS)
            ops.append(["setdefault", n, some_obj()])
        elif k == "pop":
            ops.append(["pop", rng.choice(held) if held and rng.random() < 0.85 else rng.choice(CHAPTERS)])
        elif k == "popitem":
            ops.append(["popitem"])
        elif k == "clear":
            ops.append(["clear"])
        elif k == "ofields":
            if nobj[0]:
                ops.append(["ofields", rng.randrange(nobj[0])])
        elif k == "mreg":
            name, fn, args = rand_mreg(rng)
            ops.append(["mreg", name, fn, args])
        elif k == "reg":
            if nobj[0]:
                name, fn, args = rand_mreg(rng)
                ops.append(["reg", rng.randrange(nobj[0]), name, fn, args])
        last = ops[-1] if ops else [None]
        if last[0] in ("set", "setdefault"):
            held.append(last[1])
        elif last[0] in ("update", "ior"):
            held.extend(n for n, _ in last[1])
        observe(0.35, 0.75)
    ops.append(["fields"])
    ops.append(["log" if profile == "pipeline" else "compile", rand_mdata(rng), container] + ([False] if profile == "pipeline" else []))
    return {"k": "mhist", "ops": ops, "profile": profile}


def mhist_witnesses():
    """fixed short histories: every dict mutator once, after nothing / after `fields` / after a `compile`, followed
    by a compile (and a re-registration through the MultiStatistics in between)"""
    data1, data2 = [[4], [2, -4, 7]], [[1, 2], [3]]
    base = [["new", "len"], ["reg", 0, "max", "max", []], ["new", "sum"], ["reg", 1, "q", "lin", [2, 3]],
            ["new", "item0"], ["reg", 2, "max", "min", []]]
    muts = [[["set", "size", 2]], [["del", "fit"]], [["update", [["size", 2]], "dict"]], [["update", [["size", 2]], "kw"]],
            [["update", [["size", 2], ["fit", 1]], "pairs"]], [["ior", [["x", 2]]]], [["setdefault", "size", 2]],
            [["setdefault", "fit", 2]], [["pop", "fit"]], [["pop", "x"]], [["popitem"]], [["clear"]],
            [["clear"], ["update", [["x", 1]], "kw"]], [["pop", "fit"], ["setdefault", "fit", 2]]]
    for mut in muts:
        for before in ([], [["fields"]], [["compile", data1, "list"]], [["fields"], ["log", data1, "list", True]]):
            kind = "log" if before and before[-1][0] == "log" else "compile"
            tail = [[kind, data2, "list"] + ([False] if kind == "log" else [])]
            yield {"k": "mhist", "profile": "fixed",
                   "ops": base + [["ctor", [["fit", 0], ["x", 1]], "kw"]] + before + mut + tail + [["mreg", "max", "cnt", [2]], ["fields"]] + tail}


# ------------------------------------------------------------------------------------------------
# pickling in the middle of a history: the history goes on on the copy and on the original
# ------------------------------------------------------------------------------------------------

def eval_fork(d):
    ta, aa, tb, ab, msg = run_fork(d["prefix"], d["proto"], d["a"], d["b"])
    nrec = sum(1 for op in d["prefix"] if op[0] == "rec")
    chap = max([len(dict_keys(op[1])) for op in d["prefix"] + d["a"] + d["b"] if op[0] == "rec"] or [0])
    return Case(d, ["C18 hist " + " ".join(ta), "C18 hist " + " ".join(tb)], [" | ".join(aa), " | ".join(ab)], msg,
                tag="fork/proto=%d/chapters=%d" % (d["proto"], chap), nontrivial=nrec > 0)


# ------------------------------------------------------------------------------------------------
# the Python string functions the text model uses, one by one ("glue is where the bugs are")
# ------------------------------------------------------------------------------------------------

def eval_pyfmt(d):
    f = d["f"]
    if f == "val":
        v = d["v"]
        if isinstance(v, list):          # ["f", hex] : a double that JSON cannot carry (inf, nan) or must carry exactly
            v = float.fromhex(v[1]) if v[0] == "f" else v[1]
        got = ("{0:n}" if isinstance(v, float) else "{0}").format(v)
        return Case(d, ["C18 fmtval %s" % (("i%d" % v) if isinstance(v, int) else val_tok(v))], [esc(got)], None, tag="pyfmt/val", nontrivial=True)
    if f == "center":
        return Case(d, ["C18 center %s %d" % (cps(d["s"]), d["w"])], [esc(d["s"].center(d["w"]))], None, tag="pyfmt/center", nontrivial=True)
    if f == "ljust":
        return Case(d, ["C18 ljust %s %d" % (cps(d["s"]), d["w"])], [esc(("{0:<%d}" % d["w"]).format(d["s"]))],
                    None, tag="pyfmt/ljust", nontrivial=True)
    if f == "etlen":
        return Case(d, ["C18 etlen %s" % cps(d["s"])], [str(len(d["s"].expandtabs()))], None, tag="pyfmt/expandtabs", nontrivial=True)
    raise ValueError(f)


# ------------------------------------------------------------------------------------------------
# evaluate
# ------------------------------------------------------------------------------------------------

def evaluate(d):
    k = d["k"]
    if k == "stats":
        return eval_stats(d)
    if k == "multi":
        return eval_multi(d)
    if k == "mhist":
        return eval_mhist(d)
    if k == "fork":
        return eval_fork(d)
    if k == "pyfmt":
        return eval_pyfmt(d)
    if k != "hist":
        raise ValueError(k)
    ops = d["ops"]
    toks, answers, failure, f5 = run_history(ops)
    orc = failure if failure is not None else f5
    kinds = set(op[0] for op in ops)
    nrec = sum(1 for op in ops if op[0] == "rec")
    chap = max([len(dict_keys(op[1])) for op in ops if op[0] == "rec"] or [0])
    pl = plan(ops)
    final = pl[-1][1] if pl else None
    flags = []
    if ops:
        sh_ever = [op[1] for op in ops if op[0] == "rec"]
        if sh_ever and len(set(dict_keys(e) for e in sh_ever)) > 1:
            flags.append("nonuniform")
        if sh_ever and has_sub(sh_ever):
            flags.append("sub")
        if final and final["lost"]:
            flags.append("lost")
    tag = "hist/len=%d/chapters=%d/%s%s" % (
        min(len(ops), 13), chap,
        "+".join(sorted(x for x in kinds if x in ("pop", "del", "dels", "pickle", "stream"))) or "record-only",
        ("/" + ",".join(flags)) if flags else "")
    nontrivial = nrec > 0 and bool(kinds & {"pop", "del", "dels", "stream"})
    if not toks:
        return Case(d, ["C18 hist"], ["empty"], orc, tag="hist/empty", nontrivial=False)
    return Case(d, ["C18 hist " + " ".join(toks)], [" | ".join(answers)], orc, tag=tag, nontrivial=nontrivial)


# ------------------------------------------------------------------------------------------------
# generation
# ------------------------------------------------------------------------------------------------

STR_ALPHABET = "abxyz_ -\t\u00e9\u65e5"     # no letter of `rid` (the oracle's text parser looks for that cell), no newline; two non-ASCII code points


def rand_str(rng, maxlen=7):
    return "".join(rng.choice(STR_ALPHABET) for _ in range(rng.randint(0, maxlen)))


def rand_float(rng):
    r = rng.random()
    if r < 0.5:
        return rng.randint(-2 ** 20, 2 ** 20) / float(2 ** rng.randint(0, 12))      # dyadic, few digits
    if r < 0.8:
        return round(rng.uniform(-1, 1) * 10.0 ** rng.randint(-7, 9), rng.randint(0, 8))
    return rng.choice([0.0, -0.0, 1e-7, 123456.5, 999999.5, 1e6, 0.1, 1.0 / 3, -2.0 / 3, 1e-4, 1e-5, 99999.95, 5e-324, 1.7e308])


def looks_like_rid(x):
    """the oracle's text parser takes an all-digit cell >= 100000 for a record id: such a float is entered negated"""
    c = "{0:n}".format(x)
    return c.isdigit() and int(c) >= 100000


def val(rng):
    r = rng.random()
    if r < 0.10:
        return rng.choice([None, 2.5, -0.5, "ab", "x", 1e+20])     # None-valued, float and str fields
    if r < 0.16:
        x = rand_float(rng)
        return -x if looks_like_rid(x) else x
    if r < 0.20:
        return rand_str(rng)
    return rng.randint(-9, 99)


class Schema(object):
    """how the records of one history look: which chapters, their keys, sub-chapters"""

    def __init__(self, rng, nch=None, sub=None):
        self.nch = rng.choice([0, 0, 1, 1, 2, 3]) if nch is None else nch
        self.chs = rng.sample(CHAPTERS, self.nch)
        self.fields = rng.sample(["gen", "a", "b", "c"], rng.randint(0, 3))
        self.chkeys = dict((c, rng.sample(["max", "q", "avg", "min", "a", "gen"], rng.randint(0, 3))) for c in self.chs)
        self.sub = (rng.random() < 0.15) if sub is None else sub
        self.subs = dict((c, rng.sample(SUBS, rng.randint(1, 2))) for c in self.chs) if self.sub else {}
        # records without any scalar field (log.record(fit={...}, size={...})): the record id sits in the dictionaries
        self.noscalars = bool(self.chs) and rng.random() < 0.12
        # the caller keeps ONE dictionary object per chapter and hands it to several record() calls
        self.shared = bool(self.chs) and not self.noscalars and rng.random() < 0.2
        self.shared_data = None

    def opts(self, rng, e):
        o = {}
        if any(is_dict(v) for v in e.values()):
            o["cls"] = rng.choice(["dict", "dict", "dict", "ordered", "default"])
        if self.shared and self.shared_data is not None and e.get("_shared"):
            o["shared"] = 0
            o["shared_keys"] = list(self.shared_data)
        e.pop("_shared", None)
        return o

    def entry(self, rng, rid, perturb=0.0):
        bare = self.noscalars and not perturb and rng.random() < 0.6
        e = {} if bare else {"rid": rid}
        for f in ([] if bare else self.fields):
            if rng.random() < 0.8:          # optional fields
                e[f] = val(rng)
        if self.shared and not perturb and rng.random() < 0.7:
            if self.shared_data is None:
                self.shared_data = dict((c, dict((kk, val(rng)) for kk in self.chkeys.get(c, ["max"])))
                                        for c in self.chs)
            for c in self.chs:
                e[c] = copy.deepcopy(self.shared_data[c])
            e["_shared"] = True
            items = list(e.items())
            rng.shuffle(items)
            return dict(items)
        chs = list(self.chs)
        if perturb and rng.random() < perturb:
            r = rng.random()
            if r < 0.4 and chs:
                chs.pop(rng.randrange(len(chs)))
            elif r < 0.7:
                extra = [c for c in CHAPTERS if c not in chs]
                if extra:
                    chs.append(rng.choice(extra))
            elif chs:
                e[chs.pop()] = val(rng)      # a chapter name used as a scalar field
        for c in chs:
            dct = dict((kk, val(rng)) for kk in self.chkeys.get(c, ["max"]) if rng.random() < 0.85)
            for s in self.subs.get(c, []):
                if rng.random() < 0.9 or not perturb:
                    dct[s] = dict((kk, val(rng)) for kk in rng.sample(["q", "min", "b"], rng.randint(0, 2)))
            if bare:
                dct["rid"] = rid
            e[c] = dct
        if self.sub and rng.random() < 0.1 and chs and not bare:
            e[rng.choice(SUBS)] = val(rng)   # a scalar that overrides a sub-dictionary key in the chapters
        items = list(e.items())
        rng.shuffle(items)
        return dict(items)


def rand_index(rng, n):
    r = rng.random()
    if n and r < 0.8:
        return rng.randrange(-n, n)
    return rng.choice([n, n + 1, -n - 1, -n - 2, 0, -1])


def rand_slice(rng, n):
    def bound():
        return rng.choice([None, None, rng.randint(-n - 2, n + 2)])
    return [bound(), bound(), rng.choice([None, 1, 1, 2, -1, -1, -2, 3, -3])]


def rand_history(rng, length, perturb=0.0, nch=None, sub=None, oob=0.08):
    sc = Schema(rng, nch, sub)
    ops, n, rid = [], 0, 100001
    profile = rng.choice(["mixed", "mixed", "stream-heavy", "delete-heavy", "f5-prone"])
    for _ in range(length):
        r = rng.random()
        w_rec = 0.5 if n < 2 else 0.3
        if profile == "delete-heavy" and n >= 2:
            w_rec = 0.2
        if r < w_rec:
            e = sc.entry(rng, rid, perturb)
            o = sc.opts(rng, e)
            ops.append(["rec", e, o] if o else ["rec", e])
            rid += 1
            n += 1
            continue
        r = rng.random()
        if sc.chs and rng.random() < 0.12:
            c = rng.choice(sc.chs)                      # a chapter is a logbook: stream it on its own
            path = [c]
            if sc.subs.get(c) and rng.random() < 0.4:
                path.append(rng.choice(sc.subs[c]))
            ops.append(["cstream", path])
        elif profile == "stream-heavy" and r < 0.4 or r < 0.2:
            ops.append(["stream"])
        elif r < 0.3:
            names = rng.choices(["rid", "gen", "a", "b", "max", "q"], k=rng.choice([0, 1, 1, 2, 3, 4]))   # names may repeat
            path = []
            if sc.chs and rng.random() < 0.5:
                c = rng.choice(sc.chs)
                path = [c]
                if sc.subs.get(c) and rng.random() < 0.5:
                    path.append(rng.choice(sc.subs[c]))
            ops.append(["sel", path, names])
        elif r < 0.42:
            i = rand_index(rng, n) if rng.random() > oob else rng.choice([n, -n - 1])
            if profile == "f5-prone":
                i = rng.choice([0, 0, -1])
            ops.append(["pop", None if (i == 0 and rng.random() < 0.5) else i])
            if -n <= i < n:
                n -= 1
        elif r < 0.62:
            i = rand_index(rng, n) if rng.random() > oob else rng.choice([n, -n - 1])
            if profile == "f5-prone":
                i = rng.choice([0, 0, -1])
            ops.append(["del", i])
            if -n <= i < n:
                n -= 1
        elif r < 0.8:
            sl = rand_slice(rng, n)
            if profile == "f5-prone" and rng.random() < 0.5:
                sl = [None, None, None]
            ops.append(["dels", sl])
            n -= len(range(*slice(*sl).indices(n)))
        elif r < 0.86:
            ops.append(["pickle", rng.choice([0, 1, 2, 3, 4, 5])])
        elif r < 0.9:
            ops.append(["str"])
        elif r < 0.95:
            cols = ["rid"] + rng.sample(sc.fields + sc.chs + ["q"], rng.randint(0, min(3, len(sc.fields + sc.chs) + 1)))
            if sc.noscalars:
                cols = ["rid"] + list(sc.chs)           # the record id is only visible in the chapter columns
            rng.shuffle(cols)
            ops.append(["hdr", None if rng.random() < 0.3 else cols])
        else:
            ops.append(["lh", rng.random() < 0.5])
    ops.append(["stream"])
    return {"k": "hist", "ops": ops}


EXH_OPS = ["rec", "stream", "pop0", "pop-1", "del0", "del-1", "dels02", "dels-2", "sel", "pickle"]


def text_witnesses():
    def rec(i, **kw):
        e = {"rid": 100001 + i, "gen": i}
        e.update(kw)
        return ["rec", e]
    out = []
    # two chapters, one with a sub-chapter; printed, grown, printed again (the widths are state)
    h = [rec(0, fit={"max": 7, "avg": 2.5, "s1": {"q": 1}}, size={"min": None}),
         rec(1, fit={"max": 1234567.0, "avg": -0.5, "s1": {"q": "ab"}}, size={"min": 3}),
         ["stream"], ["str"],
         rec(2, fit={"max": 1e-05, "avg": -100000.5, "s1": {"q": "a\tb"}}, size={"min": "a longer cell"}),
         ["stream"], ["str"], ["cstream", ["fit"]], ["cstream", ["fit", "s1"]], ["pickle", 2], ["str"],
         ["del", 0], ["str"], ["stream"]]
    out.append(h)
    # log_header off on the logbook / explicit headers: unknown column, chapter twice, chapter only
    out.append([["lh", False], rec(0, fit={"max": 1}), ["stream"], rec(1, fit={"max": 22}), ["lh", True], ["stream"], ["str"]])
    out.append([rec(0, a=5, fit={"max": 1}), rec(1, fit={"max": 333}), ["hdr", ["gen", "q", "fit", "rid", "fit"]], ["str"],
                ["hdr", ["fit"]], ["str"], ["hdr", []], ["str"], ["hdr", None], ["stream"]])
    # the header is printed by str() every time and by the stream once; pops in between
    out.append([rec(0), ["str"], ["stream"], rec(1, a="x"), ["pop", 0], ["str"], ["stream"], rec(2), ["stream"], ["str"]])
    # records without scalar fields
    out.append([["rec", {"fit": {"rid": 100001, "max": 3}}], ["str"], ["rec", {"fit": {"rid": 100002}}], ["stream"]])
    for ops in out:
        yield {"k": "hist", "ops": ops + [["stream"]]}



def exh_history(seq, chapter):
    ops, rid = [], 100001
    for s in seq:
        if s == "rec":
            e = {"rid": rid, "gen": rid - 100001}
            if chapter:
                e["fit"] = {"max": 10 + rid - 100001}
            if chapter == 2:
                e["fit"]["s1"] = {"q": 20 + rid - 100001}
            ops.append(["rec", e])
            rid += 1
        elif s == "stream":
            ops.append(["stream"])
        elif s == "pop0":
            ops.append(["pop", None])
        elif s == "pop-1":
            ops.append(["pop", -1])
        elif s == "del0":
            ops.append(["del", 0])
        elif s == "del-1":
            ops.append(["del", -1])
        elif s == "dels02":
            ops.append(["dels", [0, 2, None]])
        elif s == "dels-2":
            ops.append(["dels", [None, None, -2]])
        elif s == "sel":
            ops.append(["sel", (["fit", "s1"] if chapter == 2 else ["fit"]) if chapter else [],
                        ["rid", "max"] if chapter else ["gen"]])
        elif s == "pickle":
            ops.append(["pickle", 2])
        elif s == "cstream":
            ops.append(["cstream", ["fit", "s1"] if chapter == 2 else ["fit"]])
    ops.append(["stream"])
    return {"k": "hist", "ops": ops}


CONTAINERS = ["list", "tuple", "fresh", "gen", "ndarray"]
_container = ["list"]          # the container family of the case being generated (set by `generate`, never by the seed)


def rand_data(rng, nonempty):
    c = _container[0]
    short_lived = c in ("fresh", "gen", "ndarray")
    n = rng.randint(3, 12) if short_lived else rng.randint(1 if nonempty else 0, 6)
    width = rng.randint(1, 4)
    return [[rng.randint(-9, 30) for _ in range(width if c == "ndarray" else rng.randint(1, 4))] for _ in range(n)]


def rand_reg(rng, names, tuples=False):
    if tuples:
        fn = rng.choice(["tlen", "tsum", "tmax0", "twidth", "tlin"])
        args = ([rng.randint(-3, 5)] + ([rng.randint(-9, 9)] if rng.random() < 0.7 else [])) if fn == "tlin" else []
        return rng.choice(names), fn, args
    fn = rng.choice(["sum", "len", "max", "min", "wsum", "lin", "lin", "lin2", "cnt", "nth"])
    if fn == "lin2":
        args = [rng.randint(-3, 5), rng.randint(-9, 9)]
    elif fn == "lin":
        args = [rng.randint(-3, 5)] + ([rng.randint(-9, 9)] if rng.random() < 0.7 else [])
    elif fn == "cnt":
        args = [rng.randint(-5, 20)]
    elif fn == "nth":
        args = [rng.randint(0, 7)]
    else:
        args = []
    return rng.choice(names), fn, args


STAT_NAMES = ["max", "q", "avg", "min", "a"]


def rand_stats(rng):
    if rng.random() < 0.3:
        key = rng.choice(TUPLE_KEYS)
        regs = [list(rand_reg(rng, STAT_NAMES, True)) for _ in range(rng.randint(1, 4))]
        return {"k": "stats", "key": key, "regs": regs, "data": rand_data(rng, True)}
    regs = [list(rand_reg(rng, STAT_NAMES)) for _ in range(rng.randint(0, 5))]
    needs = any(r[1] in ("max", "min", "nth") for r in regs)
    key = rng.choice(["id", "id", "len", "item0", "last", "sum"])
    data = rand_data(rng, needs)
    d = {"k": "stats", "key": key, "regs": regs, "data": data}
    if key == "id":
        d["plain"] = rng.random() < 0.7
        if d["plain"]:
            d["data"] = [[ind[0]] for ind in data]
    return d


def rand_multi(rng, pipeline):
    twin = rng.random() < 0.35
    if twin:
        # statistics objects that look alike (same key function object, same field names in the same order) but
        # compute different things: every name is registered in each object separately, with its own function
        snames = rng.sample(CHAPTERS, rng.randint(2, 3))
        kc = rng.choice(["len", "item0", "last", "sum", "id"])
        stats = [[s, kc] for s in snames]
        regs = []
        for name in rng.sample(STAT_NAMES, rng.randint(1, 3)):
            for s in snames:
                _, fn, args = rand_reg(rng, [name])
                regs.append([s, name, fn, args])
    else:
        snames = rng.sample(CHAPTERS, rng.randint(1, 3))
        stats = [[s, rng.choice(["len", "item0", "last", "sum", "id"])] for s in snames]
        regs = []
        for _ in range(rng.randint(0 if not pipeline else 1, 5)):
            name, fn, args = rand_reg(rng, STAT_NAMES)
            target = "*" if (pipeline or rng.random() < 0.6) else rng.choice(snames)
            regs.append([target, name, fn, args])
    d = {"k": "multi", "stats": stats, "regs": regs, "data": rand_data(rng, True), "ctor": rng.choice(["kw", "kw", "items"]),
         "share_keys": twin or rng.random() < 0.5}
    if pipeline:
        d["gens"] = [rand_data(rng, True) for _ in range(rng.randint(1, 4))]
        d["stream_each"] = rng.random() < 0.5
        n = len(d["gens"])
        tail = []
        for _ in range(rng.randint(0, 3)):
            r = rng.random()
            if r < 0.4 and n:
                tail.append(["del", rng.randrange(-n, n)])
                n -= 1
            elif r < 0.6:
                sl = rand_slice(rng, n)
                tail.append(["dels", sl])
                n -= len(range(*slice(*sl).indices(n)))
            elif r < 0.8:
                tail.append(["sel", [rng.choice(snames)], rng.sample(["gen", "rid"] + STAT_NAMES, 2)])
            else:
                tail.append(["pickle", rng.choice([0, 2, 5])])
        d["tail"] = tail
    return d


def rand_double(rng):
    import struct
    r = rng.random()
    if r < 0.3:
        return struct.unpack("<d", struct.pack("<Q", rng.getrandbits(64)))[0]       # any bit pattern (inf, nan, subnormals)
    if r < 0.55:
        # a tie of the sixth significant digit, and its neighbours: (m + 1/2) * 10^k, exact for small k
        m = rng.randint(100000, 999999)
        k = rng.randint(-3, 6)
        x = (2 * m + 1) * 10.0 ** k / 2
        return rng.choice([x, x, -x, x * (1 + 2.0 ** -52), x * (1 - 2.0 ** -53)])
    if r < 0.7:
        return float(rng.choice([1, -1]) * 10.0 ** rng.randint(-8, 22))
    if r < 0.8:
        return float(rng.randint(-10 ** 7, 10 ** 7))
    return rand_float(rng)


def rand_pyfmt(rng, i):
    r = i % 4
    if r == 0:
        q = rng.random()
        if q < 0.7:
            x = rand_double(rng)
            return {"k": "pyfmt", "f": "val", "v": ["f", x.hex()]}
        if q < 0.8:
            return {"k": "pyfmt", "f": "val", "v": rng.choice([0, -1, 7, 10 ** 30, -10 ** 19, rng.randint(-10 ** 9, 10 ** 9)])}
        if q < 0.85:
            return {"k": "pyfmt", "f": "val", "v": None}
        return {"k": "pyfmt", "f": "val", "v": ["s", rand_str(rng, 9)]}
    alphabet = STR_ALPHABET + ("\n\r" if r == 3 else "")
    text = "".join(rng.choice(alphabet) for _ in range(rng.randint(0, 12)))
    if r == 1:
        return {"k": "pyfmt", "f": "center", "s": text.replace("\t", "t"), "w": rng.randint(0, 16)}
    if r == 2:
        return {"k": "pyfmt", "f": "ljust", "s": text, "w": rng.randint(0, 16)}
    return {"k": "pyfmt", "f": "etlen", "s": text}


def rand_raw(rng):
    """a history over NON-uniform chapter sets (chapters of different lengths) with str() everywhere: the printed
    text, or that printing raises, and the `columns_len` left behind are compared with the model (no oracle clause)"""
    h = rand_history(rng, rng.choice([4, 6, 9, 12]), perturb=0.5, nch=rng.choice([1, 2, 3]), sub=(rng.random() < 0.3))
    ops = []
    for op in h["ops"]:
        ops.append(["rstr"] if op[0] == "str" else op)
        if rng.random() < 0.35:
            ops.append(["rstr"])
    return {"k": "hist", "ops": ops + [["rstr"]]}


def rand_fork(rng):
    """a history, a pickle round trip (any protocol), and two continuations: one for the original, one for the copy"""
    sc_seed = rng.getrandbits(32)
    import random as _random
    h = rand_history(_random.Random(sc_seed), rng.choice([4, 6, 9, 12]), sub=(rng.random() < 0.2))
    ops = h["ops"][:-1]
    if len(ops) < 2:
        cut = len(ops)
    else:
        cut = rng.randint(1, len(ops))
    prefix, rest = ops[:cut], ops[cut:]
    # the second continuation: the same operations in another order, or another tail of the same history generator
    other = list(rest)
    rng.shuffle(other)
    if rng.random() < 0.5:
        other = other[:rng.randint(0, len(other))]          # (every record keeps its own id: nothing is repeated)
        other.insert(rng.randint(0, len(other)), rng.choice([["stream"], ["str"], ["pop", -1], ["dels", [None, None, 2]]]))
    return {"k": "fork", "prefix": prefix, "proto": rng.choice([0, 1, 2, 3, 4, 5]), "a": rest, "b": other}


def generate(tier, rng, mult):
    thorough = tier == "thorough"
    # corpus-like fixed histories: the witnesses of the repaired and the known defects
    a, b, c, dd, e = [{"rid": 100001 + i, "gen": i} for i in range(5)]
    yield {"k": "hist", "ops": [["stream"]]}                                                     # F12
    yield {"k": "hist", "ops": [["hdr", ["rid"]], ["stream"], ["str"]]}
    yield {"k": "hist", "ops": [["rec", a], ["rec", b], ["rec", c], ["dels", [0, 2, None]], ["stream"]]}   # F3
    yield {"k": "hist", "ops": [["rec", a], ["rec", b], ["rec", c], ["stream"], ["rec", dd], ["pop", -1], ["rec", e], ["stream"]]}  # F4
    yield {"k": "hist", "ops": [["rec", a], ["stream"], ["del", 0], ["rec", b], ["stream"]]}      # F5
    yield {"k": "hist", "ops": [["rec", {"rid": 100001}], ["rec", {"rid": 100002, "a": 1}], ["sel", [], []], ["sel", [], ["gen"]], ["stream"]]}
    # repeated selects of one name without a record / pop in between (the caller owns and modifies what it got)
    yield {"k": "hist", "ops": [["rec", {"rid": 100001, "a": 1}], ["rec", {"rid": 100002}], ["sel", [], ["a"]], ["sel", [], ["a", "rid"]],
                                ["sel", [], ["a"]], ["sel", [], ["rid"]], ["sel", [], ["rid", "a"]], ["stream"]]}
    # texts: fixed logbooks whose print exercises every part of `__txt__` (chapters and a sub-chapter with and without
    # their own header, explicit header with a missing and an unknown column, widths growing between two prints,
    # None / float / str cells, a chapter named in the header twice)
    for hist in text_witnesses():
        yield hist
    # histories over a MultiStatistics as mutable state (compile / fields / register / every dict mutator / record into a logbook)
    for hist in mhist_witnesses():
        yield hist
    for i in range((12000 if thorough else 1500) * mult):
        yield rand_mhist(rng, MH_PROFILES[i % len(MH_PROFILES)], MH_CONTAINERS[(i // len(MH_PROFILES)) % len(MH_CONTAINERS)])
    # the Python string functions of the text model
    for i in range((4000 if thorough else 600) * mult):
        yield rand_pyfmt(rng, i)
    # pickling in the middle of a history, continued on the copy and on the original
    for i in range((6000 if thorough else 500) * mult):
        yield rand_fork(rng)
    # str() of logbooks whose chapters are not aligned (model against implementation only)
    for i in range((6000 if thorough else 500) * mult):
        yield rand_raw(rng)
    # exhaustive short histories
    maxlen = 5 if thorough else 4
    for chapter in (0, 1, 2):           # no chapter / one chapter / one chapter with a sub-chapter
        for n in range(0, maxlen + 1 - (1 if chapter == 2 else 0)):
            for seq in itertools.product(EXH_OPS + (["cstream"] if chapter else []), repeat=n):
                if n == maxlen and not thorough and rng.random() < 0.5:
                    continue            # quick: half of the longest layer, the full layer in the thorough tier
                yield exh_history(seq, chapter)
    # statistics
    nstat = (8000 if thorough else 1200) * mult
    for i in range(nstat):
        r = i % 4
        _container[0] = CONTAINERS[(i // 4) % len(CONTAINERS)]
        if r == 0:
            dd = rand_stats(rng)
        elif r == 1:
            dd = rand_multi(rng, False)
        else:
            dd = rand_multi(rng, True)
        dd["container"] = _container[0]
        _container[0] = "list"
        yield dd
    # random histories
    nrand = (80000 if thorough else 9000) * mult
    for i in range(nrand):
        length = rng.choice([3, 5, 8, 10, 12, 12])
        r = rng.random()
        if r < 0.72:
            yield rand_history(rng, length)                          # in the premise
        elif r < 0.84:
            yield rand_history(rng, length, sub=True)                # sub-chapters
        elif r < 0.9:
            yield rand_history(rng, length, oob=0.4)                 # many out-of-range indices
        else:
            yield rand_history(rng, length, perturb=0.35, nch=rng.choice([1, 2, 3]))   # non-uniform chapter sets


# ------------------------------------------------------------------------------------------------
# shrinking, classification
# ------------------------------------------------------------------------------------------------

def shrink(d):
    if d["k"] == "hist":
        ops = d["ops"]
        for i in range(len(ops)):
            yield {"k": "hist", "ops": ops[:i] + ops[i + 1:]}
        for i, op in enumerate(ops):
            if op[0] == "rec":
                e = op[1]
                tail = op[2:]                      # the record's options (dict class, shared objects) stay
                for key in list(e):
                    if key == "rid":
                        continue
                    e2 = dict(e)
                    del e2[key]
                    if rid_of(e2) is not None:     # every record keeps its id
                        yield {"k": "hist", "ops": ops[:i] + [["rec", e2] + tail] + ops[i + 1:]}
                    if is_dict(e[key]):
                        for k2 in list(e[key]):
                            if k2 == "rid":
                                continue
                            e3 = dict(e)
                            e3[key] = dict(e[key])
                            del e3[key][k2]
                            yield {"k": "hist", "ops": ops[:i] + [["rec", e3] + tail] + ops[i + 1:]}
                if tail and tail[0].get("cls") not in (None, "dict") and "shared" not in tail[0]:
                    yield {"k": "hist", "ops": ops[:i] + [["rec", e]] + ops[i + 1:]}
            elif op[0] == "dels" and op[1] != [None, None, None]:
                yield {"k": "hist", "ops": ops[:i] + [["dels", [None, None, None]]] + ops[i + 1:]}
            elif op[0] in ("pop", "del") and op[1] not in (0, None):
                yield {"k": "hist", "ops": ops[:i] + [[op[0], 0]] + ops[i + 1:]}
    elif d["k"] == "mhist":
        ops = d["ops"]
        for i in range(len(ops) - 1, -1, -1):
            if ops[i][0] not in ("new", "ctor"):          # the object ids stay what they are
                yield dict(d, ops=ops[:i] + ops[i + 1:])
        for i, op in enumerate(ops):
            if op[0] in ("compile", "log") and len(op[1]) > 1:
                for r in range(len(op[1])):
                    yield dict(d, ops=ops[:i] + [[op[0], op[1][:r] + op[1][r + 1:]] + op[2:]] + ops[i + 1:])
            elif op[0] in ("update", "ior", "ctor") and len(op[1]) > 1:
                for r in range(len(op[1])):
                    yield dict(d, ops=ops[:i] + [[op[0], op[1][:r] + op[1][r + 1:]] + op[2:]] + ops[i + 1:])
    elif d["k"] in ("stats", "multi"):
        for i in range(len(d["regs"])):
            e = dict(d)
            e["regs"] = d["regs"][:i] + d["regs"][i + 1:]
            yield e
        if len(d["data"]) > 1:
            for i in range(len(d["data"])):
                e = dict(d)
                e["data"] = d["data"][:i] + d["data"][i + 1:]
                yield e
        if d.get("gens"):
            e = dict(d)
            e["gens"] = d["gens"][:-1]
            yield e
            if d.get("tail"):
                e = dict(d)
                e["tail"] = d["tail"][:-1]
                yield e


def classify(desc, msg, known):
    """no known finding is left for this property: every oracle failure is a violation"""
    return None
