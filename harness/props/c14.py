"""C14 — elitist and multi-objective CMA-ES (deap/cma.py: StrategyOnePlusLambda,
StrategyActiveOnePlusLambda, StrategyMultiObjective; deap/tools/indicator.py; sortLogNondominated).

Every case is a history of generate/update rounds of the REAL strategy objects.  After every round
(while cond(A) < 1e12) the property statement is evaluated on the implementation's state (oracle,
written from the statement, independent of the Lean model); on a sample of the rounds the pre-state,
the evaluated population and every trusted numpy/LAPACK answer (cholesky, inv, non-dominated sort,
hypervolume indicator, random draws) are sent to the Lean `Float` model, whose post-state must agree
with numpy's within a relative tolerance."""
import copy
import itertools
import math
import random
from fractions import Fraction

import numpy

from lib import Case, fbits
import tape as tapemod
from deap import base, cma, tools

ANCHORS = [("deap/cma.py", ["StrategyOnePlusLambda", "StrategyMultiObjective", "StrategyActiveOnePlusLambda"]),
           ("deap/tools/indicator.py", ["hypervolume"]),
           ("deap/tools/emo.py", ["sortLogNondominated"])]
LEVEL = "proof"
RULE = ("streams in this order: RESTART histories (a new strategy built from the individuals of a running one: MO parents shuffled / "
        "sorted / filtered, the next offspring population, a mix, the same objects and deep copies, lambda = mu and != mu, once or "
        "twice; (1+lambda) and active (1+lambda) from the previous parent object or a deep copy), structured histories (success streaks, simultaneous constraint violations, sibling "
        "survivors, plain Fitness with unevaluated offspring, MO default mu / more initial individuals than mu), _select end to end "
        "through the COMPOSED model (C04 sort + C15 indicator) on exactly representable bi-/tri-objective fitnesses with ties in "
        "single objectives, duplicates, min/max/mixed weights and a near-tie family (first part; the larger second part closes the run), exactly "
        "singular constraint updates (inv raises), then histories of 1..300 generate/update rounds with parameter overrides "
        "(d, ptarg, cp, cc, ccov/ccovp, ccovn, cconst, beta, pthresh): (1+lambda) on sphere/ellipsoid/step (dims 2..6, lambda 1..8; "
        "thorough dims ..10, lambda ..20), exhaustive elitism histories over fitness values {0,1,2} and over "
        "bi-objective fitnesses {0,1}^2 (lexicographic order of C01); MO on "
        "bi-sphere/ZDT-like/step objectives (mu 1..6, lambda = mu and != mu; thorough mu ..10, lambda ..20), direct "
        "_select on small grids with ties and duplicates, direct _rankOneUpdate with every sign pattern / tiny / zero "
        "vectors; active (1+lambda) with 0..3 linear constraints, mixed-integer steps, bare-array and evaluated "
        "initial parents. Non-trivial = a history in which the strategy both accepted and rejected offspring (or a "
        "direct case that reaches the update branch)")
EXHAUSTIVE = {"quick": False, "thorough": False}
TIME_BUDGET = {"quick": 48, "thorough": 840}
MIN_CASES = 500
TRUSTED = ["numpy.linalg.cholesky / numpy.linalg.inv (LAPACK): parameters of the model with the contracts "
           "'symmetric positive definite C -> lower-triangular A with A*A^T = C' and 'inv(M)*M = I, LinAlgError = update "
           "ignored'; both contracts are checked numerically on every call, singular A' is forced (actsing stream)",
           "IEEE-754 rounding: theorems are over the reals; the Float instance of the same definitions is compared "
           "with numpy within relative tolerance 1e-9 (scaled by the condition number for the inverse factors)",
           "tools.sortLogNondominated (property C04) and the hypervolume indicator (property C15): inside _select they are the "
           "proved C04 / C15 models (theorem mo_select_library, driver op mo-sel-lib, exact regime); in the Float replay of whole "
           "update() rounds on arbitrary doubles their answers are a tape; the oracle re-derives ranks and exact hypervolume "
           "contributions (any dimension) independently",
           "numpy.dot/outer/sum semantics (modelled on lists in Core/CmaElitist.lean, exercised by every line)"]
ASSUMPTIONS = ["fitness values are finite (no NaN); the fitness order is the total lexicographic order of weighted values",
               "populations handed to update() are the ones produced by generate() (lambda individuals, tagged)",
               "an individual of the active strategy is left unevaluated only when it violates a constraint",
               "checked while cond(A) < 1e12, as the statement says"]
EXPLANATION = ("PARTIAL. Lean theorems about Core/CmaElitist.lean, all inputs: elitism over any history for both (1+lambda) "
               "strategies (elitist_never_worse, active_elitist_never_worse), psucc in [0,1] and sigma > 0 over any history "
               "(psucc_sigma_history, active_psucc_sigma_history, mo_psucc_sigma), rank_one_identity and inverse_update for "
               "_rankOneUpdate with the magnitude guard (guard_sign_free: any sign pattern), the same for every branch of "
               "the active update incl. the negative one (active_rank_one_positive/negative, active_inverse_update), "
               "infeasible_inv under the inv contract, active_update_inverse and mo_update_inverse for one whole update, the "
               "(1+lambda) success rule, A A^T = C under the Cholesky contract and preservation of positive definiteness "
               "(onepl_cov_rule, onepl_factor, onepl_posdef), MO selection count / rank-then-indicator closed form / "
               "alignment of the five per-parent lists (mo_select_count, mo_rank_then_hv, mo_alignment, mo_adjust_spec, "
               "mo_offspring_values), alignment by identity for arbitrary _ps tags carried by the initial population "
               "(mo_alignment_any_initial_tags, retag_setTags, mo_run_tag_independent: generate overwrites the tag of every "
               "parent, so stale tags of a restarted population never reach update; driver op mo-round); whole-history invariants: active_inverse_history (invA*A = I through rank-one and "
               "constraint updates), mo_inverse_history and mo_psucc_sigma_history (every parent, any sequence of rounds), "
               "onepl_factor_history (A A^T = C and C positive definite after every round). Composition, exact regime: mo_select_library "
               "(_select with the C04 model of sortLogNondominated and the C15 model of the hypervolume indicator: exactly mu, whole "
               "fronts by Pareto depth, the split front loses its least hypervolume contributor one at a time - no contract hypothesis), "
               "elitist_never_worse_lex / active_elitist_never_worse_lex / active_elitist_never_worse_constrained (C01's Fitness and "
               "ConstrainedFitness order: lexicographic on the weighted values, any number of objectives; fitOrd_total, cfitOrd_total). "
               "Trusted and validated numerically on every call: cholesky, inv, IEEE rounding.")
TOL = 1e-9
COND_LIMIT = 1e12


# ----------------------------------------------------------------------------------------
# formatting
# ----------------------------------------------------------------------------------------

def fv(v):
    v = [float(x) for x in v]
    return ",".join(fbits(x) for x in v) if v else "-"


def fm(m):
    m = list(m)
    return ";".join(fv(r) for r in m) if m else "-"


def fms(ms, sep="|"):
    ms = list(ms)
    return sep.join(fm(m) for m in ms) if ms else "-"


def il(xs):
    xs = list(xs)
    return ",".join(str(int(x)) for x in xs) if xs else "-"


def il2(xss):
    xss = list(xss)
    return ";".join(il(x) for x in xss) if xss else "-"


def relerr(a, b):
    a, b = numpy.asarray(a, dtype=float), numpy.asarray(b, dtype=float)
    if a.shape != b.shape:
        return float("inf")
    if a.size == 0:
        return 0.0
    scale = max(numpy.abs(a).max(), numpy.abs(b).max(), 1e-300)
    return float(numpy.abs(a - b).max() / scale)


# ----------------------------------------------------------------------------------------
# individuals and objectives
# ----------------------------------------------------------------------------------------

class FMin1(base.Fitness):
    weights = (-1.0,)


class FMax1(base.Fitness):
    weights = (1.0,)


class FMin2(base.Fitness):
    weights = (-1.0, -1.0)


class FMixed2(base.Fitness):
    weights = (-1.0, 2.0)


class FCon(base.ConstrainedFitness):
    weights = (-1.0,)


class FMin3(base.Fitness):
    weights = (-1.0, -1.0, -1.0)


class FMixed3(base.Fitness):
    weights = (-1.0, 2.0, -1.0)


class FMax2(base.Fitness):
    weights = (1.0, 1.0)


def ind_class(fit):
    class Ind(list):
        def __init__(self, it=()):
            list.__init__(self, (float(x) for x in it))
            self.fitness = fit()
    return Ind


IND = {n: ind_class(f) for n, f in (("min1", FMin1), ("max1", FMax1), ("min2", FMin2), ("mix2", FMixed2), ("con", FCon),
                                    ("min3", FMin3), ("mix3", FMixed3), ("max2", FMax2))}


def rat(x):
    """a double as the exact ratio it denotes (exact regime: the model computes over Rat)"""
    n, d_ = float(x).as_integer_ratio()
    return str(n) if d_ == 1 else "%d/%d" % (n, d_)


def rv(v):
    v = list(v)
    return ",".join(rat(x) for x in v) if v else "-"


def rm(m):
    m = list(m)
    return ";".join(rv(r) for r in m) if m else "-"


def sphere(x):
    return sum(v * v for v in x)


def ellipsoid(x):
    n = len(x)
    return sum((10.0 ** (3.0 * i / max(1, n - 1))) * v * v for i, v in enumerate(x))


def step(x):
    return math.floor(4.0 * sum(v * v for v in x)) / 4.0


def single_objective(name, x):
    if name == "sphere":
        return (sphere(x),)
    if name == "ellipsoid":
        return (ellipsoid(x),)
    if name == "step":
        return (step(x),)
    if name == "far":             # optimum at 1.5 in every coordinate (outside the repair boxes)
        return (sum((v - 1.5) ** 2 for v in x),)
    if name == "negsphere":       # maximised with weight +1
        return (-sphere(x),)
    raise ValueError(name)


def bi_objective(name, x):
    n = len(x)
    if name == "bisphere":
        return (sum((v - 1.0) ** 2 for v in x), sum((v + 1.0) ** 2 for v in x))
    if name == "zdt":
        x0 = min(1.0, max(0.0, x[0]))
        pen = sum(max(0.0, abs(v - 0.5) - 0.5) ** 2 for v in x)
        g = 1.0 + 9.0 * sum(min(1.0, max(0.0, v)) for v in x[1:]) / max(1, n - 1)
        return (x0 + pen, g * (1.0 - math.sqrt(x0 / g)) + pen)
    if name == "bistep":
        a, b = bi_objective("bisphere", x)
        return (math.floor(2.0 * a) / 2.0, math.floor(2.0 * b) / 2.0)
    if name == "mixed":           # weights (-1, 2): minimise first, maximise second
        return (sum((v - 1.0) ** 2 for v in x), -sum((v + 1.0) ** 2 for v in x))
    raise ValueError(name)


# ----------------------------------------------------------------------------------------
# recording the numpy draws that tape.py does not cover
# ----------------------------------------------------------------------------------------

class NpExtra(object):
    """numpy.random.randint / geometric, numpy.linalg.inv: recorded, drawn from `rng`."""

    def __init__(self, rng):
        self.rng, self.randints, self.geoms, self.invs = rng, [], [], []

    def __enter__(self):
        self._saved = (numpy.random.randint, numpy.random.geometric, numpy.linalg.inv)
        real_inv = numpy.linalg.inv

        def randint(low, high=None, size=None):
            if high is None:
                low, high = 0, low
            if size is None:
                x = self.rng.randrange(low, high)
                self.randints.append(x)
                return x
            n = int(numpy.prod(size))
            arr = numpy.array([self.rng.randrange(low, high) for _ in range(n)], dtype=int).reshape(size)
            self.randints.append(arr)
            return arr

        def geometric(p):
            k = 1
            while self.rng.random() >= p and k < 60:
                k += 1
            self.geoms.append(k)
            return k

        def inv(mat):
            try:
                r = real_inv(mat)
            except numpy.linalg.LinAlgError:
                self.invs.append((numpy.array(mat, dtype=float), None))
                raise
            self.invs.append((numpy.array(mat, dtype=float), r.copy()))
            return r
        numpy.random.randint, numpy.random.geometric, numpy.linalg.inv = randint, geometric, inv
        return self

    def __exit__(self, *a):
        numpy.random.randint, numpy.random.geometric, numpy.linalg.inv = self._saved
        return False


class Fail(Exception):
    pass


def repair(ind, spec):
    """What a `toolbox.decorate("generate", ...)` repair does to an offspring in place, before it is evaluated:
    clipping to a box or rounding to a grid.  The strategy must learn from the genome that was evaluated."""
    if not spec:
        return
    for c in range(len(ind)):
        if spec["kind"] == "clip":
            ind[c] = min(spec["hi"], max(spec["lo"], ind[c]))
        elif spec["kind"] == "grid":
            ind[c] = round(ind[c] / spec["step"]) * spec["step"]


def over(x, tol):
    """x exceeds tol — NaN-safe: a NaN or infinite error counts as exceeding."""
    return not (x <= tol)


def case_tol(cond_max):
    """relative tolerance of the model-vs-numpy comparison of a history: two correct evaluation orders of the
    factor / inverse-factor updates differ by about cond * eps (cancellation), so it scales with the worst condition
    number met (1e-9 up to cond 1e5, never above 1e-3)"""
    return max(TOL, min(1e-3, 1e-14 * cond_max))


def inv_tol(cnd, r):
    """tolerance for inv*A = I: scaled by the condition number and the number of rounds, capped so that a
    singular / non-finite factor can never make the check vacuous"""
    t = 1e-9 + 1e-13 * cnd * (r + 1)
    return t if t <= 0.05 else 0.05


def sample_round(r, nrounds, heavy=False):
    """rounds whose pre/post state is also sent to the Lean model (the oracle runs on every round)"""
    if heavy:
        return r < 4 or r % 40 == 0 or r == nrounds - 1
    return r < 10 or r % 9 == 0 or r == nrounds - 1


# ----------------------------------------------------------------------------------------
# (1+lambda)
# ----------------------------------------------------------------------------------------

def fit_ge(a, b):
    """`a` is at least as good as `b`: lexicographic order of the weighted values (statement level)."""
    return tuple(a) >= tuple(b)


def eval_oneplus(d):
    dim, lam, obj, nrounds = d["dim"], d["lam"], d["obj"], d["rounds"]
    Ind = IND["max1" if obj == "negsphere" else "min1"]
    rng = random.Random(d["seed"])
    parent = Ind(d["x0"])
    parent.fitness.values = single_objective(obj, parent)
    parent._id = 0
    kargs = dict(d.get("kargs", {}))
    strategy = cma.StrategyOnePlusLambda(parent, d["sigma"], lambda_=lam, **kargs)
    lines, expect = [], []
    lines.append("C14 op-params %d %d" % (dim, lam))
    defaults = cma.StrategyOnePlusLambda(parent, d["sigma"], lambda_=lam)
    expect.append(" ".join(fbits(x) for x in (defaults.d, defaults.ptarg, defaults.cp, defaults.cc, defaults.ccov,
                                               defaults.pthresh)))
    evaluated = {0: (list(parent), tuple(parent.fitness.wvalues))}   # id -> genome, wvalues
    best_w = tuple(parent.fitness.wvalues)
    next_id, orc = 1, None
    n_repl = n_keep = 0
    elit_rounds, elit_expect = [], []
    branches = set()
    try:
        for r in range(nrounds):
            rs = d.get("restart")
            if rs and r == rs["at"]:
                # a new strategy started from the parent object of the running one (or a deep copy): the object
                # carries whatever the previous run left on it; elitism and the factor clauses go on unchanged
                par0 = copy.deepcopy(strategy.parent) if rs.get("clone") else strategy.parent
                strategy = cma.StrategyOnePlusLambda(par0, rs["sigma"], lambda_=lam, **kargs)
                if strategy.parent is not par0 or not numpy.array_equal(strategy.C, numpy.identity(dim)):
                    raise Fail("round %d (restart): the new strategy does not start from the given parent and C = I" % r)
            pre = dict(parent=strategy.parent, px=list(strategy.parent), pw=tuple(strategy.parent.fitness.wvalues),
                       pid=strategy.parent._id, sigma=strategy.sigma, C=strategy.C.copy(), A=strategy.A.copy(),
                       pc=strategy.pc.copy(), psucc=strategy.psucc)
            with tapemod.Tape(rng=rng, numpy_too=True) as tp:
                pop = strategy.generate(Ind)
            arz = numpy.array(tp.draws[0][2]).reshape(tp.draws[0][1])
            if len(pop) != lam:
                raise Fail("round %d: generate returned %d individuals, lambda=%d" % (r, len(pop), lam))
            raw = [list(i) for i in pop]        # as returned by generate, before any repair
            for ind in pop:
                repair(ind, d.get("repair"))
                ind.fitness.values = single_objective(obj, ind)
                ind._id = next_id
                evaluated[next_id] = (list(ind), tuple(ind.fitness.wvalues))
                if fit_ge(ind.fitness.wvalues, best_w):
                    best_w = tuple(ind.fitness.wvalues)
                next_id += 1
            if d.get("shuffle"):
                rng.shuffle(pop)
            order_in = [i._id for i in pop]
            popx = [list(i) for i in pop]
            popw = [tuple(i.fitness.wvalues) for i in pop]
            if sample_round(r, nrounds, dim * dim > 40) and r < 3:
                lines.append("C14 op-gen %s %s %s %s" % (fv(pre["px"]), fbits(pre["sigma"]), fm(pre["A"]), fm(arz)))
                expect.append(fm(raw))
            try:
                strategy.update(pop)
            except numpy.linalg.LinAlgError:
                if numpy.linalg.cond(strategy.C) > 1e13:
                    break               # C numerically singular: outside the checked regime
                raise
            # ---------------- oracle (from the statement) ----------------
            par = strategy.parent
            pw = tuple(par.fitness.wvalues)
            if not fit_ge(pw, pre["pw"]):
                raise Fail("round %d: parent fitness got worse: %r -> %r" % (r, pre["pw"], pw))
            if pw != best_w:
                raise Fail("round %d: parent fitness %r is not the best fitness evaluated so far %r" % (r, pw, best_w))
            if not hasattr(par, "_id") or par._id not in evaluated:
                raise Fail("round %d: parent is not one of the evaluated individuals" % r)
            g, w = evaluated[par._id]
            if list(par) != g or pw != w or tuple(par.fitness.values) != single_objective(obj, par):
                raise Fail("round %d: parent genome %r does not match the genome that obtained its fitness" % (r, list(par)))
            replaced = strategy.parent is not pre["parent"]
            # the statement: replaced ONLY by an offspring at least as good (whether an equally good offspring
            # replaces the parent is the code's choice; the model comparison below follows the code's `<=`)
            if replaced and not any(fit_ge(w_, pre["pw"]) and w_ == pw for w_ in popw):
                raise Fail("round %d: parent replaced by something that is not an offspring at least as good" % r)
            n_repl += replaced
            n_keep += (not replaced)
            if not (0.0 <= strategy.psucc <= 1.0):
                raise Fail("round %d: psucc=%r outside [0,1]" % (r, strategy.psucc))
            if not (strategy.sigma > 0.0) or not math.isfinite(strategy.sigma):
                raise Fail("round %d: sigma=%r not positive" % (r, strategy.sigma))
            # success rule (Igel et al. 2007), recomputed from the pre-state
            lsucc = sum(1 for w_ in popw if fit_ge(w_, pre["pw"]))
            ps = (1 - strategy.cp) * pre["psucc"] + strategy.cp * lsucc / float(lam)
            C, pc = pre["C"], pre["pc"]
            if replaced:
                if ps < strategy.pthresh:
                    branches.add("path")
                    xs = (numpy.array(par) - numpy.array(pre["px"])) / pre["sigma"]
                    pc = (1 - strategy.cc) * pc + math.sqrt(strategy.cc * (2 - strategy.cc)) * xs
                    C = (1 - strategy.ccov) * C + strategy.ccov * numpy.outer(pc, pc)
                else:
                    branches.add("stall")
                    pc = (1 - strategy.cc) * pc
                    C = (1 - strategy.ccov) * C + strategy.ccov * (numpy.outer(pc, pc) + strategy.cc * (2 - strategy.cc) * C)
            sg = pre["sigma"] * math.exp((ps - strategy.ptarg) / (strategy.d * (1 - strategy.ptarg)))
            if over(relerr(strategy.C, C), 1e-11) or over(relerr(strategy.pc, pc), 1e-11) and numpy.abs(pc).max() > 1e-300:
                raise Fail("round %d: covariance/path do not follow the success rule (rel err C %.3g, pc %.3g)"
                           % (r, relerr(strategy.C, C), relerr(strategy.pc, pc)))
            if over(abs(strategy.psucc - ps), 1e-12) or over(abs(strategy.sigma - sg), 1e-11 * sg):
                raise Fail("round %d: psucc/sigma do not follow the success rule" % r)
            A = strategy.A
            if numpy.abs(numpy.triu(A, 1)).max() != 0.0 or over(relerr(A.dot(A.T), strategy.C), 1e-9):
                raise Fail("round %d: A is not a lower Cholesky factor of C (rel err %.3g)" % (r, relerr(A.dot(A.T), strategy.C)))
            # ---------------- model line ----------------
            sorted_ids = [i._id for i in pop]
            elit_rounds.append("%s|%s" % (il(order_in), fm(popw)))
            elit_expect.append("%d/%d/%s" % (par._id, lsucc, il(sorted_ids)))
            if sample_round(r, nrounds, dim * dim > 40):
                prm = "%d %s" % (lam, " ".join(fbits(x) for x in (strategy.d, strategy.ptarg, strategy.cp, strategy.cc,
                                                                 strategy.ccov, strategy.pthresh)))
                lines.append("C14 op-upd %s %d %s %s %s %s %s %s %s %s %s %s %s" % (
                    prm, pre["pid"], fv(pre["pw"]), fv(pre["px"]), fbits(pre["sigma"]), fm(pre["C"]), fm(pre["A"]),
                    fv(pre["pc"]), fbits(pre["psucc"]), il(order_in), fm(popw), fm(popx), fm(strategy.A)))
                expect.append(" ".join([il(sorted_ids), str(lsucc), "1" if replaced else "0", str(par._id), fv(pw),
                                        fv(par), fbits(strategy.psucc), fbits(strategy.sigma), fv(strategy.pc),
                                        fm(strategy.C), fm(strategy.A)]))
            if numpy.linalg.cond(strategy.A) >= COND_LIMIT:
                break
    except Fail as e:
        orc = str(e)
    if elit_rounds:
        lines.append("C14 elit %d 0 %s %s" % (lam, fv(evaluated[0][1]), " ".join(elit_rounds)))
        expect.append(" ".join(elit_expect))
    tag = "op/%s/d%d/l%d/%s%s" % (obj, dim, lam, "+".join(sorted(branches)) or "none",
                                  "/repair-" + d["repair"]["kind"] if d.get("repair") else "")
    return Case(d, lines, expect, orc, tag=tag, nontrivial=(n_repl > 0 and n_keep > 0), tol=TOL)


def eval_elit(d):
    """Exhaustive elitism histories: the fitness of every offspring is prescribed.  Values are scalars (single
    objective, d["weight"]) or tuples (d["cls"]: a multi-objective fitness class, compared lexicographically by the
    library's Fitness.__le__ / __lt__ on the weighted values)."""
    lam = d["lam"]
    multi = "cls" in d
    Ind = IND[d["cls"]] if multi else IND["max1" if d["weight"] > 0 else "min1"]
    tup = (lambda v: tuple(float(x) for x in v)) if multi else (lambda v: (float(v),))
    parent = Ind([0.0])
    parent.fitness.values = tup(d["p0"])
    parent._id = 0
    strategy = cma.StrategyOnePlusLambda(parent, 1.0, lambda_=lam)
    p0w = tuple(parent.fitness.wvalues)
    best_w = p0w
    best_ids = [0]
    nid, orc = 1, None
    rounds, exp = [], []
    for vals in d["hist"]:
        pop = []
        for v in vals:
            ind = Ind([float(nid)])
            ind.fitness.values = tup(v)
            ind._id = nid
            nid += 1
            pop.append(ind)
        prew = tuple(strategy.parent.fitness.wvalues)
        order_in = [i._id for i in pop]
        popw = [tuple(i.fitness.wvalues) for i in pop]
        for i in pop:
            if tuple(i.fitness.wvalues) > best_w:
                best_w, best_ids = tuple(i.fitness.wvalues), [i._id]
            elif tuple(i.fitness.wvalues) == best_w:
                best_ids.append(i._id)
        strategy.update(pop)
        par = strategy.parent
        pw = tuple(par.fitness.wvalues)
        if orc is None:
            if pw < prew:
                orc = "parent fitness got worse: %r -> %r" % (prew, pw)
            elif pw != best_w or par._id not in best_ids:
                orc = "parent (id %d, %r) is not a best individual evaluated so far (%r, ids %r)" % (par._id, pw, best_w, best_ids)
            elif list(par) != [float(par._id)]:
                orc = "parent genome does not belong to the individual that obtained the fitness"
            elif not (0.0 <= strategy.psucc <= 1.0) or not strategy.sigma > 0:
                orc = "psucc/sigma out of range"
        lsucc = sum(1 for x in popw if x >= prew)
        rounds.append("%s|%s" % (il(order_in), fm(popw)))
        exp.append("%d/%d/%s" % (par._id, lsucc, il([i._id for i in pop])))
    lines = ["C14 elit %d 0 %s %s" % (lam, fv(p0w), " ".join(rounds))]
    flat = [tup(v) for vs in d["hist"] for v in vs]
    return Case(d, lines, [" ".join(exp)], orc,
                tag="elit%s/l%d/r%d" % ("-" + d["cls"] if multi else "", lam, len(d["hist"])),
                nontrivial=len(set(flat)) > 1, tol=TOL)


# ----------------------------------------------------------------------------------------
# MO
# ----------------------------------------------------------------------------------------

def pareto_ranks(ws):
    """Naive peeling on weighted values (maximisation): rank 0 = non-dominated."""
    n = len(ws)

    def dom(a, b):
        return all(x >= y for x, y in zip(a, b)) and any(x > y for x, y in zip(a, b))
    rank, left, r = [None] * n, set(range(n)), 0
    while left:
        front = [i for i in left if not any(dom(ws[j], ws[i]) for j in left)]
        for i in front:
            rank[i] = r
        left -= set(front)
        r += 1
    return rank


def hv2d(pts, ref):
    """Hypervolume (minimisation) of 2-D points w.r.t. ref: area of the union of the boxes."""
    pts = sorted(set((float(a), float(b)) for a, b in pts if a < ref[0] and b < ref[1]))
    area, best_y = 0.0, float(ref[1])
    for x, y in pts:
        if y < best_y:
            area += (ref[0] - x) * (best_y - y)
            best_y = y
    return area


def hv_exact(pts, ref):
    """Hypervolume (minimisation) of points of any dimension w.r.t. ref, from the definition, in exact rational
    arithmetic: slabs of the last coordinate times the (d-1)-dimensional measure of the points at or below the slab."""
    pts = [tuple(Fraction(x) for x in p) for p in pts]
    ref = tuple(Fraction(x) for x in ref)
    pts = [p for p in set(pts) if all(a < b for a, b in zip(p, ref))]
    if not pts:
        return Fraction(0)
    if len(ref) == 1:
        return ref[0] - min(p[0] for p in pts)
    zs = sorted(set(p[-1] for p in pts)) + [ref[-1]]
    vol = Fraction(0)
    for lo, hi in zip(zs, zs[1:]):
        vol += (hi - lo) * hv_exact([p[:-1] for p in pts if p[-1] <= lo], ref[:-1])
    return vol


def check_selection(mu, cands_w, chosen_pos, notchosen_pos, calls, ref_seen):
    """The statement on one _select call.  cands_w: weighted values by candidate position; calls: the indicator
    calls as (positions of the front handed over, index answered)."""
    n = len(cands_w)
    if sorted(chosen_pos + notchosen_pos) != list(range(n)):
        return "chosen + not chosen is not a partition of the candidates"
    if len(chosen_pos) != min(mu, n):
        return "%d parents kept, mu=%d, candidates=%d" % (len(chosen_pos), mu, n)
    if n <= mu:
        return None
    rank = pareto_ranks(cands_w)
    sizes = {}
    for r_ in rank:
        sizes[r_] = sizes.get(r_, 0) + 1
    acc, mid, whole = 0, None, set()
    for r_ in sorted(sizes):
        if acc + sizes[r_] <= mu:
            acc += sizes[r_]
            whole.add(r_)
        else:
            mid = r_ if acc < mu else None
            break
    ch = set(chosen_pos)
    for i in range(n):
        if rank[i] in whole and i not in ch:
            return "candidate %d of rank %d dropped although its whole front fits (mid front = rank %r)" % (i, rank[i], mid)
        if rank[i] not in whole and rank[i] != mid and i in ch:
            return "candidate %d of rank %d chosen although a better front was cut (mid front = rank %r)" % (i, rank[i], mid)
    if mid is None:
        if calls:
            return "indicator consulted although whole fronts fill mu exactly"
        return None
    front = [i for i in range(n) if rank[i] == mid]
    k = mu - acc
    if len(calls) != len(front) - k:
        return "mid front of %d individuals, %d places: indicator consulted %d times" % (len(front), k, len(calls))
    ref = numpy.max(-numpy.array(cands_w), axis=0) + 1
    if ref_seen is not None and not numpy.array_equal(ref, ref_seen):
        return "reference point %r is not worst+1 over the candidates %r" % (list(ref_seen), list(ref))
    cur = set(front)
    for pos, idx in calls:
        if set(pos) != cur:
            return "indicator called on a front that is not the current mid front"
        if len(ref) == 2:
            pts = [(-cands_w[i][0], -cands_w[i][1]) for i in pos]
            total = hv2d(pts, ref)
            contrib = [total - hv2d(pts[:j] + pts[j + 1:], ref) for j in range(len(pts))]
        else:
            pts = [tuple(-x for x in cands_w[i]) for i in pos]
            total = float(hv_exact(pts, ref))
            contrib = [total - float(hv_exact(pts[:j] + pts[j + 1:], ref)) for j in range(len(pts))]
        if over(contrib[idx], min(contrib) + 1e-9 * max(1.0, abs(total))):
            return "individual discarded with hypervolume contribution %.6g, least is %.6g" % (contrib[idx], min(contrib))
        cur.discard(pos[idx])
    if cur != set(i for i in front if i in ch):
        return "survivors of the mid front differ from what the discards leave"
    return None


class SelectSpy(object):
    """Wraps strategy._select and strategy.indicator to observe candidates, result and indicator calls."""

    def __init__(self, strategy):
        self.s = strategy
        self.calls, self.ref, self.cands, self.result = [], None, None, None
        real_sel, real_ind = strategy._select, strategy.indicator

        def sel(cands):
            self.cands = list(cands)
            self.calls, self.ref = [], None
            self.result = real_sel(cands)
            return self.result

        def ind(front, **kargs):
            idx = real_ind(front, **kargs)
            pos = [next(p for p, c in enumerate(self.cands) if c is f) for f in front]
            self.calls.append((pos, int(idx)))
            self.ref = numpy.array(kargs.get("ref"))
            return idx
        strategy._select, strategy.indicator = sel, ind


def mo_fronts(cands):
    fr = tools.sortLogNondominated(cands, len(cands))
    return [[next(p for p, c in enumerate(cands) if c is f) for f in front] for front in fr]


def restart_population(S, rs, rng, Ind, obj, rep):
    """The initial population of a strategy restarted from the individuals of the running strategy `S`:
    mode 'perm' (its parents, shuffled), 'sorted' (its parents sorted by the first objective), 'subset' (some of
    its parents, shuffled), 'offspring' (the next offspring population, as algorithms.eaGenerateUpdate returns it),
    'mixed' (parents and offspring).  The objects themselves, or deep copies (which carry every attribute the old
    strategy left on them).  Returns (population, lambda_, constructor kargs)."""
    mode = rs["mode"]
    pars = list(S.parents)
    offs = []
    if mode in ("offspring", "mixed"):
        with tapemod.Tape(rng=rng, numpy_too=True), NpExtra(rng):
            offs = S.generate(Ind)
        for o in offs:
            repair(o, rep)
            o.fitness.values = bi_objective(obj, o)
    if mode == "perm":
        start = pars[:]
        rng.shuffle(start)
    elif mode == "sorted":
        start = sorted(pars, key=lambda p: p.fitness.values[0], reverse=bool(rs.get("reverse")))
    elif mode == "subset":
        start = pars[:]
        rng.shuffle(start)
        start = start[:max(1, min(len(start), int(rs.get("keep", 1))))]
    elif mode == "offspring":
        start = list(offs)
        if rs.get("keep"):
            start = start[:max(1, int(rs["keep"]))]
    else:
        start = pars + list(offs)
        rng.shuffle(start)
        start = start[:max(1, min(len(start), int(rs.get("keep", len(start)))))]
    if rs.get("clone"):
        start = [copy.deepcopy(p) for p in start]
    lam = int(rs["lam"]) if rs.get("lam") else len(start)     # lam None/0: lambda_ = mu = len(start)
    kargs = {}
    if rs.get("mu") and not (lam == int(rs["mu"]) and len(start) < lam):   # lambda_ == mu needs mu parents (generate)
        kargs["mu"] = int(rs["mu"])
    return start, lam, kargs


def eval_mo(d):
    dim, mu, lam, obj, nrounds = d["dim"], d["mu"], d["lam"], d["obj"], d["rounds"]
    Ind = IND["mix2" if obj == "mixed" else "min2"]
    rng = random.Random(d["seed"])
    pop0 = []
    for x in d["x0"]:
        p = Ind(x)
        p.fitness.values = bi_objective(obj, p)
        pop0.append(p)
    kargs = dict(d.get("kargs", {}))
    if d.get("mu_given", True):
        kargs["mu"] = mu
    else:
        mu = len(pop0)                      # the constructor's default
    r1calls = []

    def instrument(strategy):
        spy_ = SelectSpy(strategy)
        real_r1 = strategy._rankOneUpdate

        def r1(invCh, A, alpha, beta, v):
            pre_inv, pre_A, pre_v = invCh.copy(), A.copy(), v.copy()     # before the call: it may work in place
            out = real_r1(invCh, A, alpha, beta, v)
            r1calls.append((pre_inv, pre_A, alpha, beta, pre_v, (out[0].copy(), out[1].copy())))
            return out
        strategy._rankOneUpdate = r1
        return spy_
    strategy = cma.StrategyMultiObjective(pop0, d["sigma"], lambda_=lam, **kargs)
    spy = instrument(strategy)
    restarts = {int(rs["at"]): rs for rs in d.get("restarts", [])}
    n_restart = 0
    tag_msg = None
    lines, expect = [], []
    dflt = cma.StrategyMultiObjective(list(pop0), d["sigma"], mu=mu, lambda_=lam)
    lines.append("C14 mo-params %d %d %d" % (dim, mu, lam))
    expect.append(" ".join(fbits(x) for x in (dflt.d, dflt.ptarg, dflt.cp, dflt.cc, dflt.ccov, dflt.pthresh)))
    orc = None
    n_off = n_ind = n_skip = n_lib = 0
    mo_cond_max = 1.0
    S = strategy
    try:
        for r in range(nrounds):
            if r in restarts:
                # RESTART: a new strategy is built from individuals that went through the running one (its parents
                # permuted / sorted / filtered, its next offspring, or a mix; the objects themselves or deep copies,
                # which carry every attribute the old strategy left on them).  The statement's clause is about the
                # new strategy's own bookkeeping: whatever the individuals carry must not leak into it.
                start, lam, rkargs = restart_population(S, restarts[r], rng, Ind, obj, d.get("repair"))
                S = cma.StrategyMultiObjective(start, restarts[r]["sigma"], lambda_=lam, **rkargs)
                spy = instrument(S)
                mu = S.mu
                n_restart += 1
                for name in ("sigmas", "A", "invCholesky", "pc", "psucc"):
                    if len(getattr(S, name)) != len(S.parents):
                        raise Fail("round %d (restart): len(%s)=%d but %d parents" % (r, name, len(getattr(S, name)), len(S.parents)))
                if list(map(id, S.parents)) != list(map(id, start)):
                    raise Fail("round %d (restart): the new strategy's parents are not the individuals it was given" % r)
            m = len(S.parents)
            rawtags = ["n" if not hasattr(p, "_ps") else "%s%d" % ("o" if p._ps[0] == "o" else "p", int(p._ps[1]))
                       for p in S.parents]
            pre = dict(parents=list(S.parents), px=[list(p) for p in S.parents],
                       pw=[tuple(p.fitness.wvalues) for p in S.parents], sigmas=list(S.sigmas),
                       A=[a.copy() for a in S.A], Aobj=list(S.A), inv=[a.copy() for a in S.invCholesky],
                       invobj=list(S.invCholesky), pc=[a.copy() for a in S.pc], pcobj=list(S.pc), psucc=list(S.psucc))
            with tapemod.Tape(rng=rng, numpy_too=True) as tp, NpExtra(rng) as ex:
                off = S.generate(Ind)
            arz = numpy.array(tp.draws[0][2]).reshape(tp.draws[0][1])
            if len(off) != lam:
                raise Fail("round %d: generate returned %d individuals" % (r, len(off)))
            tags = [tuple(o._ps) for o in off]
            for j, p in enumerate(S.parents):
                if tuple(p._ps) != ("p", j) and tag_msg is None:
                    # reported after this round's alignment oracle (which speaks about the statement itself)
                    tag_msg = "round %d: parent %d carries tag %r after generate" % (r, j, p._ps)
            for o, z in zip(off, arz):
                if o._ps[0] != "o" or not (0 <= o._ps[1] < m):
                    raise Fail("round %d: offspring tag %r" % (r, o._ps))
                j = o._ps[1]
                want = numpy.array(pre["px"][j]) + pre["sigmas"][j] * pre["A"][j].dot(z)
                if over(relerr(list(o), want), 1e-12):
                    raise Fail("round %d: offspring is not parent[%d] + sigma*A*z" % (r, j))
            if lam == S.mu and [t[1] for t in tags] != list(range(lam)):
                raise Fail("round %d: lambda == mu but offspring parents are %r" % (r, tags))
            if r < 3 or any(0 <= r - a < 2 for a in restarts):
                ff = tools.sortLogNondominated(S.parents, len(S.parents), first_front_only=True)
                ffpos = [next(p for p, c in enumerate(S.parents) if c is f) for f in ff]
                if lam != S.mu and any(t[1] not in ffpos for t in tags):
                    raise Fail("round %d: an offspring's parent is not in the first front" % r)
                lines.append("C14 mo-gen %d %d %d %s %s %s %s %s %s" % (
                    dim, S.mu, lam, fm(pre["px"]), fv(pre["sigmas"]), fms(pre["A"]), fm(arz), il(ffpos),
                    il([int(x) for x in ex.randints])))
                expect.append("%s %s %s" % (il(range(m)), fm([list(o) for o in off]), il([t[1] for t in tags])))
            for o in off:
                repair(o, d.get("repair"))
                o.fitness.values = bi_objective(obj, o)
            offx = [list(o) for o in off]
            offw = [tuple(o.fitness.wvalues) for o in off]
            cands = off + pre["parents"]
            fronts = mo_fronts(cands) if len(cands) > S.mu else []
            del r1calls[:]
            try:
                S.update(off)
            except Fail:
                raise
            except Exception as exc:        # the statement demands a result for every population generate() produced
                raise Fail("round %d: update() raised %s: %s on the population generate() produced (parents carried the tags %s "
                           "before generate)" % (r, type(exc).__name__, exc, ",".join(rawtags)))
            # ---------------- oracle ----------------
            chosen, notchosen = spy.result
            pos = lambda c: next(p for p, q in enumerate(cands) if q is c)
            chosen_pos, not_pos = [pos(c) for c in chosen], [pos(c) for c in notchosen]
            if S.parents is not chosen and list(map(id, S.parents)) != list(map(id, chosen)):
                raise Fail("round %d: parents are not the selected individuals" % r)
            msg = check_selection(S.mu, offw + pre["pw"], chosen_pos, not_pos, spy.calls, spy.ref)
            if msg:
                raise Fail("round %d: %s" % (r, msg))
            n_ind += len(spy.calls)
            if len(cands) > S.mu and n_lib < 12 and exact_ws(offw + pre["pw"]):
                # exactly representable fitnesses (plateau objectives): the same call through the composed model
                n_lib += 1
                lines.append(sellib_line(S.mu, offw + pre["pw"]))
                expect.append("%s %s" % (il(chosen_pos), il(not_pos)))
            k = len(S.parents)
            for name in ("sigmas", "A", "invCholesky", "pc", "psucc"):
                if len(getattr(S, name)) != k:
                    raise Fail("round %d: len(%s)=%d but %d parents" % (r, name, len(getattr(S, name)), k))
            # expected per-parent adjustment (success rule of Voss et al. 2010), in the order chosen, then not chosen
            adj_ps, adj_sg = list(pre["psucc"]), list(pre["sigmas"])
            for c, succ in [(c, 1.0) for c in chosen] + [(c, 0.0) for c in notchosen]:
                p_ = pos(c)
                if p_ < lam:
                    j = tags[p_][1]
                    adj_ps[j] = (1 - S.cp) * adj_ps[j] + S.cp * succ
                    adj_sg[j] = adj_sg[j] * math.exp((adj_ps[j] - S.ptarg) / (S.d * (1 - S.ptarg)))
            for i, c in enumerate(chosen):
                p_ = pos(c)
                if p_ >= lam:                       # an old parent survives
                    j = p_ - lam
                    if S.A[i] is not pre["Aobj"][j] or S.invCholesky[i] is not pre["invobj"][j] or S.pc[i] is not pre["pcobj"][j] \
                            or not numpy.array_equal(S.A[i], pre["A"][j]) or not numpy.array_equal(S.pc[i], pre["pc"][j]) \
                            or not numpy.array_equal(S.invCholesky[i], pre["inv"][j]):
                        raise Fail("round %d: surviving parent %d (new index %d) does not keep its own A/invCholesky/pc" % (r, j, i))
                    if over(abs(S.psucc[i] - adj_ps[j]), 1e-12) or over(abs(S.sigmas[i] - adj_sg[j]), 1e-11 * adj_sg[j]):
                        raise Fail("round %d: surviving parent %d (new index %d): psucc/sigma %r/%r, expected %r/%r"
                                   % (r, j, i, S.psucc[i], S.sigmas[i], adj_ps[j], adj_sg[j]))
                else:                               # an offspring of parent j enters
                    n_off += 1
                    j = tags[p_][1]
                    ps = (1 - S.cp) * pre["psucc"][j] + S.cp
                    sg = pre["sigmas"][j] * math.exp((ps - S.ptarg) / (S.d * (1 - S.ptarg)))
                    if ps < S.pthresh:
                        pc = (1 - S.cc) * pre["pc"][j] + math.sqrt(S.cc * (2 - S.cc)) * (numpy.array(offx[p_]) - numpy.array(pre["px"][j])) / pre["sigmas"][j]
                    else:
                        pc = (1 - S.cc) * pre["pc"][j]
                    if over(abs(S.psucc[i] - ps), 1e-12) or over(abs(S.sigmas[i] - sg), 1e-11 * sg):
                        raise Fail("round %d: new parent %d (offspring of %d): psucc/sigma %r/%r do not derive from the parent's "
                                   "pre-update values (expected %r/%r)" % (r, i, j, S.psucc[i], S.sigmas[i], ps, sg))
                    if over(relerr(S.pc[i], pc), 1e-10) and not (numpy.abs(pc).max() <= 1e-290):
                        raise Fail("round %d: new parent %d (offspring of %d): evolution path does not derive from parent %d's path" % (r, i, j, j))
                    Aj = pre["A"][j]
                    AAt, new = Aj.dot(Aj.T), S.A[i].dot(S.A[i].T)
                    cnd = numpy.linalg.cond(Aj)
                    # new A A^T = alpha * old + beta * pc pc^T for some alpha > 0 (least squares on the two generators)
                    G = numpy.stack([AAt.ravel(), numpy.outer(pc, pc).ravel()], axis=1)
                    if numpy.abs(G[:, 1]).max() < 1e-290:
                        G = G[:, :1]
                    sol = numpy.linalg.lstsq(G, new.ravel(), rcond=None)[0]
                    res = numpy.abs(G.dot(sol) - new.ravel()).max() / max(numpy.abs(new).max(), 1e-300)
                    if S.A[i] is not pre["Aobj"][j] and not numpy.array_equal(S.A[i], Aj):
                        if over(res, inv_tol(max(cnd, mo_cond_max), r)) or not (sol[0] > 0):
                            raise Fail("round %d: new parent %d: A A^T is not alpha*(A_j A_j^T) + beta*pc pc^T with alpha>0 "
                                       "(residual %.3g, alpha %.4g)" % (r, i, res, sol[0]))
                cndi = numpy.linalg.cond(S.A[i])
                if not (cndi < COND_LIMIT):
                    continue
                mo_cond_max = max(mo_cond_max, cndi)
                e = numpy.abs(S.invCholesky[i].dot(S.A[i]) - numpy.eye(dim)).max()
                if over(e, inv_tol(mo_cond_max, r)):
                    raise Fail("round %d: invCholesky[%d] is not the inverse of A[%d]: max|inv*A - I| = %.3g (cond %.3g)" % (r, i, i, e, cndi))
            for (invCh, A, alpha, beta, v, out) in r1calls:
                inv2, A2 = out
                w = invCh.dot(v)
                cnd = numpy.linalg.cond(A)
                if numpy.array_equal(A2, A):
                    n_skip += 1
                    if numpy.abs(w).max() > 1e-20:
                        raise Fail("round %d: covariance adaptation skipped although |A^-1 v| = %.3g (v = %r)" % (r, numpy.abs(w).max(), list(v)))
                else:
                    want = alpha * A.dot(A.T) + beta * numpy.outer(v, v)
                    if over(relerr(A2.dot(A2.T), want), inv_tol(max(cnd, mo_cond_max), r)) or not (alpha > 0):
                        raise Fail("round %d: rank-one update: A'A'^T differs from alpha*AA^T + beta*vv^T (rel err %.3g, alpha %.4g, v = %r)"
                                   % (r, relerr(A2.dot(A2.T), want), alpha, list(v)))
            if any(not (0.0 <= p <= 1.0) for p in S.psucc) or any(not (s > 0 and math.isfinite(s)) for s in S.sigmas):
                raise Fail("round %d: psucc/sigma out of range: %r %r" % (r, S.psucc, S.sigmas))
            # ---------------- model line ----------------
            if tag_msg:
                raise Fail(tag_msg)
            if sample_round(r, nrounds, max(mu, len(pre["px"])) * dim * dim > 120) or r in restarts or (r - 1) in restarts:
                prm = "%d %d %s" % (S.mu, lam, " ".join(fbits(x) for x in (S.d, S.ptarg, S.cp, S.cc, S.ccov, S.pthresh)))
                tape = ",".join("%d:%d" % (len(p), i) for p, i in spy.calls) or "-"
                # restart histories replay the WHOLE round (generate's re-tagging of every parent, then update) from
                # the raw tags the individuals carried before generate (op mo-round, MO.round / MO.setTags)
                lines.append("C14 %s %d 2 %s %s %s %s %s %s %s %s %s %s %s %s %s %s" % (
                    "mo-round" if restarts else "mo-upd",
                    dim, prm, fm(pre["px"]), fm(pre["pw"]),
                    ",".join(rawtags) if restarts else ",".join("p%d" % j for j in range(m)), fv(pre["sigmas"]),
                    fms(pre["A"]), fms(pre["inv"]), fm(pre["pc"]), fv(pre["psucc"]),
                    fm(offx), fm(offw), ",".join("o%d" % t[1] for t in tags), il2(fronts), tape))
                ref = spy.ref if spy.ref is not None else numpy.max(-numpy.array(offw + pre["pw"]), axis=0) + 1
                expect.append(" ".join([il(chosen_pos), il(not_pos), fv(ref), fv(S.sigmas), fv(S.psucc), fm(S.pc),
                                        fms(S.A, " "), fms(S.invCholesky, " ")]))
            if max(numpy.linalg.cond(a) for a in S.A) >= COND_LIMIT:
                break
    except Fail as e:
        orc = str(e)
    tag = "mo/%s/d%d/mu%d/l%d/%s" % (obj, dim, mu, lam, "eq" if lam == mu else "ne")
    if restarts:
        tag = "mo-restart/%s/%s/%s" % ("+".join(sorted(set(rs["mode"] for rs in restarts.values()))),
                                       "clone" if any(rs.get("clone") for rs in restarts.values()) else "same",
                                       "eq" if lam == mu else "ne")
        return Case(d, lines, expect, orc, tag=tag, nontrivial=(n_off > 0 and n_restart > 0), tol=case_tol(mo_cond_max))
    return Case(d, lines, expect, orc, tag=tag, nontrivial=(n_off > 0 and n_ind > 0), tol=case_tol(mo_cond_max))


def eval_mosel(d):
    """Direct _select on prescribed weighted values (ties, duplicates, every mu)."""
    Ind = IND["min2"]
    cands = []
    for w in d["pts"]:
        c = Ind([0.0])
        c.fitness.values = (float(w[0]), float(w[1]))
        cands.append(c)
    holder = [Ind([0.0])]
    holder[0].fitness.values = (0.0, 0.0)
    S = cma.StrategyMultiObjective(holder, 1.0, mu=d["mu"], lambda_=1)
    spy = SelectSpy(S)
    chosen, notchosen = S._select(list(cands))
    pos = lambda c: next(p for p, q in enumerate(cands) if q is c)
    cp, ncp = [pos(c) for c in chosen], [pos(c) for c in notchosen]
    cw = [tuple(c.fitness.wvalues) for c in cands]
    orc = check_selection(d["mu"], cw, cp, ncp, spy.calls, spy.ref)
    fronts = mo_fronts(cands) if len(cands) > d["mu"] else []
    tape = ",".join("%d:%d" % (len(p), i) for p, i in spy.calls) or "-"
    lines = ["C14 mo-sel %d %d %s %s" % (d["mu"], len(cands), il2(fronts), tape)]
    return Case(d, lines, ["%s %s" % (il(cp), il(ncp))], orc,
                tag="mosel/n%d/mu%d/%s" % (len(cands), d["mu"], "hv" if spy.calls else "ranks"),
                nontrivial=bool(spy.calls), tol=TOL)


def sellib_line(mu, cands_w):
    """request line for the COMPOSED model (C04 sort + C15 indicator inside _select): exact weighted values"""
    return "C14 mo-sel-lib %d %d %s" % (mu, len(cands_w[0]), rm(cands_w))


def exact_ws(cands_w):
    """all weighted values are multiples of one power of two 2^-e (e <= 12) and so small that every coordinate
    difference (incl. the reference point, worst + 1) needs b bits with b * nobj <= 50: every product of nobj differences
    and every sum of such products is exact in binary64, so the float hypervolumes the library compares ARE the exact ones"""
    xs = [float(x) for w in cands_w for x in w]
    if not xs or not all(math.isfinite(x) for x in xs):
        return False
    for e in range(13):
        if all((x * (1 << e)).is_integer() for x in xs):
            break
    else:
        return False
    span = (2.0 * max(abs(x) for x in xs) + 2.0) * (1 << e)
    bits = int(math.ceil(math.log2(span))) + 1
    return bits * len(cands_w[0]) <= 50


def eval_mosellib(d):
    """_select END TO END on prescribed, exactly representable bi-/tri-objective fitnesses (ties, duplicates, dominated
    points): the real StrategyMultiObjective._select (real sortLogNondominated, real hypervolume indicator) against the
    composed Lean model MOLib.select; the oracle re-derives ranks and exact hypervolume contributions independently."""
    Ind = IND[d["cls"]]
    cands = []
    for v in d["vals"]:
        c = Ind([0.0])
        c.fitness.values = tuple(float(x) for x in v)
        cands.append(c)
    nobj = len(d["vals"][0])
    holder = [Ind([0.0])]
    holder[0].fitness.values = (0.0,) * nobj
    S = cma.StrategyMultiObjective(holder, 1.0, mu=d["mu"], lambda_=1)
    spy = SelectSpy(S)
    chosen, notchosen = S._select(list(cands))
    pos = lambda c: next(p for p, q in enumerate(cands) if q is c)
    cp, ncp = [pos(c) for c in chosen], [pos(c) for c in notchosen]
    cw = [tuple(c.fitness.wvalues) for c in cands]
    orc = check_selection(d["mu"], cw, cp, ncp, spy.calls, spy.ref)
    lines, expect = [], []
    # near-tie cases carry doubles whose products are not exact: the model line is sent only when the library's
    # float hypervolumes were not consulted or are exact
    if not spy.calls or exact_ws(cw):
        lines.append(sellib_line(d["mu"], cw))
        expect.append("%s %s" % (il(cp), il(ncp)))
    return Case(d, lines, expect, orc,
                tag="mosellib/%s/%s%s" % (d["cls"], "hv" if spy.calls else "ranks", "/near" if d.get("near") else ""),
                nontrivial=bool(spy.calls) or len(cands) > d["mu"], tol=TOL)


def eval_r1(d):
    """Direct _rankOneUpdate: every sign pattern, tiny and zero vectors."""
    n = d["dim"]
    rng = random.Random(d["seed"])
    Ind = IND["min2"]
    holder = [Ind([0.0] * n)]
    holder[0].fitness.values = (0.0, 0.0)
    S = cma.StrategyMultiObjective(holder, 1.0, mu=1, lambda_=1)
    # a well-conditioned invertible factor
    A = numpy.eye(n)
    for _ in range(d["mix"]):
        u = numpy.array([rng.gauss(0, 1) for _ in range(n)])
        v_ = numpy.array([rng.gauss(0, 1) for _ in range(n)])
        if abs(1 + 0.3 * v_.dot(u)) > 0.2:
            A = A.dot(numpy.eye(n) + 0.3 * numpy.outer(u, v_))
    invA = numpy.linalg.inv(A)
    w = numpy.array(d["w"], dtype=float) * d["scale"]
    v = A.dot(w)
    alpha, beta = d["alpha"], d["beta"]
    inv2, A2 = S._rankOneUpdate(invA.copy(), A.copy(), alpha, beta, v)
    orc = None
    wreal = invA.dot(v)
    if numpy.array_equal(A2, A):
        if numpy.abs(wreal).max() > 1e-20:
            orc = "covariance adaptation skipped although |A^-1 v| max = %.3g (v = %r)" % (numpy.abs(wreal).max(), list(v))
    else:
        want = alpha * A.dot(A.T) + beta * numpy.outer(v, v)
        e1 = relerr(A2.dot(A2.T), want)
        e2 = numpy.abs(inv2.dot(A2) - numpy.eye(n)).max()
        cnd = numpy.linalg.cond(A2)
        if over(e1, 1e-9):
            orc = "A'A'^T differs from alpha*AA^T + beta*vv^T (rel err %.3g, v = %r)" % (e1, list(v))
        elif over(e2, inv_tol(cnd, 0)):
            orc = "invCholesky' is not the inverse of A' (max|inv*A - I| = %.3g)" % e2
    lines = ["C14 mo-r1 %s %s %s %s %s" % (fm(invA), fm(A), fbits(alpha), fbits(beta), fv(v))]
    sign = "neg" if all(x < 0 for x in d["w"]) else "pos" if all(x > 0 for x in d["w"]) else "zero" if not any(d["w"]) else "mixed"
    return Case(d, lines, ["%s %s" % (fm(inv2), fm(A2))], orc,
                tag="r1/d%d/%s/%s" % (n, sign, "tiny" if d["scale"] < 1e-15 else "normal"),
                nontrivial=not numpy.array_equal(A2, A), tol=TOL)


# ----------------------------------------------------------------------------------------
# active (1+lambda)
# ----------------------------------------------------------------------------------------

def act_state(S):
    p = S.parent
    has = hasattr(p, "fitness")
    return dict(parent=p, pid=(p._id if has else 0), pw=(tuple(p.fitness.wvalues) if has else None), px=[float(x) for x in p],
                sigma=float(S.sigma), A=S.A.copy(), invA=S.invA.copy(), pc=S.pc.copy(), psucc=float(S.psucc),
                iIR=[int(i) for i in S.i_I_R], cvecs=(None if S.constraint_vecs is None else S.constraint_vecs.copy()),
                anc=[tuple(f.wvalues) for f in S.ancestors_fitness])


def fmt_act_state(st):
    return " ".join([str(st["pid"]), "none" if st["pw"] is None else fv(st["pw"]), fv(st["px"]), fbits(st["sigma"]),
                     fbits(st["psucc"]), fv(st["pc"]), fm(st["A"]), fm(st["invA"]),
                     "none" if st["cvecs"] is None else fm(st["cvecs"]), fm(st["anc"]), il(st["iIR"])])


def act_upd_line(S, lam, pre, steps, ids, popfit, popcv, popx, popy, popz, invs):
    """request line of one active update; popcv entries: tuple of flags, or None = the fitness has no
    constraint_violation attribute"""
    prm = "%d %s" % (lam, " ".join(fbits(x) for x in (S.cc, S.ccovp, S.ccovn, S.cconst, S.pthresh, S.d, S.ptarg,
                                                     S.cp, S.beta)))
    fits = ";".join("none" if f is None else fv(f) for f in popfit)
    cvs = ";".join("x" if cv is None else (",".join("1" if c else "0" for c in cv) or "-") for cv in popcv)
    invtape = "|".join("none" if res is None else fm(res) for (_m, res) in invs) or "-"
    return "C14 act-upd %s %d %s %s %s %s %s %s %s %s %s %s %s %s %s %s %s %s %s %s" % (
        prm, pre["pid"], "none" if pre["pw"] is None else fv(pre["pw"]), fv(pre["px"]), fbits(pre["sigma"]),
        fm(pre["A"]), fm(pre["invA"]), fv(pre["pc"]), fbits(pre["psucc"]), fv(steps), il(pre["iIR"]),
        "none" if pre["cvecs"] is None else fm(pre["cvecs"]), fm(pre["anc"]),
        il(ids), fits, cvs, fm(popx), fm(popy), fm(popz), invtape)


def eval_actsing(d):
    """Constraint update whose A' is exactly singular: numpy.linalg.inv raises LinAlgError and the update must be
    ignored (A and invA stay a consistent pair).  A' = A - beta * v v^T / |v|^2 with A = I, beta = 1."""
    n = d["dim"]
    rng = random.Random(0)
    Ind = IND["con"]
    if d["parent_fit"]:
        parent = Ind(d["x0"])
        parent.fitness.values = single_objective("sphere", parent)
        parent._id = 0
    else:
        parent = numpy.array(d["x0"], dtype=float)
    S = cma.StrategyActiveOnePlusLambda(parent, 0.5, [0.0] * n, lambda_=len(d["ys"]), beta=d["beta"])
    pop, popfit, popcv = [], [], []
    for k, (y, flags) in enumerate(zip(d["ys"], d["flags"])):
        y = numpy.array(y, dtype=float)
        ind = Ind(numpy.array(d["x0"], dtype=float) + 0.5 * y)
        ind._y, ind._z, ind._id = y.copy(), y.copy(), k + 1
        if any(flags):
            ind.fitness.constraint_violation = tuple(bool(f) for f in flags)
            popfit.append(None)
        else:
            ind.fitness.values = single_objective("sphere", ind)
            ind.fitness.constraint_violation = tuple(bool(f) for f in flags)
            popfit.append(tuple(ind.fitness.wvalues))
        popcv.append(tuple(bool(f) for f in flags))
        pop.append(ind)
    pre = act_state(S)
    import warnings
    with NpExtra(rng) as ex, warnings.catch_warnings():
        warnings.simplefilter("ignore")
        S.update(pop)
    post = act_state(S)
    raised = any(res is None for (_m, res) in ex.invs)
    cnd = numpy.linalg.cond(S.A)
    orc = None
    if raised or cnd < COND_LIMIT:
        e = numpy.abs(S.invA.dot(S.A) - numpy.eye(n)).max()
        if not numpy.isfinite(S.A).all() or not numpy.isfinite(S.invA).all() or over(e, inv_tol(cnd, 0)):
            orc = ("after a constraint update whose matrix inversion %s, invA is not the inverse of A: max|invA*A - I| = %.3g "
                   "(cond(A) = %.3g)" % ("raised LinAlgError" if raised else "succeeded", e, cnd))
    lines = [act_upd_line(S, len(pop), pre, [0.0] * n, [i._id for i in pop], popfit, popcv, [list(i) for i in pop],
                          [i._y for i in pop], [i._z for i in pop], ex.invs)]
    valid_sorted = [i._id for i in sorted([p_ for p_, f in zip(pop, popfit) if f is not None],
                                          key=lambda i: i.fitness, reverse=True)]
    lsucc = sum(1 for f in popfit if f is not None and (pre["pw"] is None or fit_ge(f, pre["pw"])))
    expect = [fmt_act_state(post) + " %s %d" % (il(valid_sorted), lsucc)]
    return Case(d, lines, expect, orc, tag="actsing/d%d/%s" % (n, "raised" if raised else "inverted"),
                nontrivial=raised, tol=TOL)


def eval_active(d):
    dim, lam, nrounds = d["dim"], d["lam"], d["rounds"]
    cons = d["cons"]                 # list of (a-vector, b): violated when a.x < b
    Ind = IND["con"] if (cons or d.get("confit")) else IND["min1"]
    rng = random.Random(d["seed"])
    obj = d["obj"]
    # initial parent: a bare array (no fitness attribute), an evaluated individual, or an individual whose fitness
    # object is present but not valid (unevaluated / infeasible: constraint flags set, no values)
    pmode = d.get("parent_mode", "fit" if d["parent_fit"] else "array")
    if pmode == "fit":
        parent = Ind(d["x0"])
        parent.fitness.values = single_objective(obj, parent)
        parent._id = 0
    elif pmode == "unevaluated":
        parent = Ind(d["x0"])
        parent._id = 0
    elif pmode == "infeasible":
        parent = Ind(d["x0"])
        parent.fitness.constraint_violation = tuple([True] + [False] * (max(1, len(cons)) - 1))
        parent._id = 0
    else:
        parent = numpy.array(d["x0"], dtype=float)
    S = cma.StrategyActiveOnePlusLambda(parent, d["sigma"], list(d["steps"]), lambda_=lam, **dict(d.get("kargs", {})))
    lines, expect = [], []
    dflt = cma.StrategyActiveOnePlusLambda(numpy.array(d["x0"], dtype=float), d["sigma"], list(d["steps"]), lambda_=lam)
    lines.append("C14 act-params %d %d" % (dim, lam))
    expect.append(" ".join(fbits(x) for x in (dflt.cc, dflt.ccovp, dflt.ccovn, dflt.cconst, dflt.pthresh, dflt.d,
                                               dflt.ptarg, dflt.cp, dflt.beta)))
    lines.append("C14 act-init %s %s %s" % (fv(d["x0"]), fbits(d["sigma"]), fv(d["steps"])))
    expect.append(il(S.i_I_R))
    evaluated = {}
    best_w = None
    if pmode == "fit":
        evaluated[0] = (list(parent), tuple(parent.fitness.wvalues))
        best_w = tuple(parent.fitness.wvalues)
    nid, orc = 1, None
    n_repl = n_keep = n_neg = n_inf = 0
    neg_seen = n_event_lines = 0
    cond_max = 1.0
    steps = numpy.array(d["steps"], dtype=float)
    plain = not (cons or d.get("confit"))
    try:
        for r in range(nrounds):
            rs = d.get("restart")
            if rs and r == rs["at"]:
                # a new strategy started from the parent object of the running one (it carries _y, _z, _id, a fitness
                # and possibly constraint flags from the previous run), or from a deep copy of it
                par0 = copy.deepcopy(S.parent) if rs.get("clone") else S.parent
                S = cma.StrategyActiveOnePlusLambda(par0, rs["sigma"], list(d["steps"]), lambda_=lam, **dict(d.get("kargs", {})))
                if S.parent is not par0:
                    raise Fail("round %d (restart): the new strategy does not start from the given parent" % r)
            pre = act_state(S)
            intmut = []
            real_im = S._integer_mutation

            def im():
                out = real_im()
                intmut.append(out.copy())
                return out
            S._integer_mutation = im
            with tapemod.Tape(rng=rng, numpy_too=True) as tp, NpExtra(rng) as ex:
                pop = S.generate(Ind)
            S._integer_mutation = real_im
            z = numpy.array(tp.draws[0][2]).reshape(tp.draws[0][1])
            rint = intmut[0]
            if len(pop) != lam:
                raise Fail("round %d: generate returned %d individuals" % (r, len(pop)))
            for i, ind in enumerate(pop):
                if over(relerr(ind._y, pre["A"].dot(z[i])), 1e-12) or not numpy.array_equal(ind._z, z[i]):
                    raise Fail("round %d: stored mutation step _y is not A*z" % r)
                want = numpy.array(pre["px"]) + pre["sigma"] * ind._y + steps * rint[i]
                for c in range(dim):
                    if steps[c] > 0:
                        q = list(ind)[c] / steps[c]
                        if over(abs(q - round(q)), 1e-9) or over(abs(list(ind)[c] - want[c]), steps[c] / 2 + 1e-9):
                            raise Fail("round %d: integer coordinate %d = %r is not the nearest multiple of the step %r" % (r, c, list(ind)[c], steps[c]))
                    elif over(abs(list(ind)[c] - want[c]), 1e-12 * max(1.0, abs(want[c]))):
                        raise Fail("round %d: offspring is not parent + sigma*A*z" % r)
            if r < 4 or rint.any():
                if rint.any() or pre["iIR"]:
                    rands = [dr[2][0] for dr in tp.draws[1:] if dr[0] == "np.rand"]
                    signs = [a for a in ex.randints if isinstance(a, numpy.ndarray)]
                    lines.append("C14 act-intmut %d %d %s %s %s %s" % (dim, lam, il(pre["iIR"]), fv(rands), il(ex.geoms),
                                                                       il2(signs[0].tolist()) if signs else "-"))
                    expect.append(fm(rint))
                lines.append("C14 act-gen %s %s %s %s %s %s" % (fv(pre["px"]), fbits(pre["sigma"]), fm(pre["A"]), fv(steps), fm(z), fm(rint)))
                expect.append("%s %s" % (fm([list(i) for i in pop]), fm([i._y for i in pop])))
            popfit, popcv = [], []
            for ind in pop:
                ind._id = nid
                nid += 1
                viol = tuple(bool(numpy.dot(a, list(ind)) < b) for a, b in cons)
                skipped = plain and rng.random() < d.get("skip", 0.0)      # left unevaluated, no constraint_violation at all
                if skipped:
                    popfit.append(None)
                    popcv.append(None)
                    continue
                if not any(viol):
                    ind.fitness.values = single_objective(obj, ind)
                    evaluated[ind._id] = (list(ind), tuple(ind.fitness.wvalues))
                    if best_w is None or fit_ge(ind.fitness.wvalues, best_w):
                        best_w = tuple(ind.fitness.wvalues)
                    popfit.append(tuple(ind.fitness.wvalues))
                else:
                    popfit.append(None)
                if cons or d.get("confit"):
                    ind.fitness.constraint_violation = viol
                popcv.append(viol)
            if d.get("shuffle"):
                order = list(range(lam))
                rng.shuffle(order)
                pop = [pop[i] for i in order]
                popfit = [popfit[i] for i in order]
                popcv = [popcv[i] for i in order]
            popx, popy, popz = [list(i) for i in pop], [i._y for i in pop], [i._z for i in pop]
            ids = [i._id for i in pop]
            r1 = []
            real_r1 = S._rank1update

            def wrap(individual, p_succ):
                A0, i0 = S.A.copy(), S.invA.copy()
                real_r1(individual, p_succ)
                r1.append((A0, i0, individual, p_succ, S.A.copy(), S.pc.copy()))
            S._rank1update = wrap
            with NpExtra(rng) as ex2:
                S.update(pop)
            S._rank1update = real_r1
            post = act_state(S)
            # ---------------- oracle ----------------
            anyvalid = any(f is not None for f in popfit)
            if anyvalid or pre["pw"]:             # pre["pw"] is None / (): the parent carries no evaluated fitness yet
                if not post["pw"]:
                    raise Fail("round %d: parent has no fitness although valid individuals were evaluated" % r)
                if pre["pw"] and not fit_ge(post["pw"], pre["pw"]):
                    raise Fail("round %d: parent fitness got worse: %r -> %r" % (r, pre["pw"], post["pw"]))
                if post["pw"] != best_w:
                    raise Fail("round %d: parent fitness %r is not the best fitness evaluated so far %r" % (r, post["pw"], best_w))
                g, w = evaluated.get(S.parent._id, (None, None))
                if g != list(S.parent) or w != post["pw"]:
                    raise Fail("round %d: parent genome does not match the individual that obtained its fitness" % r)
            replaced = S.parent is not pre["parent"]
            if replaced and not any(f is not None and f == post["pw"] and (not pre["pw"] or fit_ge(f, pre["pw"]))
                                    for f in popfit):
                raise Fail("round %d: parent replaced by something that is not a valid offspring at least as good" % r)
            n_repl += replaced
            n_keep += (not replaced)
            if not (0.0 <= S.psucc <= 1.0) or not (S.sigma > 0 and math.isfinite(S.sigma)):
                raise Fail("round %d: psucc=%r sigma=%r out of range (%d valid / %d invalid offspring, parent fitness %r)"
                           % (r, S.psucc, S.sigma, sum(f is not None for f in popfit), sum(f is None for f in popfit), pre["pw"]))
            cnd = numpy.linalg.cond(S.A)
            raised = any(res is None for (_m, res) in ex2.invs)
            if not (cnd < COND_LIMIT) and not raised:
                break                   # outside the checked regime (and no update was declared "ignored")
            # rounding errors of invA are inherited from the worst-conditioned factor met so far (invA is only ever
            # updated incrementally), so the tolerance scales with the running maximum of cond(A) and of cond(A')
            cond_max = max([cond_max, cnd if cnd < COND_LIMIT else 0.0] +
                           [c_ for c_ in (numpy.linalg.cond(m_) for (m_, res_) in ex2.invs if res_ is not None) if c_ < COND_LIMIT])
            e = numpy.abs(S.invA.dot(S.A) - numpy.eye(dim)).max()
            if over(e, inv_tol(cond_max, r)) or not numpy.isfinite(S.A).all() or not numpy.isfinite(S.invA).all():
                raise Fail("round %d: invA is not the inverse of A: max|invA*A - I| = %.3g (cond %.3g)" % (r, e, cnd))
            for (A0, i0, individual, p_succ, A1, pc1) in r1:
                if numpy.array_equal(A0, A1):
                    continue
                # rank-one: A1 A1^T = alpha A0 A0^T + beta u u^T, u the evolution path or the mutation step
                new, old = A1.dot(A1.T), A0.dot(A0.T)
                best = None
                for nm, u in (("path", pc1), ("step", numpy.array(individual._y))):
                    G = numpy.stack([old.ravel(), numpy.outer(u, u).ravel()], axis=1)
                    sol = numpy.linalg.lstsq(G, new.ravel(), rcond=None)[0]
                    res = numpy.abs(G.dot(sol) - new.ravel()).max() / max(numpy.abs(new).max(), 1e-300)
                    if best is None or res < best[0]:
                        best = (res, sol, nm)
                c0 = numpy.linalg.cond(A0)
                if over(best[0], inv_tol(max(c0, cond_max), r)) or not (best[1][0] > 0):
                    raise Fail("round %d: covariance adaptation is not alpha*AA^T + beta*uu^T (u = path or step): residual %.3g, alpha %.4g"
                               % (r, best[0], best[1][0]))
                if best[2] == "step" and best[1][1] < 0:
                    n_neg += 1
            for (mat, res) in ex2.invs:
                n_inf += 1
                if res is not None and numpy.linalg.cond(mat) < COND_LIMIT and \
                        over(numpy.abs(res.dot(mat) - numpy.eye(dim)).max(), inv_tol(numpy.linalg.cond(mat), 0)):
                    raise Fail("round %d: numpy.linalg.inv broke its contract" % r)
            # ---------------- model line ----------------
            event = bool(ex2.invs) or n_neg > neg_seen
            neg_seen = n_neg
            if sample_round(r, nrounds, dim * dim > 40) or (event and n_event_lines < 12):
                n_event_lines += event
                lines.append(act_upd_line(S, lam, pre, steps, ids, popfit, popcv, popx, popy, popz, ex2.invs))
                valid_sorted = [i._id for i in sorted([p for p, f in zip(pop, popfit) if f is not None],
                                                      key=lambda i: i.fitness, reverse=True)]
                lsucc = sum(1 for f in popfit if f is not None and (pre["pw"] is None or fit_ge(f, pre["pw"])))
                expect.append(fmt_act_state(post) + " %s %d" % (il(valid_sorted), lsucc))
            if cnd >= COND_LIMIT:
                break
    except Fail as e:
        orc = str(e)
    tag = "act/%s/d%d/l%d/c%d/%s/%s%s%s" % (obj, dim, lam, len(cons), "int" if any(s > 0 for s in d["steps"]) else "cont",
                                           "parent-" + pmode, "/neg" if n_neg else "", "/inf" if n_inf else "")
    return Case(d, lines, expect, orc, tag=tag, nontrivial=(n_repl > 0 and n_keep > 0), tol=case_tol(cond_max))


# ----------------------------------------------------------------------------------------
# dispatch, generation
# ----------------------------------------------------------------------------------------

def evaluate(d):
    k = d["k"]
    old = numpy.seterr(all="ignore")
    try:
        if k == "op":
            return eval_oneplus(d)
        if k == "elit":
            return eval_elit(d)
        if k == "mo":
            return eval_mo(d)
        if k == "mosel":
            return eval_mosel(d)
        if k == "mosellib":
            return eval_mosellib(d)
        if k == "r1":
            return eval_r1(d)
        if k == "act":
            return eval_active(d)
        if k == "actsing":
            return eval_actsing(d)
    finally:
        numpy.seterr(**old)
    raise ValueError(k)


def rnd_vec(rng, n, lo=-3.0, hi=3.0):
    return [round(rng.uniform(lo, hi), 3) for _ in range(n)]


def pick_rounds(rng, thorough, long_ok=True):
    r = rng.random()
    if r < 0.25:
        return rng.randint(1, 5)
    if r < 0.75 or not long_ok:
        return rng.randint(6, 60)
    return rng.randint(61, 300)


def rand_kargs(rng, kind):
    """Parameter overrides inside the ranges the strategies document (not only the defaults are exercised)."""
    if rng.random() < 0.6:
        return {}
    pool = {"d": lambda: round(rng.uniform(0.5, 4.0), 3), "ptarg": lambda: round(rng.uniform(0.05, 0.5), 3),
            "cp": lambda: round(rng.uniform(0.02, 0.9), 3), "cc": lambda: round(rng.uniform(0.05, 1.0), 3),
            "pthresh": lambda: rng.choice([0.0, 0.2, 0.3, 0.44, 1.1])}
    if kind == "act":
        pool.update({"ccovp": lambda: round(rng.uniform(0.01, 0.4), 3), "ccovn": lambda: round(rng.uniform(0.01, 0.5), 3),
                     "cconst": lambda: round(rng.uniform(0.05, 0.9), 3), "beta": lambda: round(rng.uniform(0.001, 0.5), 4)})
    else:
        pool["ccov"] = lambda: round(rng.uniform(0.01, 0.5), 3)
    keys = rng.sample(sorted(pool), rng.randint(1, 3))
    return {k: pool[k]() for k in keys}


def gen_structured(thorough, rng, mult, lmax):
    """histories aimed at state carried between rounds"""
    for i in range((12 if thorough else 4) * mult):
        dim = rng.randint(2, 4)
        # success streaks: psucc crosses pthresh while the parent is being replaced
        yield {"k": "op", "dim": dim, "lam": rng.choice([1, 1, 2, lmax]), "obj": "sphere",
               "x0": [round(3 + 2 * rng.random(), 3) for _ in range(dim)], "sigma": rng.choice([1e-3, 1e-2]),
               "rounds": rng.randint(8, 25), "seed": rng.randrange(1 << 30), "shuffle": False}
        # several constraints violated by the same offspring (overlapping half-spaces near the parent)
        a1 = [0.0] * dim
        a1[0] = 1.0
        a2 = [0.0] * dim
        a2[0] = a2[1] = 1.0
        a3 = [0.0] * dim
        a3[1] = 1.0
        x0 = [round(0.6 + 0.3 * rng.random(), 3) for _ in range(dim)]
        yield {"k": "act", "dim": dim, "lam": rng.choice([1, 2, 3]), "obj": "sphere", "x0": x0, "sigma": 0.5,
               "steps": [0.0] * dim, "cons": [[a1, 0.5], [a2, 0.9], [a3, 0.5]][:rng.choice([2, 3])],
               "parent_fit": rng.random() < 0.5, "confit": True, "rounds": rng.randint(30, 80),
               "seed": rng.randrange(1 << 30), "shuffle": False}
        # few parents, many offspring: several offspring of one parent survive the same round
        mu = rng.choice([1, 2, 2, 3])
        yield {"k": "mo", "dim": dim, "mu": mu, "lam": rng.randint(mu + 2, lmax), "obj": rng.choice(["bisphere", "zdt"]),
               "x0": [rnd_vec(rng, dim, 0.0, 1.0) for _ in range(mu)], "sigma": rng.choice([0.3, 0.7]),
               "rounds": rng.randint(3, 20), "seed": rng.randrange(1 << 30)}
        # plain Fitness (no constraint_violation attribute) with some offspring left unevaluated
        yield {"k": "act", "dim": dim, "lam": rng.randint(2, 5), "obj": "sphere",
               "x0": [round(rng.uniform(1.0, 3.0), 3) for _ in range(dim)], "sigma": 0.5, "steps": [0.0] * dim, "cons": [],
               "parent_fit": rng.random() < 0.5, "confit": False, "skip": 0.4, "rounds": rng.randint(5, 30),
               "seed": rng.randrange(1 << 30), "shuffle": rng.random() < 0.5, "kargs": rand_kargs(rng, "act")}
        # MO built with the default mu (= len(population)) and with more initial individuals than mu
        npar = rng.randint(2, 5)
        yield {"k": "mo", "dim": dim, "mu": npar, "mu_given": False, "lam": rng.choice([npar, rng.randint(1, lmax)]),
               "obj": rng.choice(["bisphere", "bistep"]), "x0": [rnd_vec(rng, dim, -1.5, 1.5) for _ in range(npar)],
               "sigma": 0.5, "rounds": rng.randint(2, 15), "seed": rng.randrange(1 << 30), "kargs": rand_kargs(rng, "mo")}
        mu = rng.randint(1, 3)
        yield {"k": "mo", "dim": dim, "mu": mu, "lam": rng.choice([mu, rng.randint(1, lmax)]),
               "obj": rng.choice(["bisphere", "zdt"]), "x0": [rnd_vec(rng, dim, 0.0, 1.0) for _ in range(mu + rng.randint(1, 3))],
               "sigma": 0.5, "rounds": rng.randint(2, 15), "seed": rng.randrange(1 << 30)}


def gen_restarts(thorough, rng, mult, lmax):
    """RESTART histories (clause 'per-parent lists aligned to the surviving parents', and elitism / factors of the
    (1+lambda) strategies, for strategies whose initial individuals went through another strategy): some rounds, then
    a new strategy built from the running one's individuals - parents shuffled / sorted / filtered, the next
    offspring population, a mix; the same objects or deep copies; lambda = mu and != mu; possibly twice.  The set
    of (mode, clone, lambda-relation) combinations is fixed, seeds only vary the inputs."""
    modes = ["perm", "sorted", "subset", "offspring", "mixed"]
    for rep_ in range((3 if thorough else 1) * mult):
        for mode in modes:
            for clone in (False, True):
                for eq in (True, False):
                    dim = rng.randint(2, 4)
                    mu = rng.randint(3, 6)
                    lam = mu if eq else rng.choice([x for x in range(2, lmax + 1) if x != mu])
                    r0 = rng.randint(2, 7)
                    keep = rng.randint(2, mu) if mode in ("subset", "mixed") else (rng.randint(2, lam) if rng.random() < 0.4 else 0)
                    rs = {"at": r0, "mode": mode, "clone": clone, "sigma": rng.choice([0.2, 0.3, 0.6]), "keep": keep,
                          "reverse": rng.random() < 0.5}
                    if not eq:
                        rs["lam"] = rng.randint(1, lmax)          # else lambda_ = mu = len(start)
                        if rng.random() < 0.3:
                            rs["mu"] = rng.randint(1, 4)
                    rss = [rs]
                    if rng.random() < 0.35:                      # a second restart, from what the second strategy holds
                        rss.append({"at": r0 + rng.randint(1, 4), "mode": rng.choice(modes), "clone": rng.random() < 0.5,
                                    "sigma": 0.4, "keep": rng.randint(2, 4), "lam": 0 if eq else rng.randint(1, lmax)})
                    obj = rng.choice(["bisphere", "zdt", "bistep"])
                    yield {"k": "mo", "dim": dim, "mu": mu, "lam": lam, "obj": obj,
                           "x0": [rnd_vec(rng, dim, -1.5, 1.5) if obj != "zdt" else rnd_vec(rng, dim, 0.0, 1.0) for _ in range(mu)],
                           "sigma": rng.choice([0.5, 0.8]), "rounds": rss[-1]["at"] + rng.randint(3, 9),
                           "seed": rng.randrange(1 << 30), "restarts": rss}
        for clone in (False, True):
            dim = rng.randint(2, 4)
            r0 = rng.randint(3, 12)
            yield {"k": "op", "dim": dim, "lam": rng.choice([1, 2, 4]), "obj": rng.choice(["sphere", "ellipsoid", "step"]),
                   "x0": rnd_vec(rng, dim), "sigma": 0.5, "rounds": r0 + rng.randint(4, 12), "seed": rng.randrange(1 << 30),
                   "shuffle": rng.random() < 0.5, "restart": {"at": r0, "clone": clone, "sigma": rng.choice([0.1, 1.0])}}
            for pmode, confit in (("fit", True), ("array", False)):
                a = [0.0] * dim
                a[0] = 1.0
                yield {"k": "act", "dim": dim, "lam": rng.choice([1, 2, 4]), "obj": "sphere",
                       "x0": [round(rng.uniform(1.0, 3.0), 3) for _ in range(dim)], "sigma": 0.5, "steps": [0.0] * dim,
                       "cons": [[a, 0.1]] if confit else [], "parent_fit": pmode == "fit", "confit": confit,
                       "rounds": r0 + rng.randint(4, 12), "seed": rng.randrange(1 << 30), "shuffle": False,
                       "restart": {"at": r0, "clone": clone, "sigma": rng.choice([0.2, 1.0])}}


def gen_invalid_parent(thorough, rng, mult, lmax):
    """active strategy started from a parent whose fitness object exists but is not valid (infeasible or
    unevaluated), with rounds that mix feasible/evaluated and infeasible/unevaluated offspring"""
    for i in range((40 if thorough else 14) * mult):
        dim = rng.randint(2, 5)
        lam = rng.randint(2, lmax)
        cpk = rng.choice([{}, {}, {"cp": 0.6}, {"cp": 0.9}])
        # constrained: the parent sits inside the infeasible region, a fraction of the offspring is feasible
        a = [0.0] * dim
        a[0] = 1.0
        x0 = [round(rng.uniform(-0.6, 0.0), 3)] + [round(rng.uniform(0.5, 1.5), 3) for _ in range(dim - 1)]
        cons = [[a, 0.1]]
        if rng.random() < 0.5:
            a2 = [0.0] * dim
            a2[1] = 1.0
            cons.append([a2, 0.1])
        yield {"k": "act", "dim": dim, "lam": lam, "obj": rng.choice(["sphere", "step"]), "x0": x0,
               "sigma": rng.choice([0.3, 0.5, 1.0]), "steps": [0.0] * dim, "cons": cons, "parent_fit": False,
               "parent_mode": "infeasible", "confit": True, "rounds": rng.randint(3, 12),
               "seed": rng.randrange(1 << 30), "shuffle": rng.random() < 0.5, "kargs": dict(cpk)}
        # plain Fitness: unevaluated parent, most offspring left unevaluated
        yield {"k": "act", "dim": dim, "lam": lam, "obj": "sphere",
               "x0": [round(rng.uniform(1.0, 3.0), 3) for _ in range(dim)], "sigma": 0.5, "steps": [0.0] * dim, "cons": [],
               "parent_fit": False, "parent_mode": "unevaluated", "confit": False, "skip": rng.choice([0.5, 0.7, 0.85]),
               "rounds": rng.randint(3, 12), "seed": rng.randrange(1 << 30), "shuffle": False, "kargs": dict(cpk)}
        # constrained fitness class, unevaluated parent (no flags), constraints active
        yield {"k": "act", "dim": dim, "lam": lam, "obj": "sphere", "x0": x0, "sigma": 0.5, "steps": [0.0] * dim,
               "cons": cons, "parent_fit": False, "parent_mode": "unevaluated", "confit": True,
               "rounds": rng.randint(3, 12), "seed": rng.randrange(1 << 30), "shuffle": False, "kargs": dict(cpk)}


def gen_realised_step(thorough, rng, mult, lmax):
    """offspring whose evaluated genome is not parent + sigma*A*z: repaired between generate and update (clipping to
    a box the optimum lies outside of, rounding to a grid), or absorbed by IEEE rounding (|parent| >> sigma).  The
    success rule is driven by the realised step of the stored parent."""
    for i in range((40 if thorough else 12) * mult):
        dim = rng.randint(2, 5)
        lam = rng.choice([1, 2, 4, rng.randint(1, lmax)])
        rep = rng.choice([{"kind": "clip", "lo": -1.0, "hi": 1.0}, {"kind": "clip", "lo": 0.0, "hi": 0.75},
                          {"kind": "grid", "step": 0.25}, {"kind": "grid", "step": 1.0}])
        x0 = [round(rng.uniform(0.5, 0.95), 3) for _ in range(dim)]
        if rep["kind"] == "grid":
            x0 = [round(v / rep["step"]) * rep["step"] for v in x0]
        else:
            x0 = [min(rep["hi"], max(rep["lo"], v)) for v in x0]
        # maximised -sphere pulls towards 0, "farsphere" (below) pushes against the upper bound
        yield {"k": "op", "dim": dim, "lam": lam, "obj": rng.choice(["sphere", "far", "step"]), "x0": x0,
               "sigma": rng.choice([0.3, 0.5, 1.0]), "rounds": rng.randint(2, 20), "seed": rng.randrange(1 << 30),
               "shuffle": rng.random() < 0.5, "repair": rep, "kargs": rand_kargs(rng, "op")}
        # IEEE absorption: the offspring equals the parent or differs by a few ulps
        yield {"k": "op", "dim": dim, "lam": lam, "obj": rng.choice(["sphere", "far"]),
               "x0": [rng.choice([-1, 1]) * round(rng.uniform(500.0, 2000.0), 1) for _ in range(dim)],
               "sigma": rng.choice([1e-14, 1e-13, 1e-12]), "rounds": rng.randint(2, 12), "seed": rng.randrange(1 << 30),
               "shuffle": False}
        # the same for the MO strategy (its path uses the offspring genome handed to update)
        mu = rng.randint(1, 3)
        yield {"k": "mo", "dim": dim, "mu": mu, "lam": rng.choice([mu, rng.randint(1, lmax)]), "obj": "bisphere",
               "x0": [[min(1.0, max(-1.0, v)) for v in rnd_vec(rng, dim, -1.0, 1.0)] for _ in range(mu)],
               "sigma": rng.choice([0.5, 1.0]), "rounds": rng.randint(2, 12), "seed": rng.randrange(1 << 30),
               "repair": {"kind": "clip", "lo": -1.0, "hi": 1.0}}


def gen_histories(thorough, rng, mult, dmax, lmax, mumax):
    nhist = (1200 if thorough else 220) * mult
    for i in range(nhist):
        dim = rng.randint(2, dmax)
        # (1+lambda)
        lam = rng.choice([1, 1, 2, 3, rng.randint(1, lmax)])
        obj = rng.choice(["sphere", "sphere", "ellipsoid", "step", "negsphere"])
        yield {"k": "op", "dim": dim, "lam": lam, "obj": obj, "x0": rnd_vec(rng, dim), "sigma": rng.choice([0.05, 0.5, 1.0, 5.0]),
               "rounds": pick_rounds(rng, thorough), "seed": rng.randrange(1 << 30), "shuffle": rng.random() < 0.5,
               "kargs": rand_kargs(rng, "op")}
        # MO
        mu = rng.randint(1, mumax)
        lam = mu if rng.random() < 0.45 else rng.randint(1, lmax)
        obj = rng.choice(["bisphere", "zdt", "bistep", "mixed"])
        npar = mu if rng.random() < 0.8 else rng.randint(1, mu)      # fewer initial parents than mu
        if lam == mu and npar != mu:
            npar = mu
        yield {"k": "mo", "dim": dim, "mu": mu, "lam": lam, "obj": obj,
               "x0": [rnd_vec(rng, dim, -1.5, 1.5) if obj != "zdt" else rnd_vec(rng, dim, 0.0, 1.0) for _ in range(npar)],
               "sigma": rng.choice([0.1, 0.5, 1.0]), "rounds": pick_rounds(rng, thorough, long_ok=(mu * dim <= 24 or thorough)),
               "seed": rng.randrange(1 << 30), "kargs": rand_kargs(rng, "mo")}
        # active
        lam = rng.choice([1, 1, 2, rng.randint(1, lmax)])
        ncons = rng.choice([0, 0, 1, 2, 3])
        x0 = [round(rng.uniform(1.0, 3.0), 3) for _ in range(dim)]
        cons = []
        for _ in range(ncons):
            a = [0.0] * dim
            for c in rng.sample(range(dim), rng.randint(1, min(2, dim))):
                a[c] = 1.0
            cons.append([a, 0.1])
        steps = [0.0] * dim
        if rng.random() < 0.5:
            for c in rng.sample(range(dim), rng.randint(1, dim)):
                steps[c] = rng.choice([0.1, 0.5, 1.0, 4.0])
        if any(steps):
            x0 = [(round(v / s_) * s_ if s_ > 0 else v) for v, s_ in zip(x0, steps)]
        yield {"k": "act", "dim": dim, "lam": lam, "obj": rng.choice(["sphere", "sphere", "ellipsoid", "step"]), "x0": x0,
               "sigma": rng.choice([0.2, 0.5, 2.0]), "steps": steps, "cons": cons, "parent_fit": rng.random() < 0.4,
               "confit": rng.random() < 0.3, "rounds": pick_rounds(rng, thorough), "seed": rng.randrange(1 << 30),
               "shuffle": rng.random() < 0.5, "kargs": rand_kargs(rng, "act")}


def gen_actsing(thorough, rng, mult):
    """constraint updates whose A' is exactly singular (beta = 1, |y_i| equal, dim a power of two): inv raises"""
    for n in (2, 4):
        for signs in itertools.product((-1.0, 1.0), repeat=n):
            if n == 4 and not thorough and rng.random() < 0.5:
                continue
            for parent_fit in (False, True):
                x0 = [1.0] * n
                yield {"k": "actsing", "dim": n, "beta": 1.0, "x0": x0, "parent_fit": parent_fit,
                       "ys": [list(signs)], "flags": [[True]]}
                # two constraints, one violated; and a valid sibling evaluated in the same update
                yield {"k": "actsing", "dim": n, "beta": 1.0, "x0": x0, "parent_fit": parent_fit,
                       "ys": [[0.5] * n, list(signs)], "flags": [[False, False], [True, False]]}
    for _ in range((60 if thorough else 12) * mult):     # regular (invertible) counterparts, random beta
        n = rng.randint(2, 4)
        yield {"k": "actsing", "dim": n, "beta": round(rng.uniform(0.05, 0.9), 3), "x0": rnd_vec(rng, n, 1.0, 2.0),
               "parent_fit": rng.random() < 0.5, "ys": [rnd_vec(rng, n, -1.5, 1.5)], "flags": [[True]]}


def gen_elit(thorough, rng):
    # exhaustive elitism histories over fitness values {0,1,2}
    shapes = [(1, 3), (2, 2), (3, 1)] + ([(3, 2), (2, 3), (1, 5)] if thorough else [])
    for lam, nr in shapes:
        for weight in (-1, 1):
            for p0 in (0, 1, 2):
                for flat in itertools.product((0, 1, 2), repeat=lam * nr):
                    if not thorough and lam * nr > 4 and rng.random() < 0.5:
                        continue
                    yield {"k": "elit", "lam": lam, "weight": weight, "p0": p0,
                           "hist": [list(flat[i * lam:(i + 1) * lam]) for i in range(nr)]}
    # multi-valued fitnesses (the order of C01: lexicographic on the weighted values): every history of lam * nr
    # offspring over the four fitnesses {0,1}^2, ties in the first objective included; minimised and mixed weights
    grid = [(a, b) for a in (0, 1) for b in (0, 1)]
    for lam, nr in [(1, 2), (2, 1), (2, 2), (1, 3)] + ([(3, 1), (1, 4)] if thorough else []):
        for cls in ("min2", "mix2"):
            for p0 in ((0, 1), (1, 0)):
                for flat in itertools.product(grid, repeat=lam * nr):
                    if not thorough and lam * nr > 2 and rng.random() < 0.6:
                        continue
                    yield {"k": "elit", "lam": lam, "cls": cls, "p0": list(p0),
                           "hist": [[list(v) for v in flat[i * lam:(i + 1) * lam]] for i in range(nr)]}


def gen_r1(thorough, rng, mult, dmax):
    # direct rank-one updates: every sign pattern in dims 2,3; tiny / zero vectors
    for n in (2, 3):
        for signs in itertools.product((-1.0, 0.0, 1.0), repeat=n):
            for scale in (1.0, 1e-3, 1e-19, 1e-21, 1e-25):
                for (alpha, beta) in ((0.8, 0.2), (1.05, 0.2)):
                    yield {"k": "r1", "dim": n, "w": [s_ * (1 + 0.5 * i) for i, s_ in enumerate(signs)], "scale": scale,
                           "alpha": alpha, "beta": beta, "mix": 2, "seed": rng.randrange(1 << 30)}
    for _ in range((300 if thorough else 60) * mult):
        n = rng.randint(2, dmax)
        w = [rng.choice((-1, 1)) * rng.uniform(0.1, 2.0) if rng.random() < 0.85 else 0.0 for _ in range(n)]
        if rng.random() < 0.3:
            w = [-abs(x) for x in w]
        ccov = 2.0 / (n * n + 6.0)
        yield {"k": "r1", "dim": n, "w": w, "scale": rng.choice((1.0, 1.0, 1e-6, 1e-12, 3e-20, 1e-22)),
               "alpha": rng.choice((1 - ccov, 1 - ccov + 0.75)), "beta": ccov, "mix": rng.randint(0, 4),
               "seed": rng.randrange(1 << 30)}


def gen_mosel(thorough, rng, mult):
    # direct _select on small grids (ties, duplicates, dominated points), every mu
    grid = [(a, b) for a in range(3) for b in range(3)]
    for n in (2, 3, 4):
        combos = list(itertools.product(grid, repeat=n))
        if n == 4 and not thorough:
            combos = rng.sample(combos, 400)
        elif n == 3 and not thorough:
            combos = rng.sample(combos, 300)
        for pts in combos:
            for mu in range(1, n + 1):
                yield {"k": "mosel", "mu": mu, "pts": [list(p) for p in pts]}
    for _ in range((1500 if thorough else 150) * mult):
        n = rng.randint(3, 14)
        style = rng.random()
        if style < 0.4:      # one big non-dominated front
            xs = sorted(rng.sample(range(40), n))
            pts = [[x / 4.0, (40 - x) / 4.0 + rng.choice((0, 0, 0.25))] for x in xs]
        elif style < 0.7:    # layered fronts
            pts = [[rng.randint(0, 5) / 2.0, rng.randint(0, 5) / 2.0] for _ in range(n)]
        else:
            pts = [[round(rng.uniform(0, 3), 2), round(rng.uniform(0, 3), 2)] for _ in range(n)]
        if rng.random() < 0.3:
            pts[rng.randrange(n)] = list(pts[rng.randrange(n)])     # duplicate
        yield {"k": "mosel", "mu": rng.randint(1, n + 1), "pts": pts}


def gen_mosellib(rng, count):
    """_select end to end on exactly representable fitnesses: bi- and tri-objective, minimised / maximised / mixed
    weights, exact ties in single objectives (several candidates sharing the first / the last objective), duplicates,
    dominated layers, every mu; a near-tie family (values a few ulps apart) whose mu is a sum of whole fronts."""
    for i in range(count):
        style = i % 6
        if style in (0, 1, 5):
            cls = rng.choice(["min2", "min2", "mix2", "max2"])
            nobj = 2
        else:
            cls = rng.choice(["min3", "min3", "mix3"])
            nobj = 3
        n = rng.randint(3, 10 if nobj == 2 else 8)
        if style == 0:        # one big bi-objective front with ties in either objective, some dominated points
            xs = sorted(rng.randint(0, 24) for _ in range(n))
            vals = [[x / 4.0, (24 - x) / 4.0 + rng.choice((0, 0, 0.25, 0.5))] for x in xs]
            rng.shuffle(vals)
        elif style == 1:      # small grid: layered fronts, many exact ties and duplicates
            g = rng.choice([2, 3, 4])
            vals = [[rng.randint(0, g) / 2.0, rng.randint(0, g) / 2.0] for _ in range(n)]
        elif style == 2:      # tri-objective grid
            g = rng.choice([2, 3])
            vals = [[rng.randint(0, g) / 2.0 for _ in range(3)] for _ in range(n)]
        elif style == 3:      # tri-objective anti-chain-like (x + y + z about constant) with ties per objective
            vals = []
            for _ in range(n):
                a, b = rng.randint(0, 8), rng.randint(0, 8)
                vals.append([a / 4.0, b / 4.0, max(0, 12 - a - b + rng.choice((0, 0, 1))) / 4.0])
        elif style == 4:      # tri-objective, last objective constant or two-valued (the sort drops to fewer objectives)
            vals = [[rng.randint(0, 6) / 2.0, rng.randint(0, 6) / 2.0, rng.choice((1.0, 1.0, 2.0))] for _ in range(n)]
        else:                 # plateau in the first objective: several candidates tied there (clipped genotypes)
            vals = [[0.0 if rng.random() < 0.6 else rng.randint(1, 4) / 8.0, rng.randint(0, 40) / 4.0] for _ in range(n)]
        if rng.random() < 0.25:
            vals[rng.randrange(n)] = list(vals[rng.randrange(n)])     # duplicate fitness
        yield {"k": "mosellib", "cls": cls, "mu": rng.randint(1, n) if rng.random() < 0.9 else n + 1, "vals": vals}
        if i % 5 == 0:
            # near ties: neighbouring doubles in one objective; mu = a sum of leading whole fronts, so that the ranking
            # alone decides (the model compares the exact values of the bit patterns)
            cls = rng.choice(["min2", "min3"])
            nobj = 2 if cls == "min2" else 3
            n = rng.randint(3, 8)
            base_ = [rng.choice((0.5, 1.0, 1.5)) for _ in range(nobj)]
            vals = []
            for _ in range(n):
                v = []
                for j in range(nobj):
                    x = base_[j] if rng.random() < 0.6 else rng.choice((0.25, 2.0))
                    for _u in range(rng.choice((0, 0, 1, 2))):
                        x = math.nextafter(x, rng.choice((0.0, 4.0)))
                    v.append(x)
                vals.append(v)
            ranks = pareto_ranks([tuple(-x for x in v) for v in vals])
            sizes = [sum(1 for r_ in ranks if r_ == q) for q in range(max(ranks) + 1)]
            mu = sum(sizes[:rng.randint(1, len(sizes))])
            yield {"k": "mosellib", "cls": cls, "mu": mu, "vals": vals, "near": True}


def generate(tier, rng, mult):
    """Streams in order of how much of the statement they carry (the time budget truncates from the end):
    whole histories of the three strategies first, then the direct single-call streams."""
    thorough = tier == "thorough"
    dmax, lmax, mumax = (10, 20, 10) if thorough else (6, 8, 6)
    for d in gen_restarts(thorough, rng, mult, lmax):
        yield d
    for d in gen_structured(thorough, rng, mult, lmax):
        yield d
    for d in gen_mosellib(rng, (2000 if thorough else 300) * mult):
        yield d
    for d in gen_actsing(thorough, rng, mult):
        yield d
    for d in gen_invalid_parent(thorough, rng, mult, lmax):
        yield d
    for d in gen_realised_step(thorough, rng, mult, lmax):
        yield d
    for d in gen_histories(thorough, rng, mult, dmax, lmax, mumax):
        yield d
    for d in gen_r1(thorough, rng, mult, dmax):
        yield d
    for d in gen_elit(thorough, rng):
        yield d
    for d in gen_mosel(thorough, rng, mult):
        yield d
    for d in gen_mosellib(rng, (30000 if thorough else 2000) * mult):
        yield d


def shrink(d):
    if "rounds" in d and d["rounds"] > 1:
        for r in sorted(set([1, 2, 3, 5, 8, 13, 21, 34, 55, d["rounds"] // 2, d["rounds"] - 1])):
            if 0 < r < d["rounds"]:
                e = dict(d)
                e["rounds"] = r
                yield e
    if d["k"] == "elit" and len(d["hist"]) > 1:
        e = dict(d)
        e["hist"] = d["hist"][:-1]
        yield e
    if d["k"] == "mosel" and len(d["pts"]) > 2:
        for i in range(len(d["pts"])):
            e = dict(d)
            e["pts"] = d["pts"][:i] + d["pts"][i + 1:]
            if e["mu"] >= 1:
                yield e
    if d["k"] == "mosellib" and len(d["vals"]) > 2 and not d.get("near"):
        for i in range(len(d["vals"])):
            e = dict(d)
            e["vals"] = d["vals"][:i] + d["vals"][i + 1:]
            yield e
        if d["mu"] > 1:
            e = dict(d)
            e["mu"] = d["mu"] - 1
            yield e
    if d["k"] in ("op", "act") and d.get("shuffle"):
        e = dict(d)
        e["shuffle"] = False
        yield e
    if d["k"] == "act" and d.get("cons"):
        e = dict(d)
        e["cons"] = d["cons"][:-1]
        yield e


def classify(desc, msg, known):
    return None
