"""C20 — the translator tie: `translate(repo)` for harness/lib.py::_translated_obligations.

Reads deap/benchmarks/{__init__,gp,movingpeaks,binary,tools}.py of `repo` AS THEY ARE NOW, renders every function the
sub-language of harness/py2lean.py reaches as a Lean definition `Gen.<name>` and appends the committed theorems of
lean/DeapModel/GenEq/C20.lean.tmpl (`Gen.<name> (α := ℝ) … = Bench.<name> …`).  A function that has a theorem block in
the template but is no longer translatable is a PROBLEM (the tie is broken), a function without a block is only listed."""
import hashlib
import os
import re

import py2lean
from py2lean import F, I, L, Refuse

HERE = os.path.dirname(os.path.abspath(__file__))
TEMPLATE = os.path.normpath(os.path.join(HERE, "..", "..", "lean", "DeapModel", "GenEq", "C20.lean.tmpl"))
DIGEST = os.path.normpath(os.path.join(HERE, "..", "..", "lean", "DeapModel", "GenEq", "C20.defs.sha256"))

IND = {"individual": L(F)}
# parameter types: an assumption of the tie (individuals are sequences of floats, objective counts are ints)
MODULES = [
    # (file, prefix of the Lean names, {function: signature} ; functions not listed use DEFAULT_SIG)
    ("deap/benchmarks/__init__.py", "", {
        "shekel": {"individual": L(F), "a": L(L(F)), "c": L(F)},
        "dtlz1": {"individual": L(F), "obj": I}, "dtlz2": {"individual": L(F), "obj": I},
        "dtlz3": {"individual": L(F), "obj": I}, "dtlz4": {"individual": L(F), "obj": I, "alpha": F},
        "dtlz5": {"ind": L(F), "n_objs": I}, "dtlz6": {"ind": L(F), "n_objs": I}, "dtlz7": {"ind": L(F), "n_objs": I},
        "dent": {"individual": L(F), "lambda_": F},
    }),
    ("deap/benchmarks/gp.py", "gp_", {}),
    ("deap/benchmarks/movingpeaks.py", "mp_", {
        "cone": {"individual": L(F), "position": L(F), "height": F, "width": F},
        "sphere": {"individual": L(F), "position": L(F), "height": F, "width": F},
        "function1": {"individual": L(F), "position": L(F), "height": F, "width": F},
    }),
    ("deap/benchmarks/binary.py", "bin_", {
        "bin2float": {"min_": F, "max_": F, "nbits": I, "individual": L(I)},
        "trap": {"individual": L(I)}, "inv_trap": {"individual": L(I)},
        "chuang_f1": {"individual": L(I)}, "chuang_f2": {"individual": L(I)}, "chuang_f3": {"individual": L(I)},
        "royal_road1": {"individual": L(I), "order": I}, "royal_road2": {"individual": L(I), "order": I},
    }),
    ("deap/benchmarks/tools.py", "tools_", {}),
]
# rendered by py2lean.translate_decorator (the value the decorator hands to the decorated function)
DECORATOR_FACTORIES = {("deap/benchmarks/binary.py", "bin2float")}
# the peak functions a MovingPeaks object may hold (ASSUMPTIONS of the check): an enumeration generated after the three
# functions, with `mp_PFn.apply` dispatching to their regenerated definitions
PFN = py2lean.FN("mp_PFn", [L(F), L(F), F, F], F)
PFN_NAMES = ["cone", "sphere", "function1"]
PFN_TEXT = """/-- the peak functions of `movingpeaks.py` a `MovingPeaks` object may hold -/
inductive mp_PFn where
  | cone | sphere | function1
/-- `func(individual, position, height, width)` for `func` one of them -/
def mp_PFn.apply (f : mp_PFn) (x p : List α) (h w : α) : Option α :=
  match f with
  | .cone => mp_cone x p h w
  | .sphere => mp_sphere x p h w
  | .function1 => mp_function1 x p h w
"""
# classes: (file, class) -> (fields, [(method, lean suffix, signature of its parameters, decorator shape?)]) ; the methods
# listed are rendered by py2lean.translate_method as functions of the object's fields, the others stay refused
CLASS_METHODS = {
    ("deap/benchmarks/movingpeaks.py", "MovingPeaks"): (
        {"peaks_function": L(PFN), "peaks_position": L(L(F)), "peaks_height": L(F), "peaks_width": L(F),
         "basis_function": py2lean.OFN, "_offline_error": F, "nevals": I}, [
        # count=False: the evaluation without the offline-error bookkeeping (that path calls changePeaks)
        ("__call__", "call", {"individual": L(F), "count": py2lean.K(False)}, False),
        ("globalMaximum", "globalMaximum", {}, False),
        ("maximums", "maximums", {}, False),
        ("offlineError", "offlineError", {}, False)]),
    ("deap/benchmarks/tools.py", "translate"): ({"vector": L(F)}, [
        ("__init__", "init", {"vector": L(F)}, False), ("__call__", "call", {"individual": L(F)}, True),
        ("translate", "set", {"vector": L(F)}, False)]),
    ("deap/benchmarks/tools.py", "scale"): ({"factor": L(F)}, [
        ("__init__", "init", {"factor": L(F)}, False), ("__call__", "call", {"individual": L(F)}, True),
        ("scale", "set", {"factor": L(F)}, False)]),
    ("deap/benchmarks/tools.py", "bound"): ({}, [
        ("_clip", "clip", {"individual": L(F)}, False), ("_wrap", "wrap", {"individual": L(F)}, False),
        ("_mirror", "mirror", {"individual": L(F)}, False)]),
}
DEFAULT_SIG = {"individual": L(F), "data": L(F)}

HEADER = """import DeapModel.Lemmas.C20Gen

set_option linter.unusedVariables false
set_option linter.unusedSimpArgs false
set_option linter.unusedTactic false
set_option linter.unreachableTactic false

namespace Gen
open RealLike
variable {α : Type} [RealLike α]

"""


def template_blocks():
    """{lean name: text} of the `--! begin <name>` … `--! end` blocks, plus the preamble before the first block"""
    src = open(TEMPLATE).read()
    blocks, pre, cur, buf = {}, [], None, []
    for line in src.splitlines():
        m = re.match(r"^--! begin (\S+)\s*$", line)
        if m:
            cur, buf = m.group(1), []
            continue
        if re.match(r"^--! end\s*$", line):
            blocks[cur] = "\n".join(buf)
            cur = None
            continue
        (buf if cur is not None else pre).append(line)
    return "\n".join(pre), blocks


def translate(repo):
    problems, defs, refused, table = [], [], [], []
    pre, blocks = template_blocks()
    out = [HEADER]
    done, lost, gen_texts = [], [], []
    for rel, prefix, sigs in MODULES:
        path = os.path.join(repo, rel)
        try:
            mod = py2lean.Module(path)
        except (OSError, SyntaxError) as e:
            problems.append("%s unreadable: %s" % (rel, e))
            continue
        for name in mod.public:
            lean = prefix + name
            full = "Gen." + lean
            if rel == "deap/benchmarks/movingpeaks.py" and name == "MovingPeaks":
                if all("Gen.mp_" + f in done for f in PFN_NAMES):
                    out.append(PFN_TEXT)
                    gen_texts.append(PFN_TEXT)
                    defs.append("Gen.mp_PFn")
                    done.append("Gen.mp_PFn")       # its block: the enumeration against the model's PFunc
                else:
                    problems.append("movingpeaks.py: cone / sphere / function1 are not all translated, the peak-function "
                                    "enumeration cannot be generated")
            if name not in mod.functions and (rel, name) in CLASS_METHODS:
                fields, meths = CLASS_METHODS[(rel, name)]
                cls_node = mod.globals[name][1]
                listed = {m[0] for m in meths}
                for sub in cls_node.body:
                    if isinstance(sub, py2lean.ast.FunctionDef) and sub.name not in listed:
                        refused.append("%s:%s.%s (method outside the rendered set)" % (rel, name, sub.name))
                        table.append((rel, "%s.%s" % (name, sub.name), "refused", "method not rendered"))
                sibs = {}
                for meth, suffix, msig, deco in meths:
                    lean = "%s%s_%s" % (prefix, name, suffix)
                    full = "Gen." + lean
                    try:
                        text, rty = py2lean.translate_method(mod, name, meth, fields, msig, lean, decorator=deco, siblings=sibs)
                        if not deco:
                            sibs[meth] = py2lean.METHOD_INFO[lean]
                    except Refuse as e:
                        refused.append("%s:%s.%s (%s)" % (rel, name, meth, e))
                        table.append((rel, "%s.%s" % (name, meth), "refused", str(e)))
                        if full in blocks:
                            lost.append(full)
                            problems.append("%s:%s.%s has left the translated sub-language (%s); its theorems %s cannot be checked"
                                            % (rel, name, meth, e, theorem_names(blocks[full])))
                        continue
                    out.append("/-- `%s:%s.%s`, regenerated from the source -/" % (rel, name, meth))
                    out.append(text)
                    gen_texts.append(text)
                    out.append("")
                    defs.append(full)
                    done.append(full)
                    table.append((rel, "%s.%s" % (name, meth), "translated", "theorem" if full in blocks else "no theorem"))
                continue
            if name not in mod.functions:
                refused.append("%s:%s (class: outside the sub-language)" % (rel, name))
                table.append((rel, name, "refused", "class"))
                continue
            sig = sigs.get(name, DEFAULT_SIG)
            try:
                if (rel, name) in DECORATOR_FACTORIES:
                    text, rty = py2lean.translate_decorator(mod, name, sig, lean)
                else:
                    text, rty = py2lean.translate_function(mod, name, sig, lean)
            except Refuse as e:
                refused.append("%s:%s (%s)" % (rel, name, e))
                table.append((rel, name, "refused", str(e)))
                if full in blocks:
                    lost.append(full)
                    problems.append("%s:%s has left the translated sub-language (%s); its theorems %s cannot be checked"
                                    % (rel, name, e, theorem_names(blocks[full])))
                continue
            out.append("/-- `%s:%s` (line %d), regenerated from the source -/" % (rel, name, mod.functions[name].lineno))
            out.append(text)
            gen_texts.append(text)
            out.append("")
            defs.append(full)
            done.append(full)
            table.append((rel, name, "translated", "theorem" if full in blocks else "no theorem"))
    for full in blocks:
        if full not in done and full not in lost:
            problems.append("%s has theorems in the template but no public function of that name exists any more" % full)
    out.append("end Gen\n")
    out.append(pre)
    theorems = []
    for full in done:
        if full in blocks:
            out.append(blocks[full])
            theorems += theorem_names(blocks[full])
    source = "\n".join(out)
    # diagnostics: lib reports Lean's error lines of its scratch file without the theorem they belong to.  When the
    # regenerated definitions differ from the ones this template was last proved against (committed digest), the text is
    # elaborated here once more and the failing theorems are named in `problems` (costs time only on a changed tree).
    digest = hashlib.sha256("\n".join(gen_texts).encode()).hexdigest()
    try:
        known = open(DIGEST).read().split()
    except OSError:
        known = []
    if digest not in known:
        failing = failing_theorems(source)
        if failing:
            problems.append("regenerated definitions differ from the committed digest; theorems that no longer hold: %s"
                            % ", ".join(failing))
    return {"problems": problems, "source": source, "theorems": theorems, "definitions": defs, "refused": refused,
            "table": table, "digest": digest}


def failing_theorems(source):
    """names of the theorems of `source` in whose text Lean reports an error"""
    import subprocess
    import tempfile
    lean_dir = os.path.normpath(os.path.join(HERE, "..", "..", "lean"))
    d = tempfile.mkdtemp(prefix="deapverif-gendiag-")
    try:
        f = os.path.join(d, "GenEqDiag.lean")
        with open(f, "w") as fh:
            fh.write(source + "\n")
        p = subprocess.run(["lake", "env", "lean", f], cwd=lean_dir, stdout=subprocess.PIPE, stderr=subprocess.STDOUT,
                           text=True, timeout=3000)
    finally:
        import shutil
        shutil.rmtree(d, ignore_errors=True)
    lines = source.split("\n")
    starts = [(k + 1, m.group(1)) for k, l in enumerate(lines) for m in [re.match(r"^(?:theorem|def|example)\s+([\w.']+)?", l)] if m]
    bad = []
    for m in re.finditer(r":(\d+):\d+: error", p.stdout):
        ln = int(m.group(1))
        owner = None
        for k, nm in starts:
            if k <= ln:
                owner = nm or "example"
        if owner and owner not in bad:
            bad.append(owner)
    return bad


def theorem_names(text):
    return re.findall(r"^theorem\s+([\w.']+)", text, re.M)


def prelude_selftest():
    """differential test of Core/GenPrelude.lean (trusted base) against CPython: slices, indices, ranges, enumerate,
    floor division on small integers, evaluated by `lake env lean` (run by hand: `c20_translate.py --prelude-test`)"""
    import subprocess
    import tempfile
    L = [10, 11, 12, 13, 14]
    vals = [None] + list(range(-7, 8))
    opt = lambda v: "none" if v is None else "(some (%d))" % v
    lines, exp = ["import DeapModel.Core.GenPrelude", "def L : List Int := %s" % L], []
    for lo in vals:
        for hi in vals:
            lines.append("#eval Gen.slice L %s %s" % (opt(lo), opt(hi)))
            exp.append(str(L[lo:hi]))
    for i in range(-7, 8):
        lines.append("#eval Gen.index L (%d)" % i)
        exp.append("some %d" % L[i] if -len(L) <= i < len(L) else "none")
    for a in range(-3, 4):
        for b in range(-3, 5):
            lines.append("#eval Gen.range (%d) (%d)" % (a, b))
            exp.append(str(list(range(a, b))))
            lines.append("#eval Gen.rangeDown (%d) (%d)" % (a, b))
            exp.append(str(list(range(a, b, -1))))
    lines.append("#eval Gen.enumerate L")
    exp.append(str(list(enumerate(L))))
    for a in range(-7, 8):
        for b in (-3, -2, -1, 1, 2, 3):
            lines.append("#eval (Int.fdiv (%d) (%d), Int.fmod (%d) (%d))" % (a, b, a, b))
            exp.append("(%d, %d)" % (a // b, a % b))
    # round 8: stepped ranges, binary numerals, item assignment, list repetition, int powers
    for a in range(-3, 4):
        for b in range(-3, 13):
            for k in (2, 3, 4, 8):
                lines.append("#eval Gen.rangeStep (%d) (%d) %d" % (a, b, k))
                exp.append(str(list(range(a, b, k))))
    import itertools
    for n in range(0, 5):
        for bits in itertools.product((0, 1), repeat=n):
            lines.append("#eval Gen.binNumeral (%s : List Int)" % list(bits))
            exp.append("some %d" % int("".join(map(str, bits)), 2) if n else "none")
    for i in range(-7, 8):
        lines.append("#eval Gen.setItem L (%d) 99" % i)
        c = list(L)
        try:
            c[i] = 99
            exp.append("some %s" % c)
        except IndexError:
            exp.append("none")
    for n in range(-2, 4):
        lines.append("#eval Gen.listMul ([1, 2] : List Int) (%d)" % n)
        exp.append(str([1, 2] * n))
    for a in range(-2, 4):
        for e_ in range(0, 5):
            lines.append("#eval Gen.ipowInt (%d) (%d)" % (a, e_))
            exp.append("some %d" % (a ** e_) if a ** e_ >= 0 else "some (%d)" % (a ** e_))
    with tempfile.TemporaryDirectory() as d:
        f = os.path.join(d, "Pre.lean")
        open(f, "w").write("\n".join(lines) + "\n")
        out = subprocess.run(["lake", "env", "lean", f], cwd=os.path.join(HERE, "..", "..", "lean"), capture_output=True,
                             text=True).stdout.strip().split("\n")
    bad = [(l, a, b) for l, a, b in zip(lines[2:], out, exp) if a.replace(" ", "") != b.replace(" ", "")]
    return len(exp), len(out), bad


if __name__ == "__main__":
    import sys
    if "--prelude-test" in sys.argv:
        n, m, bad = prelude_selftest()
        print("prelude self-test: %d cases, %d answers, %d differences %s" % (n, m, len(bad), bad[:5]))
        sys.exit(1 if bad or n != m else 0)
    r = translate(sys.argv[1] if len(sys.argv) > 1 else os.environ.get("DEAP_REPO", "/repo"))
    if len(sys.argv) > 2:
        open(sys.argv[2], "w").write(r["source"] + "\n" + "".join("#print axioms %s\n" % n for n in r["theorems"]))
    for row in r["table"]:
        print("%-32s %-22s %-10s %s" % row)
    print("problems:", r["problems"])
    print(len(r["definitions"]), "definitions,", len(r["theorems"]), "theorems,", len(r["refused"]), "refused; digest", r["digest"])
