"""C01 — Fitness comparison and Pareto dominance follow the weighted values (deap/base.py)."""
import copy
import itertools
from fractions import Fraction as Fr

from lib import Case
from deap import base

ANCHORS = [("deap/base.py", ["Fitness", "ConstrainedFitness", "_violates_constraint"])]
LEVEL = "proof"
RULE = ("exhaustive: weights in {1,-1,2,-1/2}^n (n<=2; n<=3 thorough) x all pairs of value tuples over "
        "{0,1,2}^n x 6 operators and dominates on every slice; constrained: all kind pairs x flag vectors; "
        "containers (tuple/list/deque/float64, float32 and int64 arrays x constructor/keyword/property x zero and "
        "single-element tuples, both classes); integers beyond 2**53 and rationals with integer weights; finite weights x "
        "finite values whose products saturate at +-inf; values an ulp apart; random: n<=5 dyadic weights/values. Non-trivial = distinct case whose two tuples are not identical "
        "(or a history / constrained case with at least one evaluated operand)")
EXHAUSTIVE = {"quick": False, "thorough": False}
TIME_BUDGET = {"quick": 60, "thorough": 900}
TRUSTED = ["IEEE-754: products/quotients of the small dyadic inputs used here are exact, so the Rat model "
           "and the float implementation compute the same numbers",
           "CPython tuple comparison and slicing (modelled in Core/Py.lean, exercised by every line)"]
ASSUMPTIONS = ["weights are non-zero finite numbers; values are finite numbers (no NaN)",
               "the read-back clause is claimed for values that are doubles (an integer beyond 2**53 is converted by the "
               "true division of the getter, as documented for Python's `/`); such integers and exact rationals are used for "
               "the comparison and dominance clauses only, with integer weights so that the products are exact",
               "saturated stream: the model is driven with a strictly increasing image of the weighted values (inf -> 2^1100), "
               "justified by C01.compare_order_invariant; the oracle compares the products themselves"]
EXPLANATION = ("Theorems C01.* are proved for every linearly ordered field and all tuple lengths; "
               "the correspondence ties Core/Fitness.lean to deap.base on exactly-representable inputs.")


def fr(s):
    return Fr(s)


def sfr(q):
    q = Fr(q)
    return str(q.numerator) if q.denominator == 1 else "%d/%d" % (q.numerator, q.denominator)


def slist(xs):
    xs = list(xs)
    return ",".join(sfr(x) for x in xs) if xs else "-"


def ilist(xs):
    xs = list(xs)
    return ",".join(str(x) for x in xs) if xs else "-"


def bits(bs):
    return "".join("1" if b else "0" for b in bs)


_classes = {}


def fit_class(weights, constrained=False, num="float", derived=None):
    """`derived`: None = a class made directly from the library's base class; "sub" = a class derived from ANOTHER
    concrete fitness class (other weights) that has been used before, overriding `weights` (how
    creator.create("FitMin2", creator.FitMax2, weights=...) builds it); "list" = weights given as a list."""
    key = (tuple(weights), constrained, num, derived)
    if key not in _classes:
        b = base.ConstrainedFitness if constrained else base.Fitness
        cw = float if num in ("float", "raw") else int      # "int"/"frac": integer weights, exact products
        ws = tuple(cw(w) for w in weights)
        if derived == "sub":
            other = tuple((cw(3) if i % 2 == 0 else cw(-2)) for i in range(len(ws)))
            parent = type("FitParent", (b,), {"weights": other})
            pf = parent(tuple(cw(i + 1) for i in range(len(ws))))      # the parent class is used first
            assert pf.valid and len(pf.values) == len(ws) and not (pf < pf)
            _classes[key] = type("Fit", (parent,), {"weights": ws})
        elif derived == "list":
            _classes[key] = type("Fit", (b,), {"weights": list(ws)})
        else:
            _classes[key] = type("Fit", (b,), {"weights": ws})
    return _classes[key]


BIGINF = Fr(2) ** 1100        # stands for +inf in the order-isomorphic image of saturated weighted values


def enc_sat(x):
    import math
    if math.isinf(x):
        return BIGINF if x > 0 else -BIGINF
    return Fr(x)


def lex_lt(a, b):
    for x, y in zip(a, b):
        if x != y:
            return x < y
    return len(a) < len(b)


def wv(weights, vals):
    return tuple(Fr(v) * Fr(w) for v, w in zip(vals, weights))


def exact(t):
    return tuple(Fr(x) for x in t)


def evaluate(d):
    k = d["k"]
    w = [fr(x) for x in d["w"]]
    num = d.get("num", "float")
    conv = {"float": float, "int": int, "frac": (lambda q: q)}.get(num, float)
    if k == "sat":
        return eval_sat(d)
    if k == "ctor":
        return eval_ctor(d)
    if k in ("cmp", "dom", "vals"):
        F = fit_class(w, num=num, derived=d.get("cls"))
        a = [fr(x) for x in d["a"]]
        fa = F(tuple(conv(x) for x in a))
        wa = wv(w, a)
        # (the internal representation `wvalues` is not part of the statement: it is compared with the model's
        #  through the `vals` protocol line only; the oracle below uses the independently computed `wa`)
    if k in ("cmp", "dom"):
        b = [fr(x) for x in d["b"]]
        fb = F(tuple(conv(x) for x in b))
        wb = wv(w, b)
    numtag = ("" if num == "float" else "/" + num) + ("/cls=" + d["cls"] if d.get("cls") else "")
    if k == "cmp":
        got = [fa < fb, fa <= fb, fa > fb, fa >= fb, fa == fb, fa != fb]
        want = [lex_lt(wa, wb), lex_lt(wa, wb) or wa == wb, lex_lt(wb, wa), lex_lt(wb, wa) or wa == wb,
                wa == wb, wa != wb]
        orc = None if got == want else "operators %s differ from lexicographic comparison %s of weighted values" % (bits(got), bits(want))
        return Case(d, ["C01 cmp %s %s %s" % (slist(w), slist(a), slist(b))], [bits(got)], orc,
                    tag="cmp/n=%d%s" % (len(w), numtag), nontrivial=(a != b))
    if k == "dom":
        sl = slice(*d["slice"])
        ia = list(range(*sl.indices(len(wa))))
        ib = list(range(*sl.indices(len(wb))))
        got = fa.dominates(fb, sl) if d["slice"] != [None, None, None] or d.get("explicit") else fa.dominates(fb)
        sa, sb = [wa[i] for i in ia], [wb[i] for i in ib]
        want = all(x >= y for x, y in zip(sa, sb)) and any(x > y for x, y in zip(sa, sb))
        orc = None if bool(got) == want else "dominates=%s but definition gives %s on slice %s" % (got, want, d["slice"])
        return Case(d, ["C01 dom %s %s %s %s %s" % (slist(w), slist(a), slist(b), ilist(ia), ilist(ib))],
                    [bits([got])], orc, tag="dom/n=%d/len=%d%s" % (len(w), len(ia), numtag), nontrivial=(a != b))
    if k == "vals":
        if d.get("mut"):
            # values assigned from a caller-owned mutable container that the caller changes afterwards:
            # what is read back must still be what was assigned (the fitness keeps no alias to the container)
            buf = [float(x) for x in a]
            fa = F()
            fa.values = buf
            early_clone = copy.deepcopy(fa)
            for i in range(len(buf)):
                buf[i] = buf[i] + 7.0
            buf.append(1.0)
            if exact(fa.values) != tuple(a) or exact(early_clone.values) != tuple(a) or exact(fa.wvalues) != wa:
                return Case(d, [], [], oracle="values %r read back after the caller changed the list it had assigned from "
                            "(assigned %r): the fitness aliases the caller's container" % (fa.values, a), tag="vals/alias")
        back = fa.values
        cl = copy.deepcopy(fa)
        out = "%s %s %s %s %s" % (slist(exact(fa.wvalues)), slist(exact(back)), bits([fa.valid]),
                                  bits([cl == fa]), bits([hash(cl) == hash(fa)]))
        orc = None
        if all(x in (1, -1) for x in w) and exact(back) != tuple(a):
            # the statement promises the read-back for weights +1/-1; other weights are compared with the model only
            orc = "values read back %r differ from assigned %r (weights +-1)" % (back, a)
        elif not fa.valid:
            orc = "fitness with assigned values reports invalid"
        elif not (cl == fa) or cl != fa or cl < fa or cl > fa or not cl.valid or cl is fa or exact(cl.values) != tuple(a):
            orc = "clone does not compare equal to its original"
        return Case(d, ["C01 vals %s %s" % (slist(w), slist(a))], [out], orc,
                    tag="vals/n=%d%s" % (len(w), "/cls=" + d["cls"] if d.get("cls") else ""))
    if k == "hist":
        F = fit_class(w)
        f = F()
        vbits, orc, last = [], None, None
        toks = []
        want = False
        for op in d["ops"]:
            if op == "del":
                del f.values
                toks.append("del")
                want = False
            elif op in ("badlen", "badtype"):
                # an assignment the library rejects (wrong length: AssertionError; a non-number: TypeError), caught
                # by the caller: the fitness must be left as it was.  The model is told "an assignment of the
                # wrong length" in both cases (Fitness.step leaves the state unchanged).
                bad = tuple([0.0] * (len(w) + 1)) if op == "badlen" else tuple([None] * len(w))
                try:
                    f.values = bad
                    if orc is None:
                        orc = "assignment of %r to a fitness with %d weights was accepted" % (bad, len(w))
                except (AssertionError, TypeError):
                    pass
                toks.append(slist([0] * (len(w) + 1)))
            else:
                vals = [fr(x) for x in op]
                f.values = tuple(float(x) for x in vals)
                toks.append(slist(vals))
                want = True
                last = vals
            vbits.append(f.valid)
            if f.valid != want and orc is None:
                orc = "valid=%s after %s" % (f.valid, "deletion" if op == "del" else "a rejected assignment" if op in ("badlen", "badtype") else "assignment")
            if want and exact(f.values) != tuple(last) and orc is None:
                orc = "values read back differ from last assignment"
        return Case(d, ["C01 hist %s %s" % (slist(w), " ".join(toks))],
                    ["%s %s" % (bits(vbits), slist(exact(f.values)))], orc, tag="hist/len=%d" % len(d["ops"]),
                    nontrivial=len(d["ops"]) > 1)
    if k == "chist":
        F = fit_class(w, constrained=True)
        f = F()
        toks, obs, orc = [], [], None
        want_valid, last = False, None
        for op in d["ops"]:
            if op == "del":
                del f.values
                toks.append("del"); want_valid = False
            elif op in ("badlen", "badtype"):
                bad = tuple([0.0] * (len(w) + 1)) if op == "badlen" else tuple([None] * len(w))
                try:
                    f.values = bad
                    if orc is None:
                        orc = "assignment of %r to a fitness with %d weights was accepted" % (bad, len(w))
                except (AssertionError, TypeError):
                    pass
                toks.append(slist([0] * (len(w) + 1)))
            elif isinstance(op, dict):
                cv = op["cv"]
                f.constraint_violation = None if cv is None else list(cv)
                toks.append("cv=" + ("none" if cv is None else (",".join(str(int(c)) for c in cv) or "-")))
            else:
                vals = [fr(x) for x in op]
                f.values = tuple(float(x) for x in vals)
                toks.append(slist(vals)); want_valid = True; last = vals
            viol = base._violates_constraint(f)
            obs.append(bits([f.valid, viol]) + ("c" if f.constraint_violation is not None else "n"))
            if orc is None and f.valid != want_valid:
                orc = "constrained fitness reports valid=%s after %s" % (f.valid, toks[-1])
            if orc is None and want_valid and exact(f.values) != tuple(last) and all(x in (1, -1) for x in w):
                orc = "values read back differ from the last assignment"
            if orc is None and not want_valid and len(f.values) != 0:
                orc = "values %r still readable after deletion" % (f.values,)
            if orc is None and viol and f.valid:
                orc = "an evaluated fitness counts as constraint-violating"
        return Case(d, ["C01 chist %s %s" % (slist(w), " ".join(toks))],
                    ["%s %s" % (",".join(obs), slist(exact(f.values)))], orc, tag="chist/len=%d" % len(d["ops"]))
    if k == "ccmp":
        F = fit_class(w, constrained=True, derived=d.get("cls"))

        def mk(vals, cv):
            v = tuple(float(fr(x)) for x in vals) if vals else ()
            return F(v, None if cv is None else list(cv))
        fa, fb = mk(d["a"], d["cva"]), mk(d["b"], d["cvb"])
        # who violates is decided from the case description (unevaluated, record present, positive sum),
        # not by asking the implementation
        def viol(vals, cv):
            return (not vals) and cv is not None and sum(int(c) for c in cv) > 0
        va, vb = viol(d["a"], d["cva"]), viol(d["b"], d["cvb"])
        ia, ib = base._violates_constraint(fa), base._violates_constraint(fb)
        got = [fa < fb, fa <= fb, fa > fb, fa >= fb, fa == fb, fa != fb]
        dom = fa.dominates(fb)
        cl = copy.deepcopy(fa)
        out = "%s %s %s %s" % (bits(got), bits([dom]), bits([va, vb]),
                               bits([cl == fa, base._violates_constraint(cl)]))
        orc = None
        if (ia, ib) != (va, vb):
            orc = "_violates_constraint says %s/%s, the definition (unevaluated, record with positive sum) %s/%s" % (ia, ib, va, vb)
        # the statement: a violating fitness never compares better than, equal to, or dominating a
        # feasible evaluated one
        if orc is None and va and fb.valid and not vb:
            if fa > fb or fa >= fb or fa == fb or dom or not (fa != fb):
                orc = "violating fitness compares better/equal/dominating vs feasible evaluated one: %s dom=%s" % (bits(got), dom)
        if vb and fa.valid and not va:
            if fb > fa or fb >= fa or fb == fa or fb.dominates(fa):
                orc = "violating fitness (right operand) compares better/equal/dominating"
        if not va and not vb and fa.valid and fb.valid:
            wa, wb = exact(fa.wvalues), exact(fb.wvalues)
            want = [lex_lt(wa, wb), lex_lt(wa, wb) or wa == wb, lex_lt(wb, wa), lex_lt(wb, wa) or wa == wb,
                    wa == wb, wa != wb]
            wd = all(x >= y for x, y in zip(wa, wb)) and any(x > y for x, y in zip(wa, wb))
            if got != want or bool(dom) != wd:
                orc = "feasible constrained fitnesses do not compare lexicographically"
        if orc is None and (not (cl == fa) or base._violates_constraint(cl) != va or cl.valid != fa.valid):
            orc = "clone of a constrained fitness does not compare equal to its original (violation flags lost)"
        kinds = ("viol" if va else "eval" if fa.valid else "uneval") + "-" + ("viol" if vb else "eval" if fb.valid else "uneval")
        cvs = lambda cv: "none" if cv is None else (",".join(str(int(c)) for c in cv) or "-")
        return Case(d, ["C01 ccmp %s %s %s %s %s" % (slist(w), slist([fr(x) for x in d["a"]]), cvs(d["cva"]),
                                                     slist([fr(x) for x in d["b"]]), cvs(d["cvb"]))],
                    [out], orc, tag="ccmp/" + kinds, nontrivial=(fa.valid or fb.valid))
    raise ValueError(k)


def eval_sat(d):
    """Finite weights and finite values whose products saturate at +-inf: the weighted values are what the
    statement compares, ties at infinity included.  The model is driven with an order-isomorphic image of the
    weighted values (inf -> 2^1100, weights 1), the oracle compares the products computed here."""
    w = [float(x) for x in d["w"]]
    a = [float(x) for x in d["a"]]
    b = [float(x) for x in d["b"]]
    F = fit_class(tuple(d["w"]), num="raw")
    fa, fb = F(tuple(a)), F(tuple(b))
    wa = tuple(x * y for x, y in zip(a, w))
    wb = tuple(x * y for x, y in zip(b, w))
    ninf = sum(1 for x in wa + wb if x in (float("inf"), float("-inf")))
    ea, eb = [enc_sat(x) for x in wa], [enc_sat(x) for x in wb]
    ones = ["1"] * len(w)
    got = [fa < fb, fa <= fb, fa > fb, fa >= fb, fa == fb, fa != fb]
    want = [lex_lt(wa, wb), lex_lt(wa, wb) or wa == wb, lex_lt(wb, wa), lex_lt(wb, wa) or wa == wb,
            wa == wb, wa != wb]
    sl = slice(*d["slice"])
    ia = list(range(*sl.indices(len(wa))))
    gd = fa.dominates(fb, sl)
    sa, sb = [wa[i] for i in ia], [wb[i] for i in ia]
    wd = all(x >= y for x, y in zip(sa, sb)) and any(x > y for x, y in zip(sa, sb))
    orc = None
    if got != want:
        orc = ("operators %s differ from lexicographic comparison %s of the weighted values %r / %r (weights %r)"
               % (bits(got), bits(want), wa, wb, w))
    elif bool(gd) != wd:
        orc = "dominates=%s but the definition gives %s on weighted values %r / %r, slice %s" % (gd, wd, wa, wb, d["slice"])
    return Case(d, ["C01 cmp %s %s %s" % (slist(ones), slist(ea), slist(eb)),
                    "C01 dom %s %s %s %s %s" % (slist(ones), slist(ea), slist(eb), ilist(ia), ilist(ia))],
                [bits(got), bits([gd])], orc, tag="sat/n=%d/inf=%d" % (len(w), min(ninf, 3)), nontrivial=(wa != wb or ninf > 0))


def eval_ctor(d):
    """Values handed over in any sized container, to the constructor or through `.values`: the fitness is valid,
    reads the values back (weights +-1) and equals a fitness assigned the same values as a tuple."""
    import numpy
    w = [fr(x) for x in d["w"]]
    a = [fr(x) for x in d["a"]]
    cons = bool(d.get("constrained"))
    F = fit_class(w, constrained=cons)
    fl = tuple(float(x) for x in a)
    box = {"tuple": tuple, "list": list, "array": lambda t: numpy.array(t, dtype=float),
           "array32": lambda t: numpy.array(t, dtype=numpy.float32), "arrayint": lambda t: numpy.array(t, dtype=numpy.int64),
           "deque": lambda t: __import__("collections").deque(t)}[d["box"]]
    ref = F()
    if a:
        ref.values = fl
    orc = None
    try:
        if d["via"] == "ctor":
            f = F(box(fl))
        elif d["via"] == "kw":
            f = F(values=box(fl))
        else:
            f = F()
            f.values = box(fl)
    except Exception as e:
        return Case(d, [], [], oracle="assigning legal values %r as %s (%s) raised %s: %s" % (fl, d["box"], d["via"], type(e).__name__, e),
                    tag="ctor/raise")
    want_valid = len(a) > 0
    back = tuple(Fr(float(x)) for x in f.values)
    if f.valid != want_valid:
        orc = "fitness built from %s %r (%s) reports valid=%s" % (d["box"], fl, d["via"], f.valid)
    elif want_valid and all(x in (1, -1) for x in w) and back != tuple(a):
        orc = "values read back %r differ from assigned %r (weights +-1)" % (f.values, fl)
    elif want_valid and (not (f == ref) or f != ref or f < ref or f > ref):
        orc = "fitness built from %s %r (%s) does not compare equal to one assigned the same values" % (d["box"], fl, d["via"])
    if not want_valid:
        return Case(d, [], [], orc, tag="ctor/empty/%s" % d["box"])
    cl = copy.deepcopy(f)
    tagc = "ctor/%s/%s/%s" % (d["box"], d["via"], "zero" if all(x == 0 for x in a) else "nz")
    if cons:     # (the constrained class defines no hash; the model's `vals` line describes the plain class)
        if orc is None and (not (cl == f) or not cl.valid):
            orc = "clone of a constrained fitness built from %s does not compare equal" % d["box"]
        return Case(d, [], [], orc, tag=tagc + "/constrained")
    out = "%s %s %s %s %s" % (slist(tuple(Fr(float(x)) for x in f.wvalues)), slist(back), bits([f.valid]),
                              bits([cl == f]), bits([hash(cl) == hash(ref)]))
    return Case(d, ["C01 vals %s %s" % (slist(w), slist(a))], [out], orc,
                tag=tagc)


WSET = ["1", "-1", "2", "-1/2"]
ALL_SLICES = None


def slices_for(n):
    vals = [None] + list(range(-n - 1, n + 2))
    out = []
    seen = set()
    for st in vals:
        for sp in vals:
            for step in (None, 1, 2, -1, -2):
                idx = tuple(range(*slice(st, sp, step).indices(n)))
                if idx not in seen:
                    seen.add(idx)
                    out.append([st, sp, step])
    return out


def rand_dyadic(rng, big=False):
    den = rng.choice([1, 1, 2, 4, 8, 1024])
    num = rng.randint(-40, 40) if not big else rng.randint(-(1 << 20), 1 << 20)
    return sfr(Fr(num, den))


def rand_weight(rng):
    while True:
        q = Fr(rng.choice([1, 1, 1, 2, 3, 5, 7, 10]), rng.choice([1, 1, 1, 2, 4, 8]))
        q = q if rng.random() < 0.5 else -q
        if q != 0:
            return sfr(q)


def generate(tier, rng, mult):
    thorough = tier == "thorough"
    nmax = 3 if thorough else 2
    for n in range(1, nmax + 1):
        sls = slices_for(n)
        tuples = [list(map(str, t)) for t in itertools.product([0, 1, 2], repeat=n)]
        wsets = list(itertools.product(WSET, repeat=n))
        if n == 3 and not thorough:
            continue
        for w in wsets:
            for a in tuples:
                yield {"k": "vals", "w": list(w), "a": a}
                yield {"k": "vals", "w": list(w), "a": a, "mut": True}
                for b in tuples:
                    yield {"k": "cmp", "w": list(w), "a": a, "b": b}
                    if n < 3 or rng.random() < 0.2:
                        for sl in (sls if n <= 2 else rng.sample(sls, 3)):
                            yield {"k": "dom", "w": list(w), "a": a, "b": b, "slice": sl}
    # constrained: every kind pair x flag vectors
    cvs = [None, [], [False], [True], [False, False], [True, False], [False, True, True], [2, -1], [1, -1], [-3, 1]]
    for w in (["1"], ["-1"], ["1", "-1"], ["-2", "-1/2"]):
        n = len(w)
        tuples = [[]] + [list(map(str, t)) for t in itertools.product([0, 1], repeat=n)]
        for a in tuples:
            for b in tuples:
                for cva in cvs:
                    for cvb in cvs:
                        yield {"k": "ccmp", "w": w, "a": a, "cva": cva, "b": b, "cvb": cvb}
    # constrained histories (assignment / violation record / deletion in every order)
    cvops = [{"cv": None}, {"cv": [True]}, {"cv": [False]}, {"cv": [1, -1]}]
    for w in (["1"], ["-1", "2"]):
        vs = [[str(i + 1) for i in range(len(w))], ["0"] * len(w)]
        atoms = ["del", "badlen", "badtype"] + vs + cvops
        for L in (1, 2, 3):
            for ops in itertools.product(atoms, repeat=L):
                yield {"k": "chist", "w": w, "ops": list(ops)}
    # class hierarchies: a fitness class derived from another concrete (already used) fitness class that overrides
    # the weights, and weights given as a list
    for cls in ("sub", "list"):
        for w in (["1"], ["-1"], ["-1", "-1"], ["1", "-1"], ["-1", "2", "1"]):
            n = len(w)
            tuples = [list(map(str, t)) for t in itertools.product([0, 1, 2], repeat=n)][:9]
            for a in tuples:
                yield {"k": "vals", "w": w, "a": a, "cls": cls}
                for b in tuples:
                    yield {"k": "cmp", "w": w, "a": a, "b": b, "cls": cls}
                    yield {"k": "dom", "w": w, "a": a, "b": b, "slice": [None, None, None], "cls": cls}
                    yield {"k": "ccmp", "w": w, "a": a, "cva": None, "b": b, "cvb": [True], "cls": cls}
    # containers: every sized container, constructor / keyword / property, zero and single-element tuples
    for cons in (False, True):
        for w, a in ((["-1"], ["3"]), (["-1"], ["0"]), (["1"], ["0"]), (["1"], ["-5/2"]), (["-1", "1"], ["0", "0"]),
                     (["-1", "1"], ["4", "0"]), (["1", "-1", "-1"], ["1", "2", "3"]), (["2", "-1/2"], ["0", "6"]), (["1"], [])):
            for box in ("tuple", "list", "array", "array32", "arrayint", "deque"):
                if box == "arrayint" and any(Fr(x).denominator != 1 for x in a):
                    continue
                for via in (("ctor", "kw", "prop") if a else ("ctor", "kw")):
                    yield {"k": "ctor", "w": w, "a": a, "box": box, "via": via, "constrained": cons}
    # exact numbers that are not doubles: integers beyond 2**53 and rationals, integer weights (products exact)
    B = 2 ** 53
    for _ in range(150 * mult):
        n = rng.randint(1, 3)
        w = [str(rng.choice([1, -1, 1, -1, 2, -3])) for _ in range(n)]
        if rng.random() < 0.6:
            num = "int"
            a = [str(rng.choice([1, -1]) * (rng.choice([B, 10 ** 17, 2 ** 64, 3 * 10 ** 30]) + rng.randint(0, 3))) for _ in range(n)]
            b = list(a)
            i = rng.randrange(n)
            b[i] = str(int(b[i]) + rng.choice([1, -1, 2]))
        else:
            num = "frac"
            a = [sfr(Fr(rng.randint(-9, 9), rng.choice([3, 7, 10 ** 20 + 1]))) for _ in range(n)]
            b = list(a)
            i = rng.randrange(n)
            b[i] = sfr(Fr(b[i]) + Fr(rng.choice([1, -1]), 10 ** 20))
        if rng.random() < 0.5:
            a, b = b, a
        yield {"k": "cmp", "w": w, "a": a, "b": b, "num": num}
        yield {"k": "dom", "w": w, "a": a, "b": b, "slice": [None, None, None], "num": num}
        if n > 1:
            yield {"k": "dom", "w": w, "a": a, "b": b, "slice": rng.choice(slices_for(n)), "num": num, "explicit": True}
    # finite weights x finite values whose weighted values saturate at +-inf (ties at infinity)
    for _ in range(300 * mult):
        n = rng.randint(1, 3)
        w = [repr(rng.choice([10.0, -1e10, 1e200, 1e200, 10.0, 2.0, 1.0, -1.0])) for _ in range(n)]
        pool = [1e308, 1.5e308, 2e307, 1e300, 3e299, 1e150, 1e120, 1e308, 1.7e308, 1.0, 0.0, 3.5]
        a = [repr(rng.choice(pool) * rng.choice([1, -1])) for _ in range(n)]
        # the second tuple: same sign per coordinate most of the time, so that both products saturate at the same
        # infinity (a tie the comparison must see as a tie) while another coordinate decides
        b = [x if rng.random() < 0.3 else repr(rng.choice(pool) * (rng.choice([1, 1, 1, -1]) if float(x) >= 0 else rng.choice([-1, -1, -1, 1])))
             for x in a]
        yield {"k": "sat", "w": w, "a": a, "b": b, "slice": rng.choice(slices_for(n))}
    # near-ties: values one or a few ulps apart (weights +-1 keep the products exact)
    import math
    for _ in range(400 * mult):
        n = rng.randint(1, 4)
        w = [rng.choice(["1", "-1"]) for _ in range(n)]
        a = [rng.choice([1.0, 0.3, 1e-9, 1e9, 0.1 + 0.2, 2.0 ** -30]) * rng.choice([1, -1]) for _ in range(n)]
        b = list(a)
        i = rng.randrange(n)
        for _k in range(rng.randint(1, 3)):
            b[i] = math.nextafter(b[i], math.inf if rng.random() < 0.5 else -math.inf)
        a_s, b_s = [sfr(Fr(x)) for x in a], [sfr(Fr(x)) for x in b]
        yield {"k": "cmp", "w": w, "a": a_s, "b": b_s}
        yield {"k": "dom", "w": w, "a": a_s, "b": b_s, "slice": [None, None, None]}
        yield {"k": "ccmp", "w": w, "a": a_s, "cva": None, "b": b_s, "cvb": None}
    # random
    nrand = (20000 if thorough else 3000) * mult
    for _ in range(nrand):
        n = rng.randint(1, 5)
        w = [rand_weight(rng) for _ in range(n)]
        big = rng.random() < 0.2
        a = [rand_dyadic(rng, big) for _ in range(n)]
        r = rng.random()
        if r < 0.3:
            b = list(a)
            if rng.random() < 0.7:
                b[rng.randrange(n)] = rand_dyadic(rng, big)   # equal prefix, one change
        else:
            b = [x if rng.random() < 0.4 else rand_dyadic(rng, big) for x in a]
        kind = rng.random()
        if kind < 0.35:
            yield {"k": "cmp", "w": w, "a": a, "b": b}
        elif kind < 0.7:
            sl = rng.choice(slices_for(n))
            yield {"k": "dom", "w": w, "a": a, "b": b, "slice": sl, "explicit": rng.random() < 0.5}
        elif kind < 0.8:
            yield {"k": "vals", "w": w, "a": a, "mut": rng.random() < 0.5}
        elif kind < 0.9:
            ops = []
            for _ in range(rng.randint(1, 8)):
                r = rng.random()
                ops.append("del" if r < 0.3 else "badlen" if r < 0.4 else "badtype" if r < 0.5 else [rand_dyadic(rng) for _ in range(n)])
            yield {"k": "hist", "w": w, "ops": ops}
        else:
            cv = lambda: rng.choice([None, [], [False], [True], [rng.random() < 0.5 for _ in range(3)], [rng.randint(-2, 2) for _ in range(3)]])
            yield {"k": "ccmp", "w": w, "a": a if rng.random() < 0.6 else [], "cva": cv(),
                   "b": b if rng.random() < 0.6 else [], "cvb": cv()}


def shrink(d):
    if d["k"] in ("cmp", "dom", "vals", "sat") and len(d["w"]) > 1:
        for i in range(len(d["w"])):
            e = dict(d)
            e["w"] = d["w"][:i] + d["w"][i + 1:]
            e["a"] = d["a"][:i] + d["a"][i + 1:]
            if "b" in d:
                e["b"] = d["b"][:i] + d["b"][i + 1:]
            if d["k"] in ("dom", "sat"):
                e["slice"] = [None, None, None]
            yield e
    if d["k"] == "hist" and len(d["ops"]) > 1:
        for i in range(len(d["ops"])):
            e = dict(d)
            e["ops"] = d["ops"][:i] + d["ops"][i + 1:]
            yield e
    for key in ("a", "b"):
        if key in d:
            for i, x in enumerate(d[key]):
                if x not in ("0", "1"):
                    for r in ("0", "1"):
                        e = dict(d)
                        e[key] = d[key][:i] + [r] + d[key][i + 1:]
                        yield e


def classify(desc, msg, known):
    return None
