"""C01 — Fitness comparison and Pareto dominance follow the weighted values (deap/base.py)."""
import copy
import itertools
from fractions import Fraction as Fr

from lib import Case
from deap import base

ANCHORS = [("deap/base.py", ["Fitness", "ConstrainedFitness", "_violates_constraint"])]
LEVEL = "proof"
RULE = ("exhaustive: weights in {1,-1,2,-1/2}^n (n<=2; n<=3 thorough) x all pairs of value tuples over "
        "{0,1,2}^n x 6 operators and dominates on every slice; constrained: all kind pairs x flag vectors; "
        "random: n<=5 dyadic weights/values. Non-trivial = distinct case whose two tuples are not identical "
        "(or a history / constrained case with at least one evaluated operand)")
EXHAUSTIVE = {"quick": False, "thorough": False}
TIME_BUDGET = {"quick": 60, "thorough": 900}
TRUSTED = ["IEEE-754: products/quotients of the small dyadic inputs used here are exact, so the Rat model "
           "and the float implementation compute the same numbers",
           "CPython tuple comparison and slicing (modelled in Core/Py.lean, exercised by every line)"]
ASSUMPTIONS = ["weights are non-zero finite numbers; values are finite numbers (no NaN)"]
EXPLANATION = ("Theorems C01.* are proved for every linearly ordered field and all tuple lengths; "
               "the correspondence ties Core/Fitness.lean to deap.base on exactly-representable inputs.")


def fr(s):
    return Fr(s)


def sfr(q):
    q = Fr(q)
    return str(q.numerator) if q.denominator == 1 else "%d/%d" % (q.numerator, q.denominator)


def slist(xs):
    xs = list(xs)
    return ",".join(sfr(x) for x in xs) if xs else "-"


def ilist(xs):
    xs = list(xs)
    return ",".join(str(x) for x in xs) if xs else "-"


def bits(bs):
    return "".join("1" if b else "0" for b in bs)


_classes = {}


def fit_class(weights, constrained=False):
    key = (tuple(weights), constrained)
    if key not in _classes:
        b = base.ConstrainedFitness if constrained else base.Fitness
        _classes[key] = type("Fit", (b,), {"weights": tuple(float(w) for w in weights)})
    return _classes[key]


def lex_lt(a, b):
    for x, y in zip(a, b):
        if x != y:
            return x < y
    return len(a) < len(b)


def wv(weights, vals):
    return tuple(Fr(v) * Fr(w) for v, w in zip(vals, weights))


def exact(t):
    return tuple(Fr(x) for x in t)


def evaluate(d):
    k = d["k"]
    w = [fr(x) for x in d["w"]]
    if k in ("cmp", "dom", "vals"):
        F = fit_class(w)
        a = [fr(x) for x in d["a"]]
        fa = F(tuple(float(x) for x in a))
        wa = wv(w, a)
        # (the internal representation `wvalues` is not part of the statement: it is compared with the model's
        #  through the `vals` protocol line only; the oracle below uses the independently computed `wa`)
    if k in ("cmp", "dom"):
        b = [fr(x) for x in d["b"]]
        fb = F(tuple(float(x) for x in b))
        wb = wv(w, b)
    if k == "cmp":
        got = [fa < fb, fa <= fb, fa > fb, fa >= fb, fa == fb, fa != fb]
        want = [lex_lt(wa, wb), lex_lt(wa, wb) or wa == wb, lex_lt(wb, wa), lex_lt(wb, wa) or wa == wb,
                wa == wb, wa != wb]
        orc = None if got == want else "operators %s differ from lexicographic comparison %s of weighted values" % (bits(got), bits(want))
        return Case(d, ["C01 cmp %s %s %s" % (slist(w), slist(a), slist(b))], [bits(got)], orc,
                    tag="cmp/n=%d" % len(w), nontrivial=(a != b))
    if k == "dom":
        sl = slice(*d["slice"])
        ia = list(range(*sl.indices(len(wa))))
        ib = list(range(*sl.indices(len(wb))))
        got = fa.dominates(fb, sl) if d["slice"] != [None, None, None] or d.get("explicit") else fa.dominates(fb)
        sa, sb = [wa[i] for i in ia], [wb[i] for i in ib]
        want = all(x >= y for x, y in zip(sa, sb)) and any(x > y for x, y in zip(sa, sb))
        orc = None if bool(got) == want else "dominates=%s but definition gives %s on slice %s" % (got, want, d["slice"])
        return Case(d, ["C01 dom %s %s %s %s %s" % (slist(w), slist(a), slist(b), ilist(ia), ilist(ib))],
                    [bits([got])], orc, tag="dom/n=%d/len=%d" % (len(w), len(ia)), nontrivial=(a != b))
    if k == "vals":
        if d.get("mut"):
            # values assigned from a caller-owned mutable container that the caller changes afterwards:
            # what is read back must still be what was assigned (the fitness keeps no alias to the container)
            buf = [float(x) for x in a]
            fa = F()
            fa.values = buf
            early_clone = copy.deepcopy(fa)
            for i in range(len(buf)):
                buf[i] = buf[i] + 7.0
            buf.append(1.0)
            if exact(fa.values) != tuple(a) or exact(early_clone.values) != tuple(a) or exact(fa.wvalues) != wa:
                return Case(d, [], [], oracle="values %r read back after the caller changed the list it had assigned from "
                            "(assigned %r): the fitness aliases the caller's container" % (fa.values, a), tag="vals/alias")
        back = fa.values
        cl = copy.deepcopy(fa)
        out = "%s %s %s %s %s" % (slist(exact(fa.wvalues)), slist(exact(back)), bits([fa.valid]),
                                  bits([cl == fa]), bits([hash(cl) == hash(fa)]))
        orc = None
        if all(x in (1, -1) for x in w) and exact(back) != tuple(a):
            # the statement promises the read-back for weights +1/-1; other weights are compared with the model only
            orc = "values read back %r differ from assigned %r (weights +-1)" % (back, a)
        elif not fa.valid:
            orc = "fitness with assigned values reports invalid"
        elif not (cl == fa) or cl != fa or cl < fa or cl > fa or not cl.valid or cl is fa or exact(cl.values) != tuple(a):
            orc = "clone does not compare equal to its original"
        return Case(d, ["C01 vals %s %s" % (slist(w), slist(a))], [out], orc, tag="vals/n=%d" % len(w))
    if k == "hist":
        F = fit_class(w)
        f = F()
        vbits, orc, last = [], None, None
        toks = []
        for op in d["ops"]:
            if op == "del":
                del f.values
                toks.append("del")
                want = False
            else:
                vals = [fr(x) for x in op]
                f.values = tuple(float(x) for x in vals)
                toks.append(slist(vals))
                want = True
                last = vals
            vbits.append(f.valid)
            if f.valid != want and orc is None:
                orc = "valid=%s after %s" % (f.valid, "deletion" if op == "del" else "assignment")
            if want and exact(f.values) != tuple(last) and orc is None:
                orc = "values read back differ from last assignment"
        return Case(d, ["C01 hist %s %s" % (slist(w), " ".join(toks))],
                    ["%s %s" % (bits(vbits), slist(exact(f.values)))], orc, tag="hist/len=%d" % len(d["ops"]),
                    nontrivial=len(d["ops"]) > 1)
    if k == "chist":
        F = fit_class(w, constrained=True)
        f = F()
        toks, obs, orc = [], [], None
        want_valid, last = False, None
        for op in d["ops"]:
            if op == "del":
                del f.values
                toks.append("del"); want_valid = False
            elif isinstance(op, dict):
                cv = op["cv"]
                f.constraint_violation = None if cv is None else list(cv)
                toks.append("cv=" + ("none" if cv is None else (",".join(str(int(c)) for c in cv) or "-")))
            else:
                vals = [fr(x) for x in op]
                f.values = tuple(float(x) for x in vals)
                toks.append(slist(vals)); want_valid = True; last = vals
            viol = base._violates_constraint(f)
            obs.append(bits([f.valid, viol]) + ("c" if f.constraint_violation is not None else "n"))
            if orc is None and f.valid != want_valid:
                orc = "constrained fitness reports valid=%s after %s" % (f.valid, toks[-1])
            if orc is None and want_valid and exact(f.values) != tuple(last) and all(x in (1, -1) for x in w):
                orc = "values read back differ from the last assignment"
            if orc is None and not want_valid and len(f.values) != 0:
                orc = "values %r still readable after deletion" % (f.values,)
            if orc is None and viol and f.valid:
                orc = "an evaluated fitness counts as constraint-violating"
        return Case(d, ["C01 chist %s %s" % (slist(w), " ".join(toks))],
                    ["%s %s" % (",".join(obs), slist(exact(f.values)))], orc, tag="chist/len=%d" % len(d["ops"]))
    if k == "ccmp":
        F = fit_class(w, constrained=True)

        def mk(vals, cv):
            v = tuple(float(fr(x)) for x in vals) if vals else ()
            return F(v, None if cv is None else list(cv))
        fa, fb = mk(d["a"], d["cva"]), mk(d["b"], d["cvb"])
        # who violates is decided from the case description (unevaluated, record present, positive sum),
        # not by asking the implementation
        def viol(vals, cv):
            return (not vals) and cv is not None and sum(int(c) for c in cv) > 0
        va, vb = viol(d["a"], d["cva"]), viol(d["b"], d["cvb"])
        ia, ib = base._violates_constraint(fa), base._violates_constraint(fb)
        got = [fa < fb, fa <= fb, fa > fb, fa >= fb, fa == fb, fa != fb]
        dom = fa.dominates(fb)
        cl = copy.deepcopy(fa)
        out = "%s %s %s %s" % (bits(got), bits([dom]), bits([va, vb]),
                               bits([cl == fa, base._violates_constraint(cl)]))
        orc = None
        if (ia, ib) != (va, vb):
            orc = "_violates_constraint says %s/%s, the definition (unevaluated, record with positive sum) %s/%s" % (ia, ib, va, vb)
        # the statement: a violating fitness never compares better than, equal to, or dominating a
        # feasible evaluated one
        if orc is None and va and fb.valid and not vb:
            if fa > fb or fa >= fb or fa == fb or dom or not (fa != fb):
                orc = "violating fitness compares better/equal/dominating vs feasible evaluated one: %s dom=%s" % (bits(got), dom)
        if vb and fa.valid and not va:
            if fb > fa or fb >= fa or fb == fa or fb.dominates(fa):
                orc = "violating fitness (right operand) compares better/equal/dominating"
        if not va and not vb and fa.valid and fb.valid:
            wa, wb = exact(fa.wvalues), exact(fb.wvalues)
            want = [lex_lt(wa, wb), lex_lt(wa, wb) or wa == wb, lex_lt(wb, wa), lex_lt(wb, wa) or wa == wb,
                    wa == wb, wa != wb]
            wd = all(x >= y for x, y in zip(wa, wb)) and any(x > y for x, y in zip(wa, wb))
            if got != want or bool(dom) != wd:
                orc = "feasible constrained fitnesses do not compare lexicographically"
        if orc is None and (not (cl == fa) or base._violates_constraint(cl) != va or cl.valid != fa.valid):
            orc = "clone of a constrained fitness does not compare equal to its original (violation flags lost)"
        kinds = ("viol" if va else "eval" if fa.valid else "uneval") + "-" + ("viol" if vb else "eval" if fb.valid else "uneval")
        cvs = lambda cv: "none" if cv is None else (",".join(str(int(c)) for c in cv) or "-")
        return Case(d, ["C01 ccmp %s %s %s %s %s" % (slist(w), slist([fr(x) for x in d["a"]]), cvs(d["cva"]),
                                                     slist([fr(x) for x in d["b"]]), cvs(d["cvb"]))],
                    [out], orc, tag="ccmp/" + kinds, nontrivial=(fa.valid or fb.valid))
    raise ValueError(k)


WSET = ["1", "-1", "2", "-1/2"]
ALL_SLICES = None


def slices_for(n):
    vals = [None] + list(range(-n - 1, n + 2))
    out = []
    seen = set()
    for st in vals:
        for sp in vals:
            for step in (None, 1, 2, -1, -2):
                idx = tuple(range(*slice(st, sp, step).indices(n)))
                if idx not in seen:
                    seen.add(idx)
                    out.append([st, sp, step])
    return out


def rand_dyadic(rng, big=False):
    den = rng.choice([1, 1, 2, 4, 8, 1024])
    num = rng.randint(-40, 40) if not big else rng.randint(-(1 << 20), 1 << 20)
    return sfr(Fr(num, den))


def rand_weight(rng):
    while True:
        q = Fr(rng.choice([1, 1, 1, 2, 3, 5, 7, 10]), rng.choice([1, 1, 1, 2, 4, 8]))
        q = q if rng.random() < 0.5 else -q
        if q != 0:
            return sfr(q)


def generate(tier, rng, mult):
    thorough = tier == "thorough"
    nmax = 3 if thorough else 2
    for n in range(1, nmax + 1):
        sls = slices_for(n)
        tuples = [list(map(str, t)) for t in itertools.product([0, 1, 2], repeat=n)]
        wsets = list(itertools.product(WSET, repeat=n))
        if n == 3 and not thorough:
            continue
        for w in wsets:
            for a in tuples:
                yield {"k": "vals", "w": list(w), "a": a}
                yield {"k": "vals", "w": list(w), "a": a, "mut": True}
                for b in tuples:
                    yield {"k": "cmp", "w": list(w), "a": a, "b": b}
                    if n < 3 or rng.random() < 0.2:
                        for sl in (sls if n <= 2 else rng.sample(sls, 3)):
                            yield {"k": "dom", "w": list(w), "a": a, "b": b, "slice": sl}
    # constrained: every kind pair x flag vectors
    cvs = [None, [], [False], [True], [False, False], [True, False], [False, True, True], [2, -1], [1, -1], [-3, 1]]
    for w in (["1"], ["-1"], ["1", "-1"], ["-2", "-1/2"]):
        n = len(w)
        tuples = [[]] + [list(map(str, t)) for t in itertools.product([0, 1], repeat=n)]
        for a in tuples:
            for b in tuples:
                for cva in cvs:
                    for cvb in cvs:
                        yield {"k": "ccmp", "w": w, "a": a, "cva": cva, "b": b, "cvb": cvb}
    # constrained histories (assignment / violation record / deletion in every order)
    cvops = [{"cv": None}, {"cv": [True]}, {"cv": [False]}, {"cv": [1, -1]}]
    for w in (["1"], ["-1", "2"]):
        vs = [[str(i + 1) for i in range(len(w))], ["0"] * len(w)]
        atoms = ["del"] + vs + cvops
        for L in (1, 2, 3):
            for ops in itertools.product(atoms, repeat=L):
                yield {"k": "chist", "w": w, "ops": list(ops)}
    # near-ties: values one or a few ulps apart (weights +-1 keep the products exact)
    import math
    for _ in range(400 * mult):
        n = rng.randint(1, 4)
        w = [rng.choice(["1", "-1"]) for _ in range(n)]
        a = [rng.choice([1.0, 0.3, 1e-9, 1e9, 0.1 + 0.2, 2.0 ** -30]) * rng.choice([1, -1]) for _ in range(n)]
        b = list(a)
        i = rng.randrange(n)
        for _k in range(rng.randint(1, 3)):
            b[i] = math.nextafter(b[i], math.inf if rng.random() < 0.5 else -math.inf)
        a_s, b_s = [sfr(Fr(x)) for x in a], [sfr(Fr(x)) for x in b]
        yield {"k": "cmp", "w": w, "a": a_s, "b": b_s}
        yield {"k": "dom", "w": w, "a": a_s, "b": b_s, "slice": [None, None, None]}
        yield {"k": "ccmp", "w": w, "a": a_s, "cva": None, "b": b_s, "cvb": None}
    # random
    nrand = (20000 if thorough else 3000) * mult
    for _ in range(nrand):
        n = rng.randint(1, 5)
        w = [rand_weight(rng) for _ in range(n)]
        big = rng.random() < 0.2
        a = [rand_dyadic(rng, big) for _ in range(n)]
        r = rng.random()
        if r < 0.3:
            b = list(a)
            if rng.random() < 0.7:
                b[rng.randrange(n)] = rand_dyadic(rng, big)   # equal prefix, one change
        else:
            b = [x if rng.random() < 0.4 else rand_dyadic(rng, big) for x in a]
        kind = rng.random()
        if kind < 0.35:
            yield {"k": "cmp", "w": w, "a": a, "b": b}
        elif kind < 0.7:
            sl = rng.choice(slices_for(n))
            yield {"k": "dom", "w": w, "a": a, "b": b, "slice": sl, "explicit": rng.random() < 0.5}
        elif kind < 0.8:
            yield {"k": "vals", "w": w, "a": a, "mut": rng.random() < 0.5}
        elif kind < 0.9:
            ops = []
            for _ in range(rng.randint(1, 8)):
                ops.append("del" if rng.random() < 0.4 else [rand_dyadic(rng) for _ in range(n)])
            yield {"k": "hist", "w": w, "ops": ops}
        else:
            cv = lambda: rng.choice([None, [], [False], [True], [rng.random() < 0.5 for _ in range(3)], [rng.randint(-2, 2) for _ in range(3)]])
            yield {"k": "ccmp", "w": w, "a": a if rng.random() < 0.6 else [], "cva": cv(),
                   "b": b if rng.random() < 0.6 else [], "cvb": cv()}


def shrink(d):
    if d["k"] in ("cmp", "dom", "vals") and len(d["w"]) > 1:
        for i in range(len(d["w"])):
            e = dict(d)
            e["w"] = d["w"][:i] + d["w"][i + 1:]
            e["a"] = d["a"][:i] + d["a"][i + 1:]
            if "b" in d:
                e["b"] = d["b"][:i] + d["b"][i + 1:]
            if d["k"] == "dom":
                e["slice"] = [None, None, None]
            yield e
    if d["k"] == "hist" and len(d["ops"]) > 1:
        for i in range(len(d["ops"])):
            e = dict(d)
            e["ops"] = d["ops"][:i] + d["ops"][i + 1:]
            yield e
    for key in ("a", "b"):
        if key in d:
            for i, x in enumerate(d[key]):
                if x not in ("0", "1"):
                    for r in ("0", "1"):
                        e = dict(d)
                        e[key] = d[key][:i] + [r] + d[key][i + 1:]
                        yield e


def classify(desc, msg, known):
    return None
