"""C01 — Fitness comparison and Pareto dominance follow the weighted values (deap/base.py)."""
import copy
import itertools
from fractions import Fraction as Fr

from lib import Case
from deap import base

ANCHORS = [("deap/base.py", ["Fitness", "ConstrainedFitness", "_violates_constraint"])]
LEVEL = "proof"
RULE = ("exhaustive: weights in {1,-1,2,-1/2}^n (n<=2; n<=3 thorough) x all pairs of value tuples over "
        "{0,1,2}^n x 6 operators and dominates on every slice; constrained: all kind pairs x flag vectors; "
        "containers (tuple/list/deque/float64, float32 and int64 arrays x constructor/keyword/property x zero and "
        "single-element tuples, both classes); integers beyond 2**53 and rationals with integer weights; finite weights x "
        "finite values whose products saturate at +-inf; values an ulp apart; random: n<=5 dyadic weights/values; "
        "clones by copy.copy / copy.deepcopy / pickle (every protocol) / toolbox.clone / inside a cloned or pickled individual, plain and "
        "constrained class, n<=5, ARBITRARY finite non-zero float weights (0.7, 1.3, 1/3, 49.0, 1e-3, 1e3, random doubles over 60 decades) x "
        "arbitrary doubles (ordinary, weighted value an exact power of two, subnormal, saturating): compares equal, weighted values bit for bit; "
        "numpy fixed-width integer values (uint8/16/32/64, int8/16/32/64; scalars, lists of scalars, arrays; every ordered pair over each type's "
        "minimum, maximum and neighbours, and random n<=3) under float weights of both signs (+-1, +-2, +-1/2, +-3, -3/4, 3/2), also against python numbers; "
        "families of related fitness classes (fresh classes per case): every order of first use over chains of 2-3 classes "
        "(all pairs of sign vectors n<=2, derived by class / creator.create / mixed, weights overridden or inherited, plain and "
        "constrained root) and random histories (new class / new object from tuple, list, array, deque / assign / read-back / str / "
        "compare / dominates / clone / delete) over random families of up to 6 classes two levels deep. Non-trivial = distinct case "
        "whose two tuples are not identical (or a history / constrained case with at least one evaluated operand; a family "
        "history with a derived class and at least one read)")
EXHAUSTIVE = {"quick": False, "thorough": False}
TIME_BUDGET = {"quick": 60, "thorough": 900}
TRUSTED = ["IEEE-754: products/quotients of the small dyadic inputs used here are exact, so the Rat model "
           "and the float implementation compute the same numbers",
           "CPython tuple comparison and slicing (modelled in Core/Py.lean, exercised by every line)",
           "IEEE-754 binary64 round-to-nearest-even of * and / in the normal range is what Fitness.rn64 computes on rationals: every "
           "`rclone` line is answered by the model over Fitness.R64 AND by the machine's Float in the compiled driver (last token = they "
           "agree), and compared with CPython's floats",
           "translator tie: the rendering rules stated in the docstring of harness/py2lean_c01.py (object sub-language of deap/base.py: a method is a function "
           "of the declared fields wvalues / constraint_violation and the class attribute weights; attribute lookup along a single-inheritance MRO, "
           "property(g, s, d) bound to the class body's functions, self.m / super(K, self).m / self.__class__() dispatch, mutators in state-passing style, "
           "an exception = none) and the prelude lean/DeapModel/Core/GenPreludeC01.lean (CPython's slice.indices as Gen01.sliceIdx - differentially tested "
           "against CPython by `props/c01_translate.py --prelude-test` -, forRet, isum). PROPERTY-LEVEL QUANTITIES ONLY: no metaclass, no property object / "
           "descriptor protocol, no instance __dict__, no object identity is rendered; the table of declared state and parameter types in "
           "props/c01_translate.py (CFG) is an assumption of the tie; __str__ / __repr__ (strings) are refused and stay tied by correspondence only"]
ASSUMPTIONS = ["weights are non-zero finite numbers; values are finite numbers (no NaN)",
               "the read-back clause is claimed for values that are doubles (an integer beyond 2**53 is converted by the "
               "true division of the getter, as documented for Python's `/`); such integers and exact rationals are used for "
               "the comparison and dominance clauses only, with integer weights so that the products are exact",
               "numpy fixed-width integer values are paired with FLOAT weights (the documented form, weights=(-1.0,)): the product is then a "
               "double, exact below 2**53; a 64-bit integer beyond 2**53 is read as the double it converts to (same reading as for python "
               "integers: the weighted values are doubles) and the model is driven with the order image of those doubles. With python-int "
               "weights numpy computes the product in the fixed-width type itself (int8(100)*2 wraps, uint8(5)*-1 raises OverflowError in numpy 2): "
               "that is numpy's multiplication, outside the statement's finite-number arithmetic, not exercised",
               "clone stream: NaN is excluded (finite values); weighted values that saturate at +-inf or are subnormal are checked by the oracle "
               "only (Fitness.R64 has no exponent bounds); that a clone's weighted values are BITWISE the original's is a correspondence claim "
               "(C01.clone_bitwise), the oracle demands `compares equal` as the statement does",
               "saturated stream: the model is driven with a strictly increasing image of the weighted values (inf -> 2^1100), "
               "justified by C01.compare_order_invariant; the oracle compares the products themselves",
               "class families: single inheritance between fitness classes (creator.create takes one base class) and `weights` is "
               "not re-assigned on a class after its creation; a comparison between instances of two different classes is read as "
               "the comparison of each one's values times the weights of ITS OWN class"]
EXPLANATION = ("Theorems C01.* are proved for every linearly ordered field and all tuple lengths; "
               "the correspondence ties Core/Fitness.lean to deap.base on exactly-representable inputs. Core/FitClass.lean makes the "
               "per-class state explicit (a class = its own `weights` entry + its parent; lookup along the MRO) and runs whole caller "
               "histories over several related classes; C01.class_isolation proves that no operation on another class or instance can "
               "change a result (so the unchanged library has no per-class cache to go stale), C01.readback_hierarchy the read-back "
               "for a derived class whatever its ancestors declare; the family streams drive exactly those histories through the real "
               "classes (fresh per case, both orders of first use). Clones: the model's clone carries the original's weighted values "
               "themselves (C01.clone_bitwise, no arithmetic), so it is equal for every weight vector; C01.clone_no_recompute shows a clone "
               "rebuilt through the public values is the original iff (x/w)*w = x for every weighted value, which holds in a field "
               "(reclone_field) and fails in binary64 (reclone_witness, recloneInv_witness, kernel-checked on Fitness.R64); the rclone stream "
               "replays exactly that arithmetic on arbitrary doubles and weights through every cloning route of the real objects. "
               "Translator tie: on every run deap/base.py is re-read and 31 definitions Gen01.<Class>_<method> are regenerated (harness/py2lean_c01.py); the 30 "
               "committed theorems of lean/DeapModel/GenEq/C01.lean.tmpl (each generated definition = the hand-written model, at every scalar type) are "
               "re-checked by the kernel, so a change of a translated method breaks a proof obligation whatever inputs are sampled; the table translated / "
               "refused of the run is evidence/C01.translated.json.")


def translate(repo):
    """translator tie (lib._translated_obligations): Lean definitions `Gen01.<Class>_<method>` regenerated from `repo`'s
    current deap/base.py + the committed theorems `generated = hand-written model` of lean/DeapModel/GenEq/C01.lean.tmpl
    (harness/py2lean_c01.py, whose docstring is the translator's trusted base)"""
    from props import c01_translate
    import json
    import os
    import lib
    tr = c01_translate.translate(repo)
    try:
        os.makedirs(os.path.join(lib.OUT, "evidence"), exist_ok=True)
        with open(os.path.join(lib.OUT, "evidence", "C01.translated.json"), "w") as fh:
            json.dump({"definitions": len(tr["definitions"]), "theorems": len(tr["theorems"]),
                       "refused": len(tr["refused"]), "problems": tr["problems"],
                       "functions": [dict(name=n, status=st, detail=d) for n, st, d in tr["table"]],
                       "theorem_names": tr["theorems"]}, fh, indent=1)
            fh.write("\n")
    except OSError:
        pass
    return tr


def fr(s):
    return Fr(s)


def sfr(q):
    q = Fr(q)
    return str(q.numerator) if q.denominator == 1 else "%d/%d" % (q.numerator, q.denominator)


def slist(xs):
    xs = list(xs)
    return ",".join(sfr(x) for x in xs) if xs else "-"


def ilist(xs):
    xs = list(xs)
    return ",".join(str(x) for x in xs) if xs else "-"


def bits(bs):
    return "".join("1" if b else "0" for b in bs)


_classes = {}


def fit_class(weights, constrained=False, num="float", derived=None):
    """`derived`: None = a class made directly from the library's base class; "sub" = a class derived from ANOTHER
    concrete fitness class (other weights) that has been used before, overriding `weights` (how
    creator.create("FitMin2", creator.FitMax2, weights=...) builds it); "list" = weights given as a list."""
    key = (tuple(weights), constrained, num, derived)
    if key not in _classes:
        b = base.ConstrainedFitness if constrained else base.Fitness
        cw = float if num in ("float", "raw") else int      # "int"/"frac": integer weights, exact products
        ws = tuple(cw(w) for w in weights)
        if derived == "sub":
            other = tuple((cw(3) if i % 2 == 0 else cw(-2)) for i in range(len(ws)))
            parent = type("FitParent", (b,), {"weights": other})
            pf = parent(tuple(cw(i + 1) for i in range(len(ws))))      # the parent class is used first
            assert pf.valid and len(pf.values) == len(ws) and not (pf < pf)
            _classes[key] = type("Fit", (parent,), {"weights": ws})
        elif derived == "list":
            _classes[key] = type("Fit", (b,), {"weights": list(ws)})
        else:
            _classes[key] = type("Fit", (b,), {"weights": ws})
    return _classes[key]


BIGINF = Fr(2) ** 1100        # stands for +inf in the order-isomorphic image of saturated weighted values


def enc_sat(x):
    import math
    if math.isinf(x):
        return BIGINF if x > 0 else -BIGINF
    return Fr(x)


def lex_lt(a, b):
    for x, y in zip(a, b):
        if x != y:
            return x < y
    return len(a) < len(b)


def wv(weights, vals):
    return tuple(Fr(v) * Fr(w) for v, w in zip(vals, weights))


def exact(t):
    return tuple(Fr(x) for x in t)


def evaluate(d):
    k = d["k"]
    if k == "fam":
        return eval_fam(d)
    if k == "rclone":
        return eval_rclone(d)
    if k == "npint":
        return eval_npint(d)
    w = [fr(x) for x in d["w"]]
    num = d.get("num", "float")
    conv = {"float": float, "int": int, "frac": (lambda q: q)}.get(num, float)
    if k == "sat":
        return eval_sat(d)
    if k == "ctor":
        return eval_ctor(d)
    if k in ("cmp", "dom", "vals"):
        F = fit_class(w, num=num, derived=d.get("cls"))
        a = [fr(x) for x in d["a"]]
        fa = F(tuple(conv(x) for x in a))
        wa = wv(w, a)
        # (the internal representation `wvalues` is not part of the statement: it is compared with the model's
        #  through the `vals` protocol line only; the oracle below uses the independently computed `wa`)
    if k in ("cmp", "dom"):
        b = [fr(x) for x in d["b"]]
        fb = F(tuple(conv(x) for x in b))
        wb = wv(w, b)
    numtag = ("" if num == "float" else "/" + num) + ("/cls=" + d["cls"] if d.get("cls") else "")
    if k == "cmp":
        got = [fa < fb, fa <= fb, fa > fb, fa >= fb, fa == fb, fa != fb]
        want = [lex_lt(wa, wb), lex_lt(wa, wb) or wa == wb, lex_lt(wb, wa), lex_lt(wb, wa) or wa == wb,
                wa == wb, wa != wb]
        orc = None if got == want else "operators %s differ from lexicographic comparison %s of weighted values" % (bits(got), bits(want))
        return Case(d, ["C01 cmp %s %s %s" % (slist(w), slist(a), slist(b))], [bits(got)], orc,
                    tag="cmp/n=%d%s" % (len(w), numtag), nontrivial=(a != b))
    if k == "dom":
        sl = slice(*d["slice"])
        ia = list(range(*sl.indices(len(wa))))
        ib = list(range(*sl.indices(len(wb))))
        got = fa.dominates(fb, sl) if d["slice"] != [None, None, None] or d.get("explicit") else fa.dominates(fb)
        sa, sb = [wa[i] for i in ia], [wb[i] for i in ib]
        want = all(x >= y for x, y in zip(sa, sb)) and any(x > y for x, y in zip(sa, sb))
        orc = None if bool(got) == want else "dominates=%s but definition gives %s on slice %s" % (got, want, d["slice"])
        return Case(d, ["C01 dom %s %s %s %s %s" % (slist(w), slist(a), slist(b), ilist(ia), ilist(ib))],
                    [bits([got])], orc, tag="dom/n=%d/len=%d%s" % (len(w), len(ia), numtag), nontrivial=(a != b))
    if k == "vals":
        if d.get("mut"):
            # values assigned from a caller-owned mutable container that the caller changes afterwards:
            # what is read back must still be what was assigned (the fitness keeps no alias to the container)
            buf = [float(x) for x in a]
            fa = F()
            fa.values = buf
            early_clone = copy.deepcopy(fa)
            for i in range(len(buf)):
                buf[i] = buf[i] + 7.0
            buf.append(1.0)
            if exact(fa.values) != tuple(a) or exact(early_clone.values) != tuple(a) or exact(fa.wvalues) != wa:
                return Case(d, [], [], oracle="values %r read back after the caller changed the list it had assigned from "
                            "(assigned %r): the fitness aliases the caller's container" % (fa.values, a), tag="vals/alias")
        back = fa.values
        cl = copy.deepcopy(fa)
        out = "%s %s %s %s %s" % (slist(exact(fa.wvalues)), slist(exact(back)), bits([fa.valid]),
                                  bits([cl == fa]), bits([hash(cl) == hash(fa)]))
        orc = None
        if all(x in (1, -1) for x in w) and exact(back) != tuple(a):
            # the statement promises the read-back for weights +1/-1; other weights are compared with the model only
            orc = "values read back %r differ from assigned %r (weights +-1)" % (back, a)
        elif not fa.valid:
            orc = "fitness with assigned values reports invalid"
        elif not (cl == fa) or cl != fa or cl < fa or cl > fa or not cl.valid or cl is fa or exact(cl.values) != tuple(a):
            orc = "clone does not compare equal to its original"
        return Case(d, ["C01 vals %s %s" % (slist(w), slist(a))], [out], orc,
                    tag="vals/n=%d%s" % (len(w), "/cls=" + d["cls"] if d.get("cls") else ""))
    if k == "hist":
        F = fit_class(w)
        f = F()
        vbits, orc, last = [], None, None
        toks = []
        want = False
        for op in d["ops"]:
            if op == "del":
                del f.values
                toks.append("del")
                want = False
            elif op in ("badlen", "badtype"):
                # an assignment the library rejects (wrong length: AssertionError; a non-number: TypeError), caught
                # by the caller: the fitness must be left as it was.  The model is told "an assignment of the
                # wrong length" in both cases (Fitness.step leaves the state unchanged).
                bad = tuple([0.0] * (len(w) + 1)) if op == "badlen" else tuple([None] * len(w))
                try:
                    f.values = bad
                    if orc is None:
                        orc = "assignment of %r to a fitness with %d weights was accepted" % (bad, len(w))
                except (AssertionError, TypeError):
                    pass
                toks.append(slist([0] * (len(w) + 1)))
            else:
                vals = [fr(x) for x in op]
                f.values = tuple(float(x) for x in vals)
                toks.append(slist(vals))
                want = True
                last = vals
            vbits.append(f.valid)
            if f.valid != want and orc is None:
                orc = "valid=%s after %s" % (f.valid, "deletion" if op == "del" else "a rejected assignment" if op in ("badlen", "badtype") else "assignment")
            if want and exact(f.values) != tuple(last) and orc is None:
                orc = "values read back differ from last assignment"
        return Case(d, ["C01 hist %s %s" % (slist(w), " ".join(toks))],
                    ["%s %s" % (bits(vbits), slist(exact(f.values)))], orc, tag="hist/len=%d" % len(d["ops"]),
                    nontrivial=len(d["ops"]) > 1)
    if k == "chist":
        F = fit_class(w, constrained=True)
        f = F()
        toks, obs, orc = [], [], None
        want_valid, last = False, None
        for op in d["ops"]:
            if op == "del":
                del f.values
                toks.append("del"); want_valid = False
            elif op in ("badlen", "badtype"):
                bad = tuple([0.0] * (len(w) + 1)) if op == "badlen" else tuple([None] * len(w))
                try:
                    f.values = bad
                    if orc is None:
                        orc = "assignment of %r to a fitness with %d weights was accepted" % (bad, len(w))
                except (AssertionError, TypeError):
                    pass
                toks.append(slist([0] * (len(w) + 1)))
            elif isinstance(op, dict):
                cv = op["cv"]
                f.constraint_violation = None if cv is None else list(cv)
                toks.append("cv=" + ("none" if cv is None else (",".join(str(int(c)) for c in cv) or "-")))
            else:
                vals = [fr(x) for x in op]
                f.values = tuple(float(x) for x in vals)
                toks.append(slist(vals)); want_valid = True; last = vals
            viol = base._violates_constraint(f)
            obs.append(bits([f.valid, viol]) + ("c" if f.constraint_violation is not None else "n"))
            if orc is None and f.valid != want_valid:
                orc = "constrained fitness reports valid=%s after %s" % (f.valid, toks[-1])
            if orc is None and want_valid and exact(f.values) != tuple(last) and all(x in (1, -1) for x in w):
                orc = "values read back differ from the last assignment"
            if orc is None and not want_valid and len(f.values) != 0:
                orc = "values %r still readable after deletion" % (f.values,)
            if orc is None and viol and f.valid:
                orc = "an evaluated fitness counts as constraint-violating"
        return Case(d, ["C01 chist %s %s" % (slist(w), " ".join(toks))],
                    ["%s %s" % (",".join(obs), slist(exact(f.values)))], orc, tag="chist/len=%d" % len(d["ops"]))
    if k == "ccmp":
        F = fit_class(w, constrained=True, derived=d.get("cls"))

        def mk(vals, cv):
            v = tuple(float(fr(x)) for x in vals) if vals else ()
            return F(v, None if cv is None else list(cv))
        fa, fb = mk(d["a"], d["cva"]), mk(d["b"], d["cvb"])
        # who violates is decided from the case description (unevaluated, record present, positive sum),
        # not by asking the implementation
        def viol(vals, cv):
            return (not vals) and cv is not None and sum(int(c) for c in cv) > 0
        va, vb = viol(d["a"], d["cva"]), viol(d["b"], d["cvb"])
        ia, ib = base._violates_constraint(fa), base._violates_constraint(fb)
        got = [fa < fb, fa <= fb, fa > fb, fa >= fb, fa == fb, fa != fb]
        dom = fa.dominates(fb)
        cl = copy.deepcopy(fa)
        out = "%s %s %s %s" % (bits(got), bits([dom]), bits([va, vb]),
                               bits([cl == fa, base._violates_constraint(cl)]))
        orc = None
        if (ia, ib) != (va, vb):
            orc = "_violates_constraint says %s/%s, the definition (unevaluated, record with positive sum) %s/%s" % (ia, ib, va, vb)
        # the statement: a violating fitness never compares better than, equal to, or dominating a
        # feasible evaluated one
        if orc is None and va and fb.valid and not vb:
            if fa > fb or fa >= fb or fa == fb or dom or not (fa != fb):
                orc = "violating fitness compares better/equal/dominating vs feasible evaluated one: %s dom=%s" % (bits(got), dom)
        if vb and fa.valid and not va:
            if fb > fa or fb >= fa or fb == fa or fb.dominates(fa):
                orc = "violating fitness (right operand) compares better/equal/dominating"
        if not va and not vb and fa.valid and fb.valid:
            wa, wb = exact(fa.wvalues), exact(fb.wvalues)
            want = [lex_lt(wa, wb), lex_lt(wa, wb) or wa == wb, lex_lt(wb, wa), lex_lt(wb, wa) or wa == wb,
                    wa == wb, wa != wb]
            wd = all(x >= y for x, y in zip(wa, wb)) and any(x > y for x, y in zip(wa, wb))
            if got != want or bool(dom) != wd:
                orc = "feasible constrained fitnesses do not compare lexicographically"
        if orc is None and (not (cl == fa) or base._violates_constraint(cl) != va or cl.valid != fa.valid):
            orc = "clone of a constrained fitness does not compare equal to its original (violation flags lost)"
        if orc is None and d.get("obj") is not None:
            # F38: "every objective slice passed to dominates" x "every feasible/violating/unevaluated combination of
            # constrained fitnesses": dominance restricted to a slice of the objectives, judged by the statement
            # (oracle only: the model line carries the unsliced comparison)
            sl = slice(*d["obj"])
            try:
                ds = fa.dominates(fb, sl)
                dr = fb.dominates(fa, sl)
            except Exception as e:
                ds = dr = None
                orc = "ConstrainedFitness.dominates(other, %r) raised %s: %s" % (sl, type(e).__name__, e)
            if orc is None:
                if va and fb.valid and not vb and ds:
                    orc = "violating fitness dominates a feasible evaluated one on objectives %r" % (sl,)
                elif vb and fa.valid and not va and dr:
                    orc = "violating fitness (right operand) dominates a feasible evaluated one on objectives %r" % (sl,)
                elif not va and not vb and fa.valid and fb.valid:
                    sa, sb = exact(fa.wvalues)[sl], exact(fb.wvalues)[sl]
                    wds = all(x >= y for x, y in zip(sa, sb)) and any(x > y for x, y in zip(sa, sb))
                    wdr = all(y >= x for x, y in zip(sa, sb)) and any(y > x for x, y in zip(sa, sb))
                    if bool(ds) != wds or bool(dr) != wdr:
                        orc = ("feasible constrained fitnesses: dominates(other, %r) is %s/%s, the weighted values on those "
                               "objectives give %s/%s" % (sl, ds, dr, wds, wdr))
        kinds = ("viol" if va else "eval" if fa.valid else "uneval") + "-" + ("viol" if vb else "eval" if fb.valid else "uneval")
        cvs = lambda cv: "none" if cv is None else (",".join(str(int(c)) for c in cv) or "-")
        return Case(d, ["C01 ccmp %s %s %s %s %s" % (slist(w), slist([fr(x) for x in d["a"]]), cvs(d["cva"]),
                                                     slist([fr(x) for x in d["b"]]), cvs(d["cvb"]))],
                    [out], orc, tag="ccmp/" + kinds, nontrivial=(fa.valid or fb.valid))
    raise ValueError(k)


def eval_sat(d):
    """Finite weights and finite values whose products saturate at +-inf: the weighted values are what the
    statement compares, ties at infinity included.  The model is driven with an order-isomorphic image of the
    weighted values (inf -> 2^1100, weights 1), the oracle compares the products computed here."""
    w = [float(x) for x in d["w"]]
    a = [float(x) for x in d["a"]]
    b = [float(x) for x in d["b"]]
    F = fit_class(tuple(d["w"]), num="raw")
    fa, fb = F(tuple(a)), F(tuple(b))
    wa = tuple(x * y for x, y in zip(a, w))
    wb = tuple(x * y for x, y in zip(b, w))
    ninf = sum(1 for x in wa + wb if x in (float("inf"), float("-inf")))
    ea, eb = [enc_sat(x) for x in wa], [enc_sat(x) for x in wb]
    ones = ["1"] * len(w)
    got = [fa < fb, fa <= fb, fa > fb, fa >= fb, fa == fb, fa != fb]
    want = [lex_lt(wa, wb), lex_lt(wa, wb) or wa == wb, lex_lt(wb, wa), lex_lt(wb, wa) or wa == wb,
            wa == wb, wa != wb]
    sl = slice(*d["slice"])
    ia = list(range(*sl.indices(len(wa))))
    gd = fa.dominates(fb, sl)
    sa, sb = [wa[i] for i in ia], [wb[i] for i in ia]
    wd = all(x >= y for x, y in zip(sa, sb)) and any(x > y for x, y in zip(sa, sb))
    orc = None
    if got != want:
        orc = ("operators %s differ from lexicographic comparison %s of the weighted values %r / %r (weights %r)"
               % (bits(got), bits(want), wa, wb, w))
    elif bool(gd) != wd:
        orc = "dominates=%s but the definition gives %s on weighted values %r / %r, slice %s" % (gd, wd, wa, wb, d["slice"])
    return Case(d, ["C01 cmp %s %s %s" % (slist(ones), slist(ea), slist(eb)),
                    "C01 dom %s %s %s %s %s" % (slist(ones), slist(ea), slist(eb), ilist(ia), ilist(ia))],
                [bits(got), bits([gd])], orc, tag="sat/n=%d/inf=%d" % (len(w), min(ninf, 3)), nontrivial=(wa != wb or ninf > 0))


def eval_ctor(d):
    """Values handed over in any sized container, to the constructor or through `.values`: the fitness is valid,
    reads the values back (weights +-1) and equals a fitness assigned the same values as a tuple."""
    import numpy
    w = [fr(x) for x in d["w"]]
    a = [fr(x) for x in d["a"]]
    cons = bool(d.get("constrained"))
    F = fit_class(w, constrained=cons)
    fl = tuple(float(x) for x in a)
    box = {"tuple": tuple, "list": list, "array": lambda t: numpy.array(t, dtype=float),
           "array32": lambda t: numpy.array(t, dtype=numpy.float32), "arrayint": lambda t: numpy.array(t, dtype=numpy.int64),
           "deque": lambda t: __import__("collections").deque(t)}[d["box"]]
    ref = F()
    if a:
        ref.values = fl
    orc = None
    try:
        if d["via"] == "ctor":
            f = F(box(fl))
        elif d["via"] == "kw":
            f = F(values=box(fl))
        else:
            f = F()
            f.values = box(fl)
    except Exception as e:
        return Case(d, [], [], oracle="assigning legal values %r as %s (%s) raised %s: %s" % (fl, d["box"], d["via"], type(e).__name__, e),
                    tag="ctor/raise")
    want_valid = len(a) > 0
    back = tuple(Fr(float(x)) for x in f.values)
    if f.valid != want_valid:
        orc = "fitness built from %s %r (%s) reports valid=%s" % (d["box"], fl, d["via"], f.valid)
    elif want_valid and all(x in (1, -1) for x in w) and back != tuple(a):
        orc = "values read back %r differ from assigned %r (weights +-1)" % (f.values, fl)
    elif want_valid and (not (f == ref) or f != ref or f < ref or f > ref):
        orc = "fitness built from %s %r (%s) does not compare equal to one assigned the same values" % (d["box"], fl, d["via"])
    if not want_valid:
        return Case(d, [], [], orc, tag="ctor/empty/%s" % d["box"])
    cl = copy.deepcopy(f)
    tagc = "ctor/%s/%s/%s" % (d["box"], d["via"], "zero" if all(x == 0 for x in a) else "nz")
    if cons:     # (the constrained class defines no hash; the model's `vals` line describes the plain class)
        if orc is None and (not (cl == f) or not cl.valid):
            orc = "clone of a constrained fitness built from %s does not compare equal" % d["box"]
        return Case(d, [], [], orc, tag=tagc + "/constrained")
    out = "%s %s %s %s %s" % (slist(tuple(Fr(float(x)) for x in f.wvalues)), slist(back), bits([f.valid]),
                              bits([cl == f]), bits([hash(cl) == hash(ref)]))
    return Case(d, ["C01 vals %s %s" % (slist(w), slist(a))], [out], orc,
                tag=tagc)


# ---------------------------------------------------------------------------------------------------------------
# clones of fitnesses with arbitrary finite non-zero weights and arbitrary doubles (IEEE replay; model: Fitness.R64,
# theorems clone_eq / clone_bitwise / clone_no_recompute / recloneInv_witness)

def fx(h):
    return float.fromhex(h)


def exnum(x):
    """the exact rational a python / numpy number is"""
    import numpy
    if isinstance(x, (bool, numpy.bool_)):
        return Fr(int(x))
    if isinstance(x, (int, numpy.integer)):
        return Fr(int(x))
    if isinstance(x, Fr):
        return x
    return Fr(float(x))


RC_LO, RC_HI = 1e-60, 1e60       # the range in which Fitness.R64 (no exponent bounds) is binary64


def eval_rclone(d):
    """Every way a caller gets a clone of a fitness (copy.copy, copy.deepcopy, pickle with every protocol,
    toolbox.clone, the fitness inside a cloned / pickled individual): the clone compares equal to its original
    (==, not !=, not <, not >, <=, >=, neither dominates the other, same validity) for ARBITRARY finite non-zero
    weights and arbitrary doubles.  Correspondence: the weighted values of original and clone as exact rationals
    against the binary64 model, and the clone's weighted values bit for bit the original's (clone_bitwise)."""
    import pickle
    from deap import creator
    from lib import fbits
    w = [fx(x) for x in d["w"]]
    a = [fx(x) for x in d["a"]]
    cons = bool(d.get("constrained"))
    cv = d.get("cv")
    root = base.ConstrainedFitness if cons else base.Fitness
    creator.create("C01RCFit", root, weights=tuple(w))
    creator.create("C01RCInd", list, fitness=creator.C01RCFit)
    try:
        F, Ind = creator.C01RCFit, creator.C01RCInd
        f = F(tuple(a), list(cv)) if (cons and cv is not None) else F(tuple(a))
        ind = Ind([1, 2, 3])
        if a:
            ind.fitness.values = tuple(a)
        if cons and cv is not None:
            ind.fitness.constraint_violation = list(cv)
        tb = base.Toolbox()
        clones = [("copy.copy", copy.copy(f)), ("copy.deepcopy", copy.deepcopy(f)), ("toolbox.clone", tb.clone(f)),
                  ("toolbox.clone(individual).fitness", tb.clone(ind).fitness),
                  ("copy.deepcopy(individual).fitness", copy.deepcopy(ind).fitness),
                  ("deepcopy of a deepcopy", copy.deepcopy(copy.deepcopy(f)))]
        for proto in range(pickle.HIGHEST_PROTOCOL + 1):
            clones.append(("pickle protocol %d" % proto, pickle.loads(pickle.dumps(f, proto))))
        clones.append(("pickled individual's fitness", pickle.loads(pickle.dumps(ind, 2)).fitness))
        clones.append(("pickle of a pickle", pickle.loads(pickle.dumps(pickle.loads(pickle.dumps(f)), 2))))
        orc = None
        corr = None
        ref = {"ind": ind.fitness}
        for name, c in clones:
            o = ref["ind"] if "individual" in name else f
            doms = (o.dominates(c), c.dominates(o))
            ok = ((c == o) and not (c != o) and not (c < o) and not (c > o) and (c <= o) and (c >= o)
                  and (o == c) and not doms[0] and not doms[1] and c.valid == o.valid and c is not o)
            if not ok and orc is None:
                orc = ("clone made by %s does not compare equal to its original: weights %r values %r; original wvalues %r, "
                       "clone wvalues %r; ==:%s !=:%s <:%s >:%s original.dominates(clone):%s clone.dominates(original):%s valid %s/%s"
                       % (name, tuple(w), tuple(a), tuple(o.wvalues), tuple(c.wvalues), c == o, c != o, c < o, c > o,
                          doms[0], doms[1], c.valid, o.valid))
            if cons and orc is None and base._violates_constraint(c) != base._violates_constraint(o):
                orc = "clone made by %s of a constrained fitness lost its violation record" % name
            if corr is None and [fbits(x) for x in c.wvalues] != [fbits(x) for x in o.wvalues]:
                corr = ("CORRESPONDENCE: clone made by %s holds weighted values %r, the original %r (the model's clone carries "
                        "the original's weighted values themselves, C01.clone_bitwise)" % (name, tuple(c.wvalues), tuple(o.wvalues)))
        if orc is None:
            orc = corr
        tag = "rclone/%s/n=%d/%s" % ("constrained" if cons else "plain", len(a), d.get("gen", "rand"))
        inrange = a and all(RC_LO <= abs(x) <= RC_HI for x in w) and all(x == 0 or RC_LO <= abs(x) <= RC_HI for x in a)
        if not inrange:
            return Case(d, [], [], orc, tag=tag + "/oracle-only", nontrivial=bool(a))
        wvp = [x * y for x, y in zip(a, w)]
        rdiv = [(x / y) * y for x, y in zip(wvp, w)]
        rinv = [(x * (1.0 / y)) * y for x, y in zip(wvp, w)]
        c = clones[1][1]
        out = "%s %s %s %s %s 1" % (slist(_exf(f.wvalues)), slist(_exf(c.wvalues)), slist(_exf(rdiv)), slist(_exf(rinv)),
                                    bits([c == f, c != f, c < f, c > f, f.dominates(c), c.dominates(f), c.valid]))
        differs = "/rt-differs" if (rdiv != wvp or rinv != wvp) else ""
        return Case(d, ["C01 rclone %s %s" % (",".join(fbits(x) for x in w), ",".join(fbits(x) for x in a))], [out], orc,
                    tag=tag + differs, nontrivial=True)
    finally:
        for name in ("C01RCInd", "C01RCFit"):
            if hasattr(creator, name):
                delattr(creator, name)


# ---------------------------------------------------------------------------------------------------------------
# values handed over as numpy fixed-width integers (scalars and arrays, every width and signedness, each type's
# minimum and maximum) under float weights of both signs: judged on the exact value * weight

def eval_npint(d):
    import numpy
    dt = getattr(numpy, d["dt"])
    w = [fr(x) for x in d["w"]]
    a = [int(x) for x in d["a"]]
    b = [int(x) for x in d["b"]]
    F = fit_class(w, constrained=bool(d.get("constrained")))
    wf = [float(x) for x in w]

    def box(vals, kind):
        if kind == "array":
            return numpy.array(vals, dtype=dt)
        if kind == "py":
            return tuple(vals)
        if kind == "list":
            return [dt(x) for x in vals]
        return tuple(dt(x) for x in vals)

    def build(vals, kind):
        if d.get("via") == "prop":
            f = F()
            f.values = box(vals, kind)
            return f
        return F(box(vals, kind))
    fa, fb = build(a, d["box"]), build(b, d.get("boxb", d["box"]))
    # the weighted values: exact products; where a product is not a double (64-bit integers beyond 2**53) the
    # weighted value is read as the double the product rounds to (statement's reading for doubles), i.e. what
    # float(value) * weight is in binary64
    def weighted(vals):
        exactp = [Fr(v) * x for v, x in zip(vals, w)]
        rep = all(abs(p) < 2 ** 1000 and Fr(float(p)) == p for p in exactp) and all(Fr(float(v)) == v for v in vals)
        comp = [Fr(float(v) * y) for v, y in zip(vals, wf)]
        if rep:
            assert comp == exactp, (vals, w)
            return tuple(exactp), True
        return tuple(comp), False
    (wa, ra), (wb, rb) = weighted(a), weighted(b)
    rep = ra and rb
    got = [fa < fb, fa <= fb, fa > fb, fa >= fb, fa == fb, fa != fb]
    want = [lex_lt(wa, wb), lex_lt(wa, wb) or wa == wb, lex_lt(wb, wa), lex_lt(wb, wa) or wa == wb, wa == wb, wa != wb]
    sl = slice(*d["slice"])
    ia = list(range(*sl.indices(len(wa))))
    cons = bool(d.get("constrained"))
    gd = fa.dominates(fb) if (cons or d["slice"] == [None, None, None]) else fa.dominates(fb, sl)
    if cons:
        ia = list(range(len(wa)))
    sa, sb = [wa[i] for i in ia], [wb[i] for i in ia]
    wd = all(x >= y for x, y in zip(sa, sb)) and any(x > y for x, y in zip(sa, sb))
    what = "numpy.%s %s (%s / %s), weights %r" % (d["dt"], "values", d["box"], d.get("boxb", d["box"]), tuple(wf))
    orc = None
    if [bool(x) for x in got] != want:
        orc = ("operators %s differ from the lexicographic comparison %s of the weighted values %s / %s: %s, values %r / %r, "
               "library wvalues %r / %r" % (bits(got), bits(want), slist(wa), slist(wb), what, a, b, tuple(fa.wvalues), tuple(fb.wvalues)))
    elif bool(gd) != wd:
        orc = ("dominates=%s but the definition gives %s on the weighted values %s / %s, slice %s: %s, values %r / %r"
               % (gd, wd, slist(wa), slist(wb), d["slice"], what, a, b))
    elif not fa.valid or not fb.valid:
        orc = "fitness assigned %s reports invalid" % what
    elif all(abs(x) == 1 for x in w):
        for vals, f in ((a, fa), (b, fb)):
            if all(abs(v) < 2 ** 53 for v in vals) and tuple(exnum(x) for x in f.values) != tuple(Fr(v) for v in vals) and orc is None:
                orc = "values read back %r differ from the assigned %r (weights +-1; %s)" % (tuple(f.values), vals, what)
    if orc is None:
        cl = copy.deepcopy(fa)
        if not (cl == fa) or cl != fa or cl < fa or cl > fa or fa.dominates(cl) or cl.dominates(fa) or not cl.valid:
            orc = "clone does not compare equal to its original (%s, values %r)" % (what, a)
    tag = "npint/%s/%s/%s%s" % (d["dt"], d["box"], "exact" if rep else "rounded", "/constrained" if cons else "")
    if cons:
        cl = copy.deepcopy(fa)
        if rep:
            return Case(d, ["C01 ccmp %s %s none %s none" % (slist(w), slist(a), slist(b))],
                        ["%s %s 00 %s" % (bits(got), bits([gd]), bits([cl == fa, base._violates_constraint(cl)]))],
                        orc, tag=tag, nontrivial=(a != b))
        return Case(d, [], [], orc, tag=tag, nontrivial=(a != b))
    if rep:
        mw, ma, mb = w, a, b
    else:       # order-isomorphic image (weights 1), justified by C01.compare_order_invariant as in the saturated stream
        mw, ma, mb = [1] * len(w), wa, wb
    lines = ["C01 cmp %s %s %s" % (slist(mw), slist(ma), slist(mb)),
             "C01 dom %s %s %s %s %s" % (slist(mw), slist(ma), slist(mb), ilist(ia), ilist(ia))]
    expect = [bits(got), bits([gd])]
    if rep:
        cl = copy.deepcopy(fa)
        lines.append("C01 vals %s %s" % (slist(w), slist(a)))
        expect.append("%s %s %s %s %s" % (slist([exnum(x) for x in fa.wvalues]), slist([exnum(x) for x in fa.values]),
                                          bits([fa.valid]), bits([cl == fa]), bits([hash(cl) == hash(fa)])))
    return Case(d, lines, expect, orc, tag=tag, nontrivial=(a != b))


WSET = ["1", "-1", "2", "-1/2"]
ALL_SLICES = None

# ---------------------------------------------------------------------------------------------------------------
# families of related fitness classes (model: Core/FitClass.lean, theorems class_isolation / readback_hierarchy)

def fam_resolve(classes, c):
    """The weights class `c` resolves to by Python's attribute lookup along the MRO, computed from the case
    description (never by asking the class): the nearest class, starting with `c` itself, that declares weights."""
    while c is not None and 0 <= c < len(classes):
        if classes[c]["w"] is not None:
            return [fr(x) for x in classes[c]["w"]]
        c = classes[c]["p"]
    return None


def fam_depth(classes, c):
    n = 0
    while classes[c]["p"] is not None:
        c = classes[c]["p"]
        n += 1
    return n


def _exf(t):
    return tuple(Fr(float(x)) for x in t)


def eval_fam(d):
    """A history of operations a caller runs on a small family of related fitness classes (a class made directly
    from the library's base class, classes derived from it with `class`/`type` or creator.create, up to two levels
    deep, `weights` overridden or inherited) and on instances of all of them: every class is created afresh for the
    case, every observation goes to the model (one protocol line for the whole history) and every read is checked
    against the statement: values read back unchanged for weights +-1, valid exactly while assigned and not deleted,
    the six operators and dominates follow the weighted values (value times the weight ITS OWN class declares or
    inherits), a clone compares equal to its original."""
    import ast
    import collections
    import numpy
    from deap import creator
    cons = bool(d.get("constrained"))
    root = base.ConstrainedFitness if cons else base.Fitness
    boxes = {"t": tuple, "l": list, "a": lambda t: numpy.array(t, dtype=float), "d": collections.deque}
    classes, pycls, made = [], [], []
    slots, track = {}, {}
    toks, outs = [], []
    state = {"orc": None}
    nreads = 0

    def fail(msg):
        if state["orc"] is None:
            state["orc"] = "%s  [after: %s]" % (msg, " ".join(toks[-6:]))

    def describe(c):
        chain, k = [], c
        while k is not None:
            chain.append("class %d weights=%s" % (k, "inherited" if classes[k]["w"] is None else ",".join(classes[k]["w"])))
            k = classes[k]["p"]
        return " <- ".join(chain)

    try:
        for op in d["ops"]:
            kind = op[0]
            if kind == "class":
                p, how, w, wt = op[1], op[2], op[3], op[4]
                toks.append("class:%s:%s" % ("b" if p is None else p, "none" if w is None else slist([fr(x) for x in w])))
                if p is not None and not (0 <= p < len(pycls)):
                    outs.append("err")
                    continue
                parent = root if p is None else pycls[p]
                attrs = {}
                if w is not None:
                    cw = int if wt == "int" else float
                    ws = [cw(fr(x)) for x in w]
                    attrs["weights"] = list(ws) if wt == "list" else tuple(ws)
                name = "C01Fam%d" % len(pycls)
                if how == "creator":
                    creator.create(name, parent, **attrs)
                    made.append(name)
                    cls = getattr(creator, name)
                else:
                    cls = type(name, (parent,), attrs)
                pycls.append(cls)
                classes.append({"p": p, "w": w})
                outs.append("ok")
            elif kind == "new":
                slot, c, box, vals = op[1], op[2], op[3], [fr(x) for x in op[4]]
                toks.append("new:%d:%d:%s:%s" % (slot, c, box, slist(vals)))
                w = fam_resolve(classes, c)
                legal = w is not None and len(vals) in (0, len(w))
                try:
                    obj = pycls[c](boxes[box](tuple(float(x) for x in vals)))
                except Exception as e:  # noqa
                    outs.append("err")
                    if legal:
                        fail("building a fitness of %s from the %s %r raised %s: %s" % (describe(c), box, vals, type(e).__name__, e))
                    continue
                slots[slot] = obj
                track[slot] = {"cls": c, "vals": tuple(vals) if vals else None, "src": "assigned"}
                outs.append("ok")
                if legal and obj.valid != bool(vals):
                    fail("fitness built from the %s %r (container kind %s) reports valid=%s" % (box, [float(x) for x in vals], box, obj.valid))
            elif kind == "set":
                slot, box, vals = op[1], op[2], [fr(x) for x in op[3]]
                toks.append("set:%d:%s:%s" % (slot, box, slist(vals)))
                if slot not in slots:
                    outs.append("err")
                    continue
                c = track[slot]["cls"]
                w = fam_resolve(classes, c)
                legal = len(vals) == len(w)
                try:
                    slots[slot].values = boxes[box](tuple(float(x) for x in vals))
                except Exception as e:  # noqa
                    outs.append("err")
                    if legal:
                        fail("assigning %r to a fitness of %s raised %s: %s" % (vals, describe(c), type(e).__name__, e))
                    continue
                outs.append("ok")
                if legal:
                    track[slot] = {"cls": c, "vals": tuple(vals), "src": "assigned"}
                    if not slots[slot].valid:
                        fail("fitness reports invalid right after values were assigned")
                else:
                    track[slot]["src"] = "unknown"      # (an assignment the model rejects was accepted: correspondence break)
            elif kind == "del":
                slot = op[1]
                toks.append("del:%d" % slot)
                if slot not in slots:
                    outs.append("err")
                    continue
                del slots[slot].values
                track[slot] = {"cls": track[slot]["cls"], "vals": None, "src": "assigned"}
                outs.append("ok")
                if slots[slot].valid:
                    fail("fitness still valid after its values were deleted")
            elif kind in ("get", "str"):
                slot = op[1]
                toks.append("%s:%d" % (kind, slot))
                if slot not in slots:
                    outs.append("err")
                    continue
                f, t = slots[slot], track[slot]
                w = fam_resolve(classes, t["cls"])
                nreads += 1
                if kind == "str":
                    txt = str(f)
                    try:
                        shown = eval(txt, {"__builtins__": {}, "np": numpy, "numpy": numpy, "inf": float("inf"), "nan": float("nan")})
                        if cons:
                            shown = shown[0]
                        outs.append("s|" + slist(_exf(shown)))
                    except Exception:  # noqa
                        outs.append("s|?" + txt.replace(" ", ""))
                    continue
                back, ok = f.values, f.valid
                outs.append("%s|%s|%s" % (slist(_exf(f.wvalues)), slist(_exf(back)), bits([ok])))
                if t["src"] == "assigned":
                    if ok != (t["vals"] is not None):
                        fail("valid=%s although the values were %s" % (ok, "assigned and not deleted" if t["vals"] is not None else "deleted / never assigned"))
                    elif t["vals"] is not None and all(abs(x) == 1 for x in w) and _exf(back) != t["vals"]:
                        fail("values read back %r differ from the assigned %r (weights +-1: %s)"
                             % (tuple(back), tuple(float(x) for x in t["vals"]), describe(t["cls"])))
            elif kind == "cmp":
                i, j = op[1], op[2]
                toks.append("cmp:%d:%d" % (i, j))
                if i not in slots or j not in slots:
                    outs.append("err")
                    continue
                a, b = slots[i], slots[j]
                got = [a < b, a <= b, a > b, a >= b, a == b, a != b]
                hb = bool(a == b) and (cons or hash(a) == hash(b))
                outs.append(bits(got + [hb]))
                ta, tb = track[i], track[j]
                if ta["src"] == tb["src"] == "assigned" and ta["vals"] is not None and tb["vals"] is not None:
                    wa, wb = wv(fam_resolve(classes, ta["cls"]), ta["vals"]), wv(fam_resolve(classes, tb["cls"]), tb["vals"])
                    want = [lex_lt(wa, wb), lex_lt(wa, wb) or wa == wb, lex_lt(wb, wa), lex_lt(wb, wa) or wa == wb,
                            wa == wb, wa != wb]
                    if [bool(x) for x in got] != want:
                        fail("operators %s differ from the lexicographic comparison %s of the weighted values %s / %s (%s ; %s)"
                             % (bits(got), bits(want), slist(wa), slist(wb), describe(ta["cls"]), describe(tb["cls"])))
            elif kind == "dom":
                i, j, sld = op[1], op[2], op[3]
                sl = slice(*sld)
                if i not in slots or j not in slots:
                    toks.append("dom:%d:%d:-:-" % (i, j))
                    outs.append("err")
                    continue
                a, b = slots[i], slots[j]
                ia = list(range(*sl.indices(len(a.wvalues))))
                ib = list(range(*sl.indices(len(b.wvalues))))
                toks.append("dom:%d:%d:%s:%s" % (i, j, ilist(ia), ilist(ib)))
                got = a.dominates(b) if (cons or (sld == [None, None, None] and not (len(op) > 4 and op[4]))) else a.dominates(b, sl)
                outs.append(bits([got]))
                ta, tb = track[i], track[j]
                if ta["src"] == tb["src"] == "assigned" and ta["vals"] is not None and tb["vals"] is not None \
                        and len(ta["vals"]) == len(tb["vals"]):
                    wa, wb = wv(fam_resolve(classes, ta["cls"]), ta["vals"]), wv(fam_resolve(classes, tb["cls"]), tb["vals"])
                    sa, sb = [wa[x] for x in ia], [wb[x] for x in ia]
                    want = all(x >= y for x, y in zip(sa, sb)) and any(x > y for x, y in zip(sa, sb))
                    if bool(got) != want:
                        fail("dominates=%s but the definition gives %s on the weighted values %s / %s, slice %s"
                             % (got, want, slist(wa), slist(wb), sld))
            elif kind == "clone":
                i, k = op[1], op[2]
                toks.append("clone:%d:%d" % (i, k))
                if i not in slots:
                    outs.append("err")
                    continue
                a = slots[i]
                cl = copy.deepcopy(a)
                outs.append(bits([cl == a, cons or hash(cl) == hash(a), cl.valid == a.valid]))
                if not (cl == a) or cl != a or cl < a or cl > a or cl is a:
                    fail("clone does not compare equal to its original (%s)" % describe(track[i]["cls"]))
                slots[k] = cl
                track[k] = {"cls": track[i]["cls"], "vals": track[i]["vals"], "src": "clone"}
            else:
                raise ValueError(kind)
    finally:
        for name in made:
            if hasattr(creator, name):
                delattr(creator, name)
    depth = max([fam_depth(classes, c) for c in range(len(classes))] or [0])
    return Case(d, ["C01 fam " + " ".join(toks)], [" ".join(outs)], state["orc"],
                tag="fam/%s/classes=%d/depth=%d%s" % (d.get("gen", "rand"), len(classes), depth, "/constrained" if cons else ""),
                nontrivial=(len(classes) > 1 and nreads > 0))


FAM_VALS = ["1", "-1", "2", "-2", "1/2", "-5/2", "3", "7/4", "-3/8", "5"]


def fam_vals(rng, n, zero=0.0):
    return [("0" if rng.random() < zero else rng.choice(FAM_VALS)) for _ in range(n)]


def gen_fam_orders(rng):
    """Every order of FIRST USE over a chain of related classes: for each pair of sign vectors (root / derived),
    both ways of deriving, chains one and two levels deep (the middle class overriding or inheriting), every
    permutation in which the classes' instances are first read; then re-assignment, read-back, str, comparisons."""
    for cons in (False, True):
        for n in (1, 2):
            signs = [list(t) for t in itertools.product(["1", "-1"], repeat=n)]
            for pw in signs:
                for cw in signs:
                    if cons and (n == 2 and pw[0] != "1"):
                        continue
                    for how in ("class", "creator", "mixed"):
                        for shape in ("child", "grand-override", "grand-inherit", "mid-inherit"):
                            if shape == "child":
                                cl = [[None, pw], [0, cw]]
                            elif shape == "grand-override":
                                cl = [[None, pw], [0, cw], [1, pw]]
                            elif shape == "grand-inherit":
                                cl = [[None, pw], [0, cw], [1, None]]
                            else:
                                cl = [[None, pw], [0, None], [1, cw]]
                            for perm in itertools.permutations(range(len(cl))):
                                if len(cl) == 3 and how != "class" and n == 2 and perm not in ((0, 1, 2), (2, 1, 0), (1, 2, 0)):
                                    continue
                                ops = [["class", p, ("class" if p is None else "creator") if how == "mixed" else how, w, "float"]
                                       for p, w in cl]
                                for c in range(len(cl)):
                                    ops.append(["new", c, c, "t", []])
                                for c in range(len(cl)):
                                    ops.append(["set", c, rng.choice("tl"), fam_vals(rng, n)])
                                for c in perm:
                                    ops.append(["get", c])
                                for c in perm:
                                    ops.append(["set", c, "t", fam_vals(rng, n)])
                                    ops.append(["str" if rng.random() < 0.3 else "get", c])
                                for c in range(len(cl)):
                                    ops.append(["get", c])
                                ops.append(["cmp", perm[0], perm[-1]])
                                ops.append(["dom", perm[-1], perm[0], [None, None, None]])
                                ops.append(["clone", perm[-1], 5])
                                ops.append(["get", 5])
                                yield {"k": "fam", "gen": "order", "constrained": cons, "ops": ops}


def gen_fam_random(rng):
    """One random history over a random family (see eval_fam)."""
    cons = rng.random() < 0.2
    n = rng.choice([1, 1, 2, 2, 3])
    classes = []            # (parent, weights or None, depth)
    ops = []
    nslots = 6
    filled = {}             # slot -> class

    def resolved(c):
        while c is not None:
            if classes[c][1] is not None:
                return classes[c][1]
            c = classes[c][0]
        return None

    def add_class():
        cands = [c for c in range(len(classes)) if classes[c][2] < 2]
        p = None if (not cands or rng.random() < 0.12) else rng.choice(cands)
        depth = 0 if p is None else classes[p][2] + 1
        r = rng.random()
        m = n + 1 if rng.random() < 0.05 else n
        if p is None:
            w = None if r < 0.06 else [rng.choice(["1", "-1"]) for _ in range(m)] if r < 0.8 else [rng.choice(WSET) for _ in range(m)]
        else:
            w = None if r < 0.3 else [rng.choice(["1", "-1"]) for _ in range(m)] if r < 0.85 else [rng.choice(WSET) for _ in range(m)]
        ints = w is not None and all(Fr(x).denominator == 1 for x in w)
        wt = rng.choice(["float", "float", "list"] + (["int"] if ints else []))
        # (a class made by creator.create can only be derived from through creator.create: a `class` statement on it
        #  ends in MetaCreator.__new__ with the bases tuple where it expects one class and raises TypeError)
        how = "creator" if (p is not None and classes[p][3] == "creator") else rng.choice(["class", "creator"])
        classes.append((p, w, depth, how))
        ops.append(["class", p, how, w, wt])

    def vals_for(c, zero=0.15):
        w = resolved(c)
        k = len(w) if w is not None else n
        if rng.random() < 0.04:
            k += 1                                     # an assignment the library rejects (wrong length)
        return fam_vals(rng, k, zero)

    def new_inst(slot=None):
        c = rng.randrange(len(classes))
        slot = rng.randrange(nslots) if slot is None else slot
        r = rng.random()
        vals = [] if r < 0.45 else vals_for(c, zero=0.4)
        ops.append(["new", slot, c, rng.choice("tlad"), vals])
        if resolved(c) is not None and len(vals) in (0, len(resolved(c))):
            filled[slot] = c

    for _ in range(rng.randint(2, 4)):
        add_class()
    for s in range(nslots):
        new_inst(s)
    for _ in range(rng.randint(10, 36)):
        r = rng.random()
        if not filled:
            new_inst()
            continue
        i = rng.choice(sorted(filled))
        j = rng.choice(sorted(filled))
        if r < 0.24:
            ops.append(["set", i, rng.choice("ttla"), vals_for(filled[i])])
        elif r < 0.50:
            ops.append(["get", i])
        elif r < 0.55:
            ops.append(["str", i])
        elif r < 0.62:
            ops.append(["del", i])
        elif r < 0.74:
            ops.append(["cmp", i, j])
        elif r < 0.82:
            m = len(resolved(filled[i]))
            sl = [None, None, None] if (cons or rng.random() < 0.5) else rng.choice(slices_for(m))
            ops.append(["dom", i, j, sl, rng.random() < 0.5])
        elif r < 0.87:
            k = rng.randrange(nslots)
            ops.append(["clone", i, k])
            filled[k] = filled[i]
        elif r < 0.94:
            new_inst()
        elif len(classes) < 6:
            add_class()
    return {"k": "fam", "gen": "rand", "constrained": cons, "ops": ops}



def slices_for(n):
    vals = [None] + list(range(-n - 1, n + 2))
    out = []
    seen = set()
    for st in vals:
        for sp in vals:
            for step in (None, 1, 2, -1, -2):
                idx = tuple(range(*slice(st, sp, step).indices(n)))
                if idx not in seen:
                    seen.add(idx)
                    out.append([st, sp, step])
    return out


def rand_dyadic(rng, big=False):
    den = rng.choice([1, 1, 2, 4, 8, 1024])
    num = rng.randint(-40, 40) if not big else rng.randint(-(1 << 20), 1 << 20)
    return sfr(Fr(num, den))


def rand_weight(rng):
    while True:
        q = Fr(rng.choice([1, 1, 1, 2, 3, 5, 7, 10]), rng.choice([1, 1, 1, 2, 4, 8]))
        q = q if rng.random() < 0.5 else -q
        if q != 0:
            return sfr(q)


RC_WEIGHTS = [0.7, 1.3, 1.0 / 3.0, 49.0, 1e-3, 1e3, 0.3, 0.1, 3.0, 2.5, 0.9, 7.0, 10.0, 1e-7, 3.141592653589793,
              1.0, 2.0, 0.5, 0.75, 1.1, 6.0, 0.01, 12345.678, 1.0 / 7.0]
NP_DTYPES = ["uint8", "int8", "uint16", "int16", "uint32", "int32", "uint64", "int64"]
NP_WEIGHTS = ["1", "-1", "-1", "1", "-1", "2", "-2", "1/2", "-1/2", "3", "-3", "-3/4", "3/2"]


def rc_weight(rng):
    r = rng.random()
    if r < 0.6:
        x = rng.choice(RC_WEIGHTS)
    elif r < 0.8:
        x = rng.uniform(0.01, 100.0)
    else:
        x = rng.uniform(1.0, 10.0) * 10.0 ** rng.randint(-30, 30)
    return x if rng.random() < 0.5 else -x


def rc_value(rng):
    r = rng.random()
    if r < 0.3:
        x = rng.random()
    elif r < 0.5:
        x = rng.uniform(-1000.0, 1000.0)
    elif r < 0.6:
        x = float(rng.randint(-50, 50))
    elif r < 0.7:
        x = rng.choice([0.1, 0.7, 0.2, 0.3, 0.6, 1.1, 0.020408163265306124, 0.0012755102040816328, 1e-9, 123.456])
    elif r < 0.75:
        x = rng.choice([0.0, -0.0])
    elif r < 0.9:
        x = rng.gauss(0.0, 1.0) * 10.0 ** rng.randint(-40, 40)
    else:
        x = rng.uniform(-1.0, 1.0) * 2.0 ** rng.randint(-20, 20)
    return x


def gen_rclone(rng, count):
    import math
    # the reproducers of seeded change C01-r7m2 first (ordinary values; the power-of-two boundary)
    fixed = [((-0.7, 1.3), (0.1, 0.7)), ((49.0,), (0.020408163265306124,)), ((49.0,), (0.0012755102040816328,)),
             ((1.0 / 3.0,), (3.0,)), ((0.3, -0.1, 1e3), (0.7, 0.9, 1e-3)), ((-1.0, 1.0), (0.1, 0.7)), ((2.0, -0.5), (0.1, 0.7))]
    for w, a in fixed:
        for cons in (False, True):
            yield {"k": "rclone", "gen": "fixed", "w": [x.hex() for x in w], "a": [x.hex() for x in a], "constrained": cons}
    for i in range(count):
        n = rng.randint(1, 5)
        cons = rng.random() < 0.25
        cv = rng.choice([None, None, [False], [True, False], [0, 2]]) if cons else None
        kind = i % 4
        w = [rc_weight(rng) for _ in range(n)]
        if kind == 3:
            # weighted value exactly a power of two (where (x / w) * w can lose the last bit)
            a = []
            for x in w:
                p = 2.0 ** rng.randint(-12, 12) * rng.choice([1, -1])
                cands, v0 = [], p / x
                for up in (math.inf, -math.inf):
                    v = v0
                    for _s in range(3):
                        if v * x == p:
                            cands.append(v)
                        v = math.nextafter(v, up)
                a.append(rng.choice(cands) if cands else v0)
            gen = "pow2"
        elif kind == 2 and rng.random() < 0.5:
            # far out: subnormal values, products that saturate at +-inf (oracle only)
            w = [x * rng.choice([1.0, 1e200, 1e-200]) for x in w]
            a = [rng.choice([5e-324, 1e-310, 1e308, 1.7e308, -1e308, 1e-300, 2.5, 0.0]) for _ in range(n)]
            gen = "far"
        else:
            a = [rc_value(rng) for _ in range(n)]
            gen = "rand"
        if rng.random() < 0.03:
            a = []
        yield {"k": "rclone", "gen": gen, "w": [x.hex() for x in w], "a": [x.hex() for x in a], "constrained": cons, "cv": cv}


def np_bounds(dt):
    bitsn = int(dt.lstrip("uint"))
    return (0, 2 ** bitsn - 1) if dt.startswith("u") else (-2 ** (bitsn - 1), 2 ** (bitsn - 1) - 1)


def np_value(rng, dt):
    lo, hi = np_bounds(dt)
    r = rng.random()
    if r < 0.45:
        return rng.choice([lo, lo, lo + 1, hi, hi - 1, 0, 0, 1, 5, min(hi, 200), max(lo, -7), max(lo, -1)])
    if r < 0.7:
        return rng.randint(max(lo, -20), min(hi, 20))
    if r < 0.8 and hi > 2 ** 53:
        return rng.choice([2 ** 53, 2 ** 53 + 1, 2 ** 53 - 1, hi - rng.randint(0, 4096), 2 ** 62 + rng.randint(-3, 3)])
    return rng.randint(lo, hi)


def gen_npint_edges():
    """every ordered pair over each type's edge values, minimised and maximised, as numpy scalars and as an array"""
    for dt in NP_DTYPES:
        lo, hi = np_bounds(dt)
        pool = sorted(set([lo, lo + 1, 0, 1, 5, hi - 1, hi] + ([-1, -7] if lo < 0 else [])))
        for w in ("-1", "1"):
            for x in pool:
                for y in pool:
                    for box in ("scalar", "array"):
                        yield {"k": "npint", "dt": dt, "w": [w], "a": [str(x)], "b": [str(y)], "box": box,
                               "via": "ctor" if box == "scalar" else "prop", "slice": [None, None, None]}


def gen_npint_random(rng, count):
    for _ in range(count):
        dt = rng.choice(NP_DTYPES)
        n = rng.randint(1, 3)
        w = [rng.choice(NP_WEIGHTS) for _ in range(n)]
        a = [np_value(rng, dt) for _ in range(n)]
        if rng.random() < 0.5:
            b = list(a)
            b[rng.randrange(n)] = np_value(rng, dt)
        else:
            b = [np_value(rng, dt) for _ in range(n)]
        box = rng.choice(["scalar", "scalar", "array", "array", "list"])
        boxb = rng.choice([box, box, box, "py", "scalar", "array"])
        yield {"k": "npint", "dt": dt, "w": w, "a": [str(x) for x in a], "b": [str(x) for x in b], "box": box, "boxb": boxb,
               "via": rng.choice(["ctor", "prop"]), "slice": rng.choice(slices_for(n)), "constrained": rng.random() < 0.15}


def generate(tier, rng, mult):
    thorough = tier == "thorough"
    nmax = 3 if thorough else 2
    # families of related fitness classes: every order of first use (whole read-back / comparison clauses on derived classes)
    for d in gen_fam_orders(rng):
        yield d
    # clones (copy / deepcopy / pickle / toolbox.clone) under arbitrary finite non-zero weights and arbitrary doubles
    for d in gen_rclone(rng, (6000 if thorough else 600) * mult):
        yield d
    # numpy fixed-width integer values (every width and signedness, each type's minimum and maximum)
    for d in gen_npint_edges():
        yield d
    for d in gen_npint_random(rng, (8000 if thorough else 800) * mult):
        yield d
    for n in range(1, nmax + 1):
        sls = slices_for(n)
        tuples = [list(map(str, t)) for t in itertools.product([0, 1, 2], repeat=n)]
        wsets = list(itertools.product(WSET, repeat=n))
        if n == 3 and not thorough:
            continue
        for w in wsets:
            for a in tuples:
                yield {"k": "vals", "w": list(w), "a": a}
                yield {"k": "vals", "w": list(w), "a": a, "mut": True}
                for b in tuples:
                    yield {"k": "cmp", "w": list(w), "a": a, "b": b}
                    if n < 3 or rng.random() < 0.2:
                        for sl in (sls if n <= 2 else rng.sample(sls, 3)):
                            yield {"k": "dom", "w": list(w), "a": a, "b": b, "slice": sl}
    # constrained: every kind pair x flag vectors
    cvs = [None, [], [False], [True], [False, False], [True, False], [False, True, True], [2, -1], [1, -1], [-3, 1]]
    for w in (["1"], ["-1"], ["1", "-1"], ["-2", "-1/2"]):
        n = len(w)
        tuples = [[]] + [list(map(str, t)) for t in itertools.product([0, 1], repeat=n)]
        for a in tuples:
            for b in tuples:
                for cva in cvs:
                    for cvb in cvs:
                        yield {"k": "ccmp", "w": w, "a": a, "cva": cva, "b": b, "cvb": cvb}
        # F38: dominance of constrained fitnesses restricted to an objective slice
        for a in tuples[1:]:
            for b in tuples[1:]:
                for cva, cvb in ((None, None), ([False] * n, None), ([True], None), (None, [True, False])):
                    for obj in ([None, None, None], [0, 1, None], [1, None, None], [None, None, -1], [-1, None, None]):
                        yield {"k": "ccmp", "w": w, "a": a if cva != [True] else [], "cva": cva,
                               "b": b if cvb != [True, False] else [], "cvb": cvb, "obj": obj}
    # constrained histories (assignment / violation record / deletion in every order)
    cvops = [{"cv": None}, {"cv": [True]}, {"cv": [False]}, {"cv": [1, -1]}]
    for w in (["1"], ["-1", "2"]):
        vs = [[str(i + 1) for i in range(len(w))], ["0"] * len(w)]
        atoms = ["del", "badlen", "badtype"] + vs + cvops
        for L in (1, 2, 3):
            for ops in itertools.product(atoms, repeat=L):
                yield {"k": "chist", "w": w, "ops": list(ops)}
    # class hierarchies: a fitness class derived from another concrete (already used) fitness class that overrides
    # the weights, and weights given as a list
    for cls in ("sub", "list"):
        for w in (["1"], ["-1"], ["-1", "-1"], ["1", "-1"], ["-1", "2", "1"]):
            n = len(w)
            tuples = [list(map(str, t)) for t in itertools.product([0, 1, 2], repeat=n)][:9]
            for a in tuples:
                yield {"k": "vals", "w": w, "a": a, "cls": cls}
                for b in tuples:
                    yield {"k": "cmp", "w": w, "a": a, "b": b, "cls": cls}
                    yield {"k": "dom", "w": w, "a": a, "b": b, "slice": [None, None, None], "cls": cls}
                    yield {"k": "ccmp", "w": w, "a": a, "cva": None, "b": b, "cvb": [True], "cls": cls}
    # containers: every sized container, constructor / keyword / property, zero and single-element tuples
    for cons in (False, True):
        for w, a in ((["-1"], ["3"]), (["-1"], ["0"]), (["1"], ["0"]), (["1"], ["-5/2"]), (["-1", "1"], ["0", "0"]),
                     (["-1", "1"], ["4", "0"]), (["1", "-1", "-1"], ["1", "2", "3"]), (["2", "-1/2"], ["0", "6"]), (["1"], [])):
            for box in ("tuple", "list", "array", "array32", "arrayint", "deque"):
                if box == "arrayint" and any(Fr(x).denominator != 1 for x in a):
                    continue
                for via in (("ctor", "kw", "prop") if a else ("ctor", "kw")):
                    yield {"k": "ctor", "w": w, "a": a, "box": box, "via": via, "constrained": cons}
    # random histories over random families of related fitness classes
    for _ in range((6000 if thorough else 500) * mult):
        yield gen_fam_random(rng)
    # exact numbers that are not doubles: integers beyond 2**53 and rationals, integer weights (products exact)
    B = 2 ** 53
    for _ in range(150 * mult):
        n = rng.randint(1, 3)
        w = [str(rng.choice([1, -1, 1, -1, 2, -3])) for _ in range(n)]
        if rng.random() < 0.6:
            num = "int"
            a = [str(rng.choice([1, -1]) * (rng.choice([B, 10 ** 17, 2 ** 64, 3 * 10 ** 30]) + rng.randint(0, 3))) for _ in range(n)]
            b = list(a)
            i = rng.randrange(n)
            b[i] = str(int(b[i]) + rng.choice([1, -1, 2]))
        else:
            num = "frac"
            a = [sfr(Fr(rng.randint(-9, 9), rng.choice([3, 7, 10 ** 20 + 1]))) for _ in range(n)]
            b = list(a)
            i = rng.randrange(n)
            b[i] = sfr(Fr(b[i]) + Fr(rng.choice([1, -1]), 10 ** 20))
        if rng.random() < 0.5:
            a, b = b, a
        yield {"k": "cmp", "w": w, "a": a, "b": b, "num": num}
        yield {"k": "dom", "w": w, "a": a, "b": b, "slice": [None, None, None], "num": num}
        if n > 1:
            yield {"k": "dom", "w": w, "a": a, "b": b, "slice": rng.choice(slices_for(n)), "num": num, "explicit": True}
    # finite weights x finite values whose weighted values saturate at +-inf (ties at infinity)
    for _ in range(300 * mult):
        n = rng.randint(1, 3)
        w = [repr(rng.choice([10.0, -1e10, 1e200, 1e200, 10.0, 2.0, 1.0, -1.0])) for _ in range(n)]
        pool = [1e308, 1.5e308, 2e307, 1e300, 3e299, 1e150, 1e120, 1e308, 1.7e308, 1.0, 0.0, 3.5]
        a = [repr(rng.choice(pool) * rng.choice([1, -1])) for _ in range(n)]
        # the second tuple: same sign per coordinate most of the time, so that both products saturate at the same
        # infinity (a tie the comparison must see as a tie) while another coordinate decides
        b = [x if rng.random() < 0.3 else repr(rng.choice(pool) * (rng.choice([1, 1, 1, -1]) if float(x) >= 0 else rng.choice([-1, -1, -1, 1])))
             for x in a]
        yield {"k": "sat", "w": w, "a": a, "b": b, "slice": rng.choice(slices_for(n))}
    # near-ties: values one or a few ulps apart (weights +-1 keep the products exact)
    import math
    for _ in range(400 * mult):
        n = rng.randint(1, 4)
        w = [rng.choice(["1", "-1"]) for _ in range(n)]
        a = [rng.choice([1.0, 0.3, 1e-9, 1e9, 0.1 + 0.2, 2.0 ** -30]) * rng.choice([1, -1]) for _ in range(n)]
        b = list(a)
        i = rng.randrange(n)
        for _k in range(rng.randint(1, 3)):
            b[i] = math.nextafter(b[i], math.inf if rng.random() < 0.5 else -math.inf)
        a_s, b_s = [sfr(Fr(x)) for x in a], [sfr(Fr(x)) for x in b]
        yield {"k": "cmp", "w": w, "a": a_s, "b": b_s}
        yield {"k": "dom", "w": w, "a": a_s, "b": b_s, "slice": [None, None, None]}
        yield {"k": "ccmp", "w": w, "a": a_s, "cva": None, "b": b_s, "cvb": None}
    # random
    nrand = (20000 if thorough else 3000) * mult
    for _ in range(nrand):
        n = rng.randint(1, 5)
        w = [rand_weight(rng) for _ in range(n)]
        big = rng.random() < 0.2
        a = [rand_dyadic(rng, big) for _ in range(n)]
        r = rng.random()
        if r < 0.3:
            b = list(a)
            if rng.random() < 0.7:
                b[rng.randrange(n)] = rand_dyadic(rng, big)   # equal prefix, one change
        else:
            b = [x if rng.random() < 0.4 else rand_dyadic(rng, big) for x in a]
        kind = rng.random()
        if kind < 0.35:
            yield {"k": "cmp", "w": w, "a": a, "b": b}
        elif kind < 0.7:
            sl = rng.choice(slices_for(n))
            yield {"k": "dom", "w": w, "a": a, "b": b, "slice": sl, "explicit": rng.random() < 0.5}
        elif kind < 0.8:
            yield {"k": "vals", "w": w, "a": a, "mut": rng.random() < 0.5}
        elif kind < 0.9:
            ops = []
            for _ in range(rng.randint(1, 8)):
                r = rng.random()
                ops.append("del" if r < 0.3 else "badlen" if r < 0.4 else "badtype" if r < 0.5 else [rand_dyadic(rng) for _ in range(n)])
            yield {"k": "hist", "w": w, "ops": ops}
        else:
            cv = lambda: rng.choice([None, [], [False], [True], [rng.random() < 0.5 for _ in range(3)], [rng.randint(-2, 2) for _ in range(3)]])
            c = {"k": "ccmp", "w": w, "a": a if rng.random() < 0.6 else [], "cva": cv(),
                 "b": b if rng.random() < 0.6 else [], "cvb": cv()}
            if rng.random() < 0.5:
                c["obj"] = rng.choice([[None, None, None], [0, 1, None], [1, None, None], [None, -1, None],
                                       [None, None, -1], [None, None, 2], [-2, None, None], [5, None, None]])
            yield c


def shrink(d):
    if d["k"] == "fam":
        ops = d["ops"]
        for i in range(len(ops) - 1, -1, -1):
            if ops[i][0] != "class":
                e = dict(d)
                e["ops"] = ops[:i] + ops[i + 1:]
                yield e
        return
    if d["k"] in ("cmp", "dom", "vals", "sat", "rclone", "npint") and len(d["w"]) > 1:
        for i in range(len(d["w"])):
            e = dict(d)
            e["w"] = d["w"][:i] + d["w"][i + 1:]
            e["a"] = d["a"][:i] + d["a"][i + 1:]
            if "b" in d:
                e["b"] = d["b"][:i] + d["b"][i + 1:]
            if d["k"] in ("dom", "sat", "npint"):
                e["slice"] = [None, None, None]
            yield e
    if d["k"] == "hist" and len(d["ops"]) > 1:
        for i in range(len(d["ops"])):
            e = dict(d)
            e["ops"] = d["ops"][:i] + d["ops"][i + 1:]
            yield e
    for key in ("a", "b"):
        if key in d:
            for i, x in enumerate(d[key]):
                if x not in ("0", "1"):
                    for r in ("0", "1"):
                        e = dict(d)
                        e[key] = d[key][:i] + [r] + d[key][i + 1:]
                        yield e


def classify(desc, msg, known):
    return None
