"""C05 — NSGA-II selection: exact size, references only, rank- then crowding-elitist (deap/tools/emo.py)."""
import itertools
from fractions import Fraction as Fr

from lib import Case, fbits
from deap import base
from deap.tools import emo

ANCHORS = [("deap/tools/emo.py", ["selNSGA2", "assignCrowdingDist", "sortNondominated", "sortLogNondominated"])]
LEVEL = "proof"
RULE = ("sel: populations of n<=30 individuals with 2..4 objectives (weights of mixed sign and magnitude), every k in 0..n+2 "
        "for n<=6 and 6 values of k otherwise, both nd values; families grid/duplicates/pairwise-distinct/antichain/layers "
        "(fronts of size 1 and 2)/chain, plus every multiset of n<=4 points of {0,1,2}^2; end-to-end model comparison on the "
        "'exact' family (integer values, 2 or 4 objectives, every front's range a power of two); crowd: direct calls of "
        "assignCrowdingDist on arbitrary lists. Non-trivial = a selection that cuts a front (0 < k < n) or a crowd call with "
        "at least 3 individuals")
EXHAUSTIVE = {"quick": False, "thorough": False}
TIME_BUDGET = {"quick": 55, "thorough": 840}
TRUSTED = ["IEEE-754: on the 'exact' family all quotients/sums of assignCrowdingDist are exact, so the Rat model equals the "
           "float implementation; elsewhere distances are compared with relative tolerance 1e-9 and the cut is replayed on "
           "the implementation's own (float) distances transported exactly",
           "CPython list.sort/sorted stability and reverse=True semantics (modelled by List.mergeSort with a strict key test)"]
ASSUMPTIONS = ["every individual is evaluated, all fitnesses have the same number (>= 1, >= 2 for nd='log') of objectives, finite "
               "values, non-zero weights, k >= 0; individuals and their fitness objects are distinct objects",
               "the crowding formula is checked where the statement defines it: objective values pairwise distinct"]
EXPLANATION = ("C05.* are proved for any list of fronts satisfying C04's specification, and both back-ends are proved to "
               "satisfy it (C05.selNSGA2_standard via C04.sortStd_eq_peel, C05.selNSGA2_log via C04.sortLog_eq_peel); the "
               "correspondence ties Core/Crowding.lean to the real assignCrowdingDist/selNSGA2.")

INF = float("inf")


def sfr(q):
    q = Fr(q)
    return str(q.numerator) if q.denominator == 1 else "%d/%d" % (q.numerator, q.denominator)


_classes = {}


def fit_class(weights):
    key = tuple(weights)
    if key not in _classes:
        _classes[key] = type("Fit", (base.Fitness,), {"weights": tuple(float(w) for w in weights)})
    return _classes[key]


class Indiv(list):
    __slots__ = ("fitness",)


def build(w, popvals):
    F = fit_class([Fr(x) for x in w])
    pop = []
    for vals in popvals:
        ind = Indiv(float(Fr(v)) for v in vals)
        ind.fitness = F(tuple(float(Fr(v)) for v in vals))
        pop.append(ind)
    return pop


def dom(a, b):
    return all(x >= y for x, y in zip(a, b)) and any(x > y for x, y in zip(a, b))


def brute_depths(wv):
    n = len(wv)
    depth = [None] * n
    remaining = set(range(n))
    d = 0
    while remaining:
        front = [i for i in remaining if not any(dom(wv[j], wv[i]) for j in remaining)]
        for i in front:
            depth[i] = d
        remaining -= set(front)
        d += 1
    return depth


def formula(vals):
    """Crowding distance from the statement, for value tuples that are pairwise distinct in every objective:
    infinite for the extremes of each objective, else sum over objectives of (succ - pred) / (nobj * range)."""
    n = len(vals)
    if n == 0:
        return []
    nobj = len(vals[0])
    out = []
    for j in range(n):
        d = Fr(0)
        for i in range(nobj):
            col = [v[i] for v in vals]
            lo, hi = min(col), max(col)
            if vals[j][i] == lo or vals[j][i] == hi:
                d = INF
                break
            pred = max(c for c in col if c < vals[j][i])
            succ = min(c for c in col if c > vals[j][i])
            d += Fr(succ - pred) / (nobj * (hi - lo))
        out.append(d)
    return out


def close(a, b):
    if a == INF or b == INF:
        return a == b
    a, b = float(a), float(b)
    return abs(a - b) <= 1e-9 * max(abs(a), abs(b)) or abs(a - b) <= 1e-12


def pairwise_distinct(vals):
    if not vals:
        return True
    return all(len(set(v[i] for v in vals)) == len(vals) for i in range(len(vals[0])))


def dist_tok(x):
    return "inf" if x == INF else sfr(Fr(x))


def ptok(tuples):
    return ";".join(",".join(sfr(x) for x in t) for t in tuples) if tuples else "-"


def idtok(ids):
    return ",".join(map(str, ids)) if ids else "-"


def crowd_lines(vals, dists, exact):
    """protocol line + expected answer for one assignCrowdingDist call"""
    if exact:
        return "C05 crowd %s" % ptok(vals), ",".join(dist_tok(d) for d in dists) if dists else "-"
    mask = "m" + "".join("1" if d == INF else "0" for d in dists)
    fin = [d for d in dists if d != INF]
    return "C05 crowdf %s" % ptok(vals), "%s %s" % (mask, ",".join(fbits(d) for d in fin) if fin else "-")


def evaluate(d):
    if d["kind"] == "crowd":
        return eval_crowd(d)
    return eval_sel(d)


def eval_crowd(d):
    pop = build(d["w"], d["pop"])
    emo.assignCrowdingDist(pop)
    vals = [tuple(Fr(x) for x in ind.fitness.values) for ind in pop]
    want = [tuple(Fr(v) for v in t) for t in d["pop"]]
    if vals != want:
        return Case(d, [], [], oracle="fitness.values are not the assigned values (inexact input)", tag="inexact")
    dists = [ind.fitness.crowding_dist for ind in pop] if pop else []
    orc = None
    if pairwise_distinct(vals):
        for j, (got, exp) in enumerate(zip(dists, formula(vals))):
            if not close(got, exp):
                orc = "assignCrowdingDist: individual %d gets %r, the statement's formula gives %s" % (j, got, exp)
                break
    line, exp = crowd_lines(vals, dists, d.get("exact", False))
    return Case(d, [line], [exp], orc, tag=d.get("tag", "crowd"), nontrivial=len(pop) >= 3,
                tol=None if d.get("exact") else 1e-9)


def eval_sel(d):
    w = d["w"]
    n = len(d["pop"])
    lines, expect, orc = [], [], None
    for nd in d["nds"]:
        pop = build(w, d["pop"])
        index_of = dict((id(o), i) for i, o in enumerate(pop))
        wv = [tuple(Fr(x) for x in ind.fitness.wvalues) for ind in pop]
        vals = [tuple(Fr(x) for x in ind.fitness.values) for ind in pop]
        if vals != [tuple(Fr(v) for v in t) for t in d["pop"]]:
            return Case(d, [], [], oracle="fitness.values are not the assigned values (inexact input)", tag="inexact")
        k = d["k"]
        chosen = emo.selNSGA2(pop, k, nd)
        ids = [index_of.get(id(o)) for o in chosen]
        dist_after = [getattr(ind.fitness, "crowding_dist", None) for ind in pop]
        # ---- oracle: the statement on the returned objects
        if orc is None:
            orc = contract(nd, ids, k, n, wv, vals, dist_after)
        if None in ids:
            continue
        # ---- correspondence, piecewise: the cut replayed on the implementation's fronts and distances
        sorter = emo.sortNondominated if nd == "standard" else emo.sortLogNondominated
        pop2 = build(w, d["pop"])
        idx2 = dict((id(o), i) for i, o in enumerate(pop2))
        fronts = sorter(pop2, k)
        for f in fronts:
            emo.assignCrowdingDist(f)
        fr_ids = [[idx2[id(o)] for o in f] for f in fronts]
        last_d = [o.fitness.crowding_dist for o in fronts[-1]] if fronts else []
        lines.append("C05 cut %s %s %d" % (";".join(idtok(f) if f else "-" for f in fr_ids) if fr_ids else "-",
                                          ",".join(dist_tok(x) for x in last_d) if last_d else "-", k))
        expect.append(idtok(ids))
        # distances of the last front (and of the first one): tolerance unless the case is in the exact family
        for f in ([fronts[-1]] + ([fronts[0]] if len(fronts) > 1 else [])) if fronts else []:
            fv = [tuple(Fr(x) for x in o.fitness.values) for o in f]
            l, e = crowd_lines(fv, [o.fitness.crowding_dist for o in f], d.get("exact", False))
            lines.append(l)
            expect.append(e)
        # ---- end to end (only where float arithmetic is exact, so ties are the same ties)
        if d.get("exact"):
            lines.append("C05 sel %s %s %d %s" % (",".join(sfr(Fr(x)) for x in w), ptok(wv), k,
                                                   "std" if nd == "standard" else "log"))
            expect.append(idtok(ids))
    return Case(d, lines, expect, orc, tag=d.get("tag", "sel"), nontrivial=(0 < d["k"] < n),
                tol=None if d.get("exact") else 1e-9)


def contract(nd, ids, k, n, wv, vals, dist_after):
    name = "selNSGA2(k=%d, nd=%r)" % (k, nd)
    if len(ids) != min(k, n):
        return "%s returned %d individuals, min(k, n) = %d" % (name, len(ids), min(k, n))
    if None in ids:
        return "%s returned an object that is not one of the inputs" % name
    if len(set(ids)) != len(ids):
        return "%s returned an individual twice: %s" % (name, ids)
    depth = brute_depths(wv)
    sel = set(ids)
    omitted = [i for i in range(n) if i not in sel]
    for y in omitted:
        for x in ids:
            if depth[y] < depth[x]:
                return "%s left out individual %d of front %d but selected individual %d of front %d" % (
                    name, y, depth[y], x, depth[x])
    partial = sorted(set(depth[i] for i in ids) & set(depth[i] for i in omitted))
    if len(partial) > 1:
        return "%s took more than one front partially: %s" % (name, partial)
    if partial:
        kept = [i for i in ids if depth[i] == partial[0]]
        dropped = [i for i in omitted if depth[i] == partial[0]]
        for i in kept + dropped:
            if dist_after[i] is None:
                return "%s: no crowding distance assigned to individual %d of the cut front" % (name, i)
        worst_kept = min(dist_after[i] for i in kept)
        best_dropped = max(dist_after[i] for i in dropped)
        if worst_kept < best_dropped:
            return "%s kept an individual with crowding distance %r and dropped one with %r" % (
                name, worst_kept, best_dropped)
    # crowding formula, where the statement defines it
    if pairwise_distinct(vals):
        by_depth = {}
        for i in range(n):
            by_depth.setdefault(depth[i], []).append(i)
        seen_depths = set(depth[i] for i in ids)
        for dd in sorted(seen_depths):
            members = by_depth[dd]
            exp = formula([vals[i] for i in members])
            for i, e in zip(members, exp):
                if dist_after[i] is None or not close(dist_after[i], e):
                    return "%s: individual %d (front %d) has crowding distance %r, the statement's formula gives %s" % (
                        name, i, dd, dist_after[i], e)
    return None


# ----------------------------------------------------------------------------------------------
# generators
# ----------------------------------------------------------------------------------------------

WCHOICES = ["1", "-1", "2", "-1/2"]


def rand_weights(rng, m):
    r = rng.random()
    if r < 0.25:
        return ["-1"] * m
    if r < 0.4:
        return ["1"] * m
    return [rng.choice(WCHOICES) for _ in range(m)]


def is_pow2_or_zero(q):
    q = Fr(q)
    if q == 0:
        return True
    if q < 0:
        return False
    n, dn = q.numerator, q.denominator
    return (n & (n - 1)) == 0 and (dn & (dn - 1)) == 0


def exact_ok(w, popvals):
    """every front's range in every objective is a power of two (or 0) and nobj is a power of two"""
    m = len(w)
    if m not in (1, 2, 4):
        return False
    wv = [tuple(Fr(v) * Fr(x) for v, x in zip(p, w)) for p in popvals]
    depth = brute_depths(wv)
    for dd in set(depth):
        mem = [popvals[i] for i in range(len(popvals)) if depth[i] == dd]
        for i in range(m):
            col = [Fr(p[i]) for p in mem]
            if not is_pow2_or_zero(max(col) - min(col)):
                return False
    return True


def gen_pop(rng, n, m):
    kind = rng.choice(["grid3", "grid5", "grid9", "distinct", "distinct", "antichain", "layers", "chain", "dups", "pairs"])
    if kind.startswith("grid"):
        wdt = int(kind[4:])
        pop = [[rng.randrange(wdt) for _ in range(m)] for _ in range(n)]
    elif kind == "distinct":
        cols = []
        for _ in range(m):
            c = rng.sample(range(0, 4 * n + 4), n)
            cols.append(c)
        pop = [[cols[i][j] for i in range(m)] for j in range(n)]
    elif kind == "antichain":
        xs = sorted(rng.sample(range(0, 3 * n + 3), n))
        ys = sorted(rng.sample(range(0, 3 * n + 3), n), reverse=True)
        pop = [[xs[j], ys[j]] + [rng.randrange(2) for _ in range(m - 2)] for j in range(n)]
        rng.shuffle(pop)
    elif kind == "layers":
        # stacked antichains: fronts of prescribed sizes including 1 and 2
        sizes, left = [], n
        while left > 0:
            s = min(left, rng.choice([1, 2, 2, 3, 5, 8]))
            sizes.append(s)
            left -= s
        pop, off = [], 0
        for s in sizes:
            xs = sorted(rng.sample(range(0, 40), s))
            ys = sorted(rng.sample(range(0, 40), s), reverse=True)
            for j in range(s):
                pop.append([xs[j] + off, ys[j] + off] + [off] * (m - 2))
            off += 50
        rng.shuffle(pop)
    elif kind == "chain":
        cur = [rng.randrange(3) for _ in range(m)]
        pop = []
        for _ in range(n):
            pop.append(list(cur))
            cur = [c + rng.randrange(1, 3) for c in cur]
        rng.shuffle(pop)
    elif kind == "dups":
        pts = [[rng.randrange(4) for _ in range(m)] for _ in range(max(1, n // 3))]
        pop = [list(rng.choice(pts)) for _ in range(n)]
    else:
        # pairs: every point twice (duplicate fitness, distinct objects)
        pts = [[rng.randrange(6) for _ in range(m)] for _ in range((n + 1) // 2)]
        pop = (pts + [list(p) for p in pts])[:n]
        rng.shuffle(pop)
    return kind, pop


def ks_for(rng, n):
    if n <= 6:
        return list(range(0, n + 3))
    return sorted(set([0, 1, n - 1, n, n + 2, rng.randint(1, n), rng.randint(1, n), n // 2]))


def sel_case(w, pop, k, tag, exact=False):
    return {"kind": "sel", "w": list(w), "pop": [list(map(str, p)) for p in pop], "k": k,
            "nds": ["standard", "log"] if len(w) >= 2 else ["standard"], "tag": tag, "exact": exact}


def generate(tier, rng, mult):
    thorough = tier == "thorough"
    # exhaustive small part: multisets over {0,1,2}^2 (a random order each), every k, both back-ends; exact family where it applies
    points = list(itertools.product([0, 1, 2], repeat=2))
    small = []
    for n in range(1, (6 if thorough else 5)):
        for c in itertools.combinations_with_replacement(points, n):
            small.append(list(c))
    rng.shuffle(small)
    nrand = (9000 if thorough else 900) * mult
    per = max(1, len(small) // max(1, nrand // 3))
    si = 0
    for it in range(nrand):
        # a slice of the exhaustive part
        for _ in range(per + (1 if thorough else 0)):
            if si < len(small):
                p = list(small[si])
                si += 1
                rng.shuffle(p)
                w = rand_weights(rng, 2)
                ex = exact_ok(w, [list(map(str, q)) for q in p])
                for k in range(0, len(p) + 3):
                    yield sel_case(w, p, k, "exh/n=%d%s" % (len(p), "/exact" if ex else ""), exact=ex)
        r = rng.random()
        m = rng.choice([2, 2, 3, 3, 4])
        if r < 0.6:
            n = rng.choice([1, 2, 3, 4, 5, 6, 8, 10, 12, 16, 20, 25, 30])
            kind, pop = gen_pop(rng, n, m)
            w = rand_weights(rng, m)
            ex = exact_ok(w, [list(map(str, q)) for q in pop])
            for k in ks_for(rng, n):
                yield sel_case(w, pop, k, "sel/%s/m=%d%s" % (kind, m, "/exact" if ex else ""), exact=ex)
        elif r < 0.8:
            # exact family by rejection: small integer grids, 2 or 4 objectives
            m = rng.choice([2, 2, 4])
            for _ in range(30):
                n = rng.choice([3, 4, 5, 6, 8, 10, 12])
                wdt = rng.choice([2, 3, 5, 9])
                pop = [[rng.randrange(wdt) for _ in range(m)] for _ in range(n)]
                w = rand_weights(rng, m)
                if exact_ok(w, [list(map(str, q)) for q in pop]):
                    for k in ks_for(rng, n):
                        yield sel_case(w, pop, k, "sel/exactgrid%d/m=%d/exact" % (wdt, m), exact=True)
                    break
        else:
            # direct crowding-distance calls on arbitrary lists (not necessarily a front)
            n = rng.choice([0, 1, 2, 3, 4, 5, 7, 10, 15])
            m = rng.choice([1, 2, 3, 4])
            kind, pop = gen_pop(rng, n, max(m, 2)) if n else ("empty", [])
            pop = [p[:m] for p in pop]
            w = rand_weights(rng, m)
            sp = [list(map(str, q)) for q in pop]
            ex = bool(pop) and m in (1, 2, 4) and all(
                is_pow2_or_zero(max(Fr(p[i]) for p in sp) - min(Fr(p[i]) for p in sp)) for i in range(m))
            yield {"kind": "crowd", "w": w, "pop": sp, "tag": "crowd/%s/m=%d%s" % (kind, m, "/exact" if ex else ""),
                   "exact": ex}


def shrink(d):
    n = len(d["pop"])
    if n > 1:
        for i in range(n):
            e = dict(d)
            e["pop"] = d["pop"][:i] + d["pop"][i + 1:]
            e["exact"] = False
            if "k" in d:
                e["k"] = min(d["k"], n + 1)
            yield e
    if d["kind"] == "sel":
        if len(d["nds"]) > 1:
            for nd in d["nds"]:
                e = dict(d)
                e["nds"] = [nd]
                yield e
        if d["k"] > 0:
            e = dict(d)
            e["k"] = d["k"] - 1
            yield e
    if any(x != "1" for x in d["w"]):
        e = dict(d)
        e["w"] = ["1"] * len(d["w"])
        e["exact"] = False
        yield e


def classify(desc, msg, known):
    return None
