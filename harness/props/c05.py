"""C05 — NSGA-II selection: exact size, references only, rank- then crowding-elitist (deap/tools/emo.py)."""
import itertools
import math
from fractions import Fraction as Fr

from lib import Case, fbits
from deap import base
from deap.tools import emo

ANCHORS = [("deap/tools/emo.py", ["selNSGA2", "assignCrowdingDist", "sortNondominated", "sortLogNondominated"])]
LEVEL = "proof"
RULE = ("sel (streams cycled round-robin, every seed runs every stream): populations of n<=30 individuals (plus antichains of "
        "40/64/80) with 2..4 objectives, weights of mixed sign and magnitude, every k in 0..n+2 for n<=6 and 8 values of k "
        "otherwise, both nd values; value families: integer grids, duplicates, pairs, pairwise-distinct, antichain, layers "
        "(fronts of size 1 and 2), chain, all-negative / mixed-sign, decimal fractions, near-constant objective "
        "(1000.0039..1000.0041), large offset with tiny irregular spread (1e6 + i*1e-4, timestamps; relative range <= 1e-9), "
        "values 0..3 ulps apart; the fitnesses carry stale crowding_dist attributes in every third "
        "case and every fourth case chains a second selNSGA2 call on the result of the first; every multiset of n<=4 points "
        "of {0,1,2}^2; end-to-end model comparison on the 'exact' family (integer values, 2 or 4 objectives, every front's "
        "range a power of two); crowd: direct calls of assignCrowdingDist on arbitrary lists of the same value families. "
        "Non-trivial = a selection that cuts a front (0 < k < n) or a crowd call with at least 3 individuals")
EXHAUSTIVE = {"quick": False, "thorough": False}
TIME_BUDGET = {"quick": 55, "thorough": 840}
CASE_TIMEOUT = 5           # selecting among <= 80 individuals takes milliseconds; 5 s without an answer is a hang
MIN_CASES = 2000
TRUSTED = ["IEEE-754: on the 'exact' family all quotients/sums of assignCrowdingDist are exact, so the Rat model equals the "
           "float implementation; elsewhere distances are compared with relative tolerance 1e-9 and the cut is replayed on "
           "the implementation's own (float) distances transported exactly",
           "CPython list.sort/sorted stability and reverse=True semantics (modelled by List.mergeSort with a strict key test)",
           "translator tie: the rendering rules of harness/py2lean_c05.py (its docstring) and lean/DeapModel/Core/GenPreludeC05.lean; the "
           "parameter / local types of harness/props/c05_translate.py (fitness tuples = lists of an ordered-field scalar, nan/inf outside; "
           "float('inf') only as the Dist value none; an individual = its fitness.values resp. NDSort.Ind; IndexError / AttributeError not "
           "rendered: an index outside a list reads `default`)"]
ASSUMPTIONS = ["an individual is listed once in the population (pop=[a,b,a,c] returns the object a twice: outside 'none twice')",
               "every individual is evaluated, all fitnesses have the same number (>= 1, >= 2 for nd='log') of objectives, finite "
               "values, non-zero weights, k >= 0; individuals and their fitness objects are distinct objects",
               "the crowding formula is checked where the statement defines it: objective values pairwise distinct"]
EXPLANATION = ("C05.* are proved for any list of fronts satisfying C04's specification, and both back-ends are proved to "
               "satisfy it (C05.selNSGA2_standard via C04.sortStd_eq_peel, C05.selNSGA2_log via C04.sortLog_eq_peel); the "
               "correspondence ties Core/Crowding.lean to the real assignCrowdingDist/selNSGA2.")

INF = float("inf")


def translate(repo):
    """translator tie (lib._translated_obligations): Lean definitions of isDominated, median, splitA, splitB,
    assignCrowdingDist and selNSGA2 regenerated from `repo`'s current deap/tools/emo.py (harness/py2lean_c05.py) + the
    committed theorems `Gen.<f> = <Model>.<f>` of lean/DeapModel/GenEq/C05.lean.tmpl"""
    from props import c05_translate
    import json
    import os
    import lib
    tr = c05_translate.translate(repo)
    try:
        os.makedirs(os.path.join(lib.OUT, "evidence"), exist_ok=True)
        with open(os.path.join(lib.OUT, "evidence", "C05.translated.json"), "w") as fh:
            json.dump({"definitions": len(tr["definitions"]), "theorems": len(tr["theorems"]),
                       "refused": len(tr["refused"]), "problems": tr["problems"],
                       "functions": [dict(file=f, name=n, status=st, detail=d) for f, n, st, d in tr["table"]],
                       "theorem_names": tr["theorems"]}, fh, indent=1)
            fh.write("\n")
    except OSError:
        pass
    return tr


def sfr(q):
    q = Fr(q)
    return str(q.numerator) if q.denominator == 1 else "%d/%d" % (q.numerator, q.denominator)


_classes = {}


def fit_class(weights):
    key = tuple(weights)
    if key not in _classes:
        _classes[key] = type("Fit", (base.Fitness,), {"weights": tuple(float(w) for w in weights)})
    return _classes[key]


class Indiv(list):
    __slots__ = ("fitness",)


def family_class(d):
    """fresh fitness classes for a HISTORY case: a parent class (weights d["parent"]["w"]) that has already been through
    assignCrowdingDist and selNSGA2 with both back-ends, and the class under test DERIVED from it with its own weights
    (possibly another number of objectives).  Nothing may be remembered per fitness type and found again through
    inheritance (seeded change C05-r7m1 caches the per-objective sort keys on the class)."""
    par = d["parent"]
    P = type("FitP", (base.Fitness,), {"weights": tuple(float(Fr(x)) for x in par["w"])})
    pp = build(par["w"], par["pop"], P)
    emo.assignCrowdingDist(list(pp))
    for nd in (["standard", "log"] if len(par["w"]) >= 2 else ["standard"]):
        emo.selNSGA2(build(par["w"], par["pop"], P), par["k"], nd)
    return type("FitC", (P,), {"weights": tuple(float(Fr(x)) for x in d["w"])})


def build(w, popvals, F=None):
    if F is None:
        F = fit_class([Fr(x) for x in w])
    pop = []
    for vals in popvals:
        ind = Indiv(float(Fr(v)) for v in vals)
        ind.fitness = F(tuple(float(Fr(v)) for v in vals))
        pop.append(ind)
    return pop


def dom(a, b):
    return all(x >= y for x, y in zip(a, b)) and any(x > y for x, y in zip(a, b))


def brute_depths(wv):
    n = len(wv)
    depth = [None] * n
    remaining = set(range(n))
    d = 0
    while remaining:
        front = [i for i in remaining if not any(dom(wv[j], wv[i]) for j in remaining)]
        for i in front:
            depth[i] = d
        remaining -= set(front)
        d += 1
    return depth


def formula(vals):
    """Crowding distance from the statement, for value tuples that are pairwise distinct in every objective:
    infinite for the extremes of each objective, else sum over objectives of (succ - pred) / (nobj * range)."""
    n = len(vals)
    if n == 0:
        return []
    nobj = len(vals[0])
    out = []
    for j in range(n):
        d = Fr(0)
        for i in range(nobj):
            col = [v[i] for v in vals]
            lo, hi = min(col), max(col)
            if vals[j][i] == lo or vals[j][i] == hi:
                d = INF
                break
            pred = max(c for c in col if c < vals[j][i])
            succ = min(c for c in col if c > vals[j][i])
            d += Fr(succ - pred) / (nobj * (hi - lo))
        out.append(d)
    return out


def close(a, b):
    if a == INF or b == INF:
        return a == b
    a, b = float(a), float(b)
    return abs(a - b) <= 1e-9 * max(abs(a), abs(b)) or abs(a - b) <= 1e-12


def pairwise_distinct(vals):
    if not vals:
        return True
    return all(len(set(v[i] for v in vals)) == len(vals) for i in range(len(vals[0])))


def dist_tok(x):
    return "inf" if x == INF else sfr(Fr(x))


def ptok(tuples):
    return ";".join(",".join(sfr(x) for x in t) for t in tuples) if tuples else "-"


def idtok(ids):
    return ",".join(map(str, ids)) if ids else "-"


def crowd_lines(vals, dists, exact):
    """protocol line + expected answer for one assignCrowdingDist call"""
    if exact:
        return "C05 crowd %s" % ptok(vals), ",".join(dist_tok(d) for d in dists) if dists else "-"
    mask = "m" + "".join("1" if d == INF else "0" for d in dists)
    fin = [d for d in dists if d != INF]
    return "C05 crowdf %s" % ptok(vals), "%s %s" % (mask, ",".join(fbits(d) for d in fin) if fin else "-")


def evaluate(d):
    if d["kind"] == "crowd":
        return eval_crowd(d)
    return eval_sel(d)


def eval_crowd(d):
    pop = build(d["w"], d["pop"], family_class(d) if d.get("parent") else None)
    emo.assignCrowdingDist(pop)
    vals = [tuple(Fr(x) for x in ind.fitness.values) for ind in pop]
    want = [tuple(Fr(v) for v in t) for t in d["pop"]]
    if vals != want:
        return Case(d, [], [], oracle="fitness.values are not the assigned values (inexact input)", tag="inexact")
    dists = [ind.fitness.crowding_dist for ind in pop] if pop else []
    orc = None
    if pairwise_distinct(want):
        for j, (got, exp) in enumerate(zip(dists, formula(want))):
            if not close(got, exp):
                orc = "assignCrowdingDist: individual %d gets %r, the statement's formula gives %s" % (j, got, exp)
                break
    line, exp = crowd_lines(vals, dists, d.get("exact", False))
    return Case(d, [line], [exp], orc, tag=d.get("tag", "crowd"), nontrivial=len(pop) >= 3,
                tol=None if d.get("exact") else 1e-9)


def one_call(objs, valsF, w, k, nd, exact, lines, expect, F=None):
    """one selNSGA2 call on the objects `objs` (whose assigned values are `valsF`, exact rationals taken from the
    case description).  Appends the protocol lines; returns (chosen objects, oracle message or None)."""
    n = len(objs)
    index_of = dict((id(o), i) for i, o in enumerate(objs))
    wF = [Fr(x) for x in w]
    # weighted values from the case description: value * weight (a negative weight minimises)
    wv = [tuple(v * x for v, x in zip(t, wF)) for t in valsF]
    chosen = emo.selNSGA2(objs, k, nd)
    ids = [index_of.get(id(o)) for o in chosen]
    orc = contract(nd, ids, k, n, wv, valsF)
    if None in ids:
        return chosen, orc
    # ---- correspondence, piecewise: the cut replayed on the fronts and distances of fresh copies
    sorter = emo.sortNondominated if nd == "standard" else emo.sortLogNondominated
    pop2 = build(w, [[sfr(x) for x in t] for t in valsF], F)
    idx2 = dict((id(o), i) for i, o in enumerate(pop2))
    fronts = sorter(pop2, k)
    for f in fronts:
        emo.assignCrowdingDist(f)
    fr_ids = [[idx2[id(o)] for o in f] for f in fronts]
    last_d = [o.fitness.crowding_dist for o in fronts[-1]] if fronts else []
    lines.append("C05 cut %s %s %d" % (";".join(idtok(f) if f else "-" for f in fr_ids) if fr_ids else "-",
                                      ",".join(dist_tok(x) for x in last_d) if last_d else "-", k))
    expect.append(idtok(ids))
    for f in ([fronts[-1]] + ([fronts[0]] if len(fronts) > 1 else [])) if fronts else []:
        fv = [valsF[idx2[id(o)]] for o in f]
        l, e = crowd_lines(fv, [o.fitness.crowding_dist for o in f], exact)
        lines.append(l)
        expect.append(e)
    if exact:
        lines.append("C05 sel %s %s %d %s" % (",".join(sfr(x) for x in wF), ptok(wv), k,
                                               "std" if nd == "standard" else "log"))
        expect.append(idtok(ids))
    return chosen, orc


def eval_sel(d):
    w = d["w"]
    n = len(d["pop"])
    valsF = [tuple(Fr(v) for v in t) for t in d["pop"]]
    lines, expect, orc = [], [], None
    F = family_class(d) if d.get("parent") else None
    for nd in d["nds"]:
        pop = build(w, d["pop"], F)
        got = [tuple(Fr(x) for x in ind.fitness.values) for ind in pop]
        gotw = [tuple(Fr(x) for x in ind.fitness.wvalues) for ind in pop]
        if gotw != [tuple(v * Fr(x) for v, x in zip(t, w)) for t in valsF]:
            return Case(d, [], [], oracle="fitness.wvalues %r are not value*weight for values %r, weights %r"
                        % (gotw[:3], d["pop"][:3], w), tag="inexact")
        if got != valsF:
            return Case(d, [], [], oracle="fitness.values are not the assigned values (inexact input)", tag="inexact")
        # what a generational loop hands to the selection: fitnesses that already carry a crowding distance
        if d.get("stale"):
            for ind, sd in zip(pop, d["stale"]):
                if sd is not None:
                    ind.fitness.crowding_dist = INF if sd == "inf" else float(Fr(sd))
        chosen, o1 = one_call(pop, valsF, w, d["k"], nd, d.get("exact", False), lines, expect, F)
        if orc is None:
            orc = o1
        if d.get("k2") is not None and o1 is None and chosen:
            # second selection among the survivors of the first (they carry the distances of the first call)
            index_of = dict((id(o), i) for i, o in enumerate(pop))
            vals2 = [valsF[index_of[id(o)]] for o in chosen]
            _, o2 = one_call(list(chosen), vals2, w, d["k2"], nd, False, lines, expect, F)
            if orc is None and o2 is not None:
                orc = "second call on the survivors of selNSGA2(k=%d): %s" % (d["k"], o2)
    return Case(d, lines, expect, orc, tag=d.get("tag", "sel"), nontrivial=(0 < d["k"] < n),
                tol=None if d.get("exact") else 1e-9)


def contract(nd, ids, k, n, wv, vals):
    """The statement, on the returned objects.  Crowding distances are computed here from the statement's definition
    (never read from the objects), and only where the statement constrains them: inside the partially taken front,
    when its objective values are pairwise distinct.  Equal distances may be kept/dropped in any order."""
    name = "selNSGA2(k=%d, nd=%r)" % (k, nd)
    if len(ids) != min(k, n):
        return "%s returned %d individuals, min(k, n) = %d" % (name, len(ids), min(k, n))
    if None in ids:
        return "%s returned an object that is not one of the inputs" % name
    if len(set(ids)) != len(ids):
        return "%s returned an individual twice: %s" % (name, ids)
    depth = brute_depths(wv)
    sel = set(ids)
    omitted = [i for i in range(n) if i not in sel]
    for y in omitted:
        for x in ids:
            if depth[y] < depth[x]:
                return "%s left out individual %d of front %d but selected individual %d of front %d" % (
                    name, y, depth[y], x, depth[x])
    partial = sorted(set(depth[i] for i in ids) & set(depth[i] for i in omitted))
    if len(partial) > 1:
        return "%s took more than one front partially: %s" % (name, partial)
    if partial:
        members = [i for i in range(n) if depth[i] == partial[0]]
        fvals = [vals[i] for i in members]
        if pairwise_distinct(fvals):
            dist = dict(zip(members, formula(fvals)))
            kept = [i for i in ids if depth[i] == partial[0]]
            dropped = [i for i in omitted if depth[i] == partial[0]]
            wk = min(kept, key=lambda i: dist[i])
            bd = max(dropped, key=lambda i: dist[i])
            if dist[wk] < dist[bd] and not close(dist[wk], dist[bd]):
                return ("%s kept individual %d with crowding distance %s and dropped individual %d with %s (front %d)"
                        % (name, wk, dist[wk], bd, dist[bd], partial[0]))
    return None


# ----------------------------------------------------------------------------------------------
# generators
# ----------------------------------------------------------------------------------------------

WCHOICES = ["1", "-1", "2", "-1/2"]


def rand_weights(rng, m):
    r = rng.random()
    if r < 0.25:
        return ["-1"] * m
    if r < 0.4:
        return ["1"] * m
    return [rng.choice(WCHOICES) for _ in range(m)]


def is_pow2_or_zero(q):
    q = Fr(q)
    if q == 0:
        return True
    if q < 0:
        return False
    n, dn = q.numerator, q.denominator
    return (n & (n - 1)) == 0 and (dn & (dn - 1)) == 0


def exact_ok(w, popvals):
    """every front's range in every objective is a power of two (or 0) and nobj is a power of two"""
    m = len(w)
    if m not in (1, 2, 4):
        return False
    wv = [tuple(Fr(v) * Fr(x) for v, x in zip(p, w)) for p in popvals]
    depth = brute_depths(wv)
    for dd in set(depth):
        mem = [popvals[i] for i in range(len(popvals)) if depth[i] == dd]
        for i in range(m):
            col = [Fr(p[i]) for p in mem]
            if not is_pow2_or_zero(max(col) - min(col)):
                return False
    return True


INT_KINDS = ["grid3", "distinct", "antichain", "layers", "grid5", "chain", "dups", "distinct", "pairs", "grid9"]
FLOAT_KINDS = ["neg", "offset", "frac", "nearrange", "offset", "mixed", "neartie"]
NEAR_BASES = [0.3, 0.1 + 0.2, 0.7, 1.1, 2.675, 1000.004, 123456.789]


def ulps(x, j):
    for _ in range(abs(j)):
        x = math.nextafter(x, math.inf if j > 0 else -math.inf)
    return x


def fl(x):
    """exact rational of the double nearest to x, as a protocol token"""
    return sfr(Fr(float(x)))


def gen_pop(rng, n, m, kind):
    if kind.startswith("grid"):
        wdt = int(kind[4:])
        pop = [[rng.randrange(wdt) for _ in range(m)] for _ in range(n)]
    elif kind == "distinct":
        cols = [rng.sample(range(0, 4 * n + 4), n) for _ in range(m)]
        pop = [[cols[i][j] for i in range(m)] for j in range(n)]
    elif kind == "antichain":
        xs = sorted(rng.sample(range(0, 3 * n + 3), n))
        ys = sorted(rng.sample(range(0, 3 * n + 3), n), reverse=True)
        extra = [rng.sample(range(0, 3 * n + 3), n) for _ in range(m - 2)]
        pop = [[xs[j], ys[j]] + [e[j] for e in extra] for j in range(n)]
        rng.shuffle(pop)
    elif kind == "layers":
        # stacked antichains: fronts of prescribed sizes including 1 and 2
        sizes, left = [], n
        while left > 0:
            sz = min(left, rng.choice([1, 2, 2, 3, 5, 8]))
            sizes.append(sz)
            left -= sz
        pop, off = [], 0
        for sz in sizes:
            xs = sorted(rng.sample(range(0, 40), sz))
            ys = sorted(rng.sample(range(0, 40), sz), reverse=True)
            for j in range(sz):
                pop.append([xs[j] + off, ys[j] + off] + [off] * (m - 2))
            off += 50
        rng.shuffle(pop)
    elif kind == "chain":
        cur = [rng.randrange(3) for _ in range(m)]
        pop = []
        for _ in range(n):
            pop.append(list(cur))
            cur = [c + rng.randrange(1, 3) for c in cur]
        rng.shuffle(pop)
    elif kind == "dups":
        pts = [[rng.randrange(4) for _ in range(m)] for _ in range(max(1, n // 3))]
        pop = [list(rng.choice(pts)) for _ in range(n)]
    elif kind == "pairs":
        # every point twice (duplicate fitness, distinct objects)
        pts = [[rng.randrange(6) for _ in range(m)] for _ in range((n + 1) // 2)]
        pop = (pts + [list(q) for q in pts])[:n]
        rng.shuffle(pop)
    elif kind == "neg":
        # all raw values negative (distinct per objective): a running maximum started at 0.0 is wrong here
        cols = [rng.sample(range(-4 * n - 40, -1), n) for _ in range(m)]
        pop = [[cols[i][j] for i in range(m)] for j in range(n)]
    elif kind == "mixed":
        pop = [[rng.randrange(9) - 4 for _ in range(m)] for _ in range(n)]
    elif kind == "frac":
        # decimal fractions of both signs (not dyadic): the doubles are transported exactly
        seen = [set() for _ in range(m)]
        pop = []
        for _ in range(n):
            q = []
            for i in range(m):
                while True:
                    x = round(rng.uniform(-50, 50), 3)
                    if x not in seen[i] or rng.random() < 0.1:
                        seen[i].add(x)
                        break
                q.append(fl(x))
            pop.append(q)
    elif kind == "offset":
        # one objective with a large offset and a tiny, irregular spread (a cost around 1e6 that differs in the 4th
        # decimal, timestamps a few ms apart): pairwise distinct, non-zero range, relative range <= 1e-9; the other
        # objectives are evenly spaced so that the offset objective decides the crowding order (one antichain)
        off, step = rng.choice([(1e6, 1e-4), (1e6, 2.5e-5), (1.7e9, 0.0625), (1e12, 16.0), (-1e6, 1e-4)])
        pos, cur = [], 0
        for _ in range(n):
            pos.append(cur)
            cur += rng.choice([1, 1, 2, 3, 4])
        scale = max(1, pos[-1]) / 9.0 if pos[-1] > 9 else 1.0
        xs = [off + (q / scale) * step for q in pos]
        j0 = rng.randrange(2)
        pop = []
        for j in range(n):
            q = [None, None] + [3 * j + 1 for _ in range(m - 2)]
            q[j0] = fl(xs[j])
            q[1 - j0] = 2 * (n - j)
            pop.append(q)
        rng.shuffle(pop)
    elif kind == "nearrange":
        # an antichain whose first objective is almost constant: 1000.0039 .. 1000.0041 (non-zero range, "close")
        ys = sorted(rng.sample(range(-2 * n, 3 * n + 3), n), reverse=True)
        xs = sorted(rng.sample(range(0, 20), n) if n <= 20 else range(n))
        extra = [rng.sample(range(0, 3 * n + 3), n) for _ in range(m - 2)]
        pop = [[fl(1000.0039 + xs[j] * 1e-5), ys[j]] + [e[j] for e in extra] for j in range(n)]
        rng.shuffle(pop)
    else:
        # neartie: values a few ulps apart around non-dyadic doubles
        bases = [rng.sample(NEAR_BASES, 2) for _ in range(m)]
        pop = [[fl(ulps(rng.choice(bases[i]), rng.randint(-3, 3))) for i in range(m)] for _ in range(n)]
    return pop


def ks_for(rng, n):
    if n <= 6:
        return list(range(0, n + 3))
    return sorted(set([0, 1, n - 1, n, n + 2, rng.randint(1, n), rng.randint(1, n), n // 2]))


def stale_for(rng, n):
    """crowding distances left on the fitnesses by an earlier generation: arbitrary, mostly wrong"""
    mode = rng.randrange(3)
    if mode == 0:
        return ["0"] * n
    if mode == 1:
        return [rng.choice(["inf", "0", "1/2", "3", None]) for _ in range(n)]
    return [sfr(Fr(rng.randint(0, 64), 16)) for _ in range(n)]


def sel_case(w, pop, k, tag, exact=False, stale=None, k2=None):
    d = {"kind": "sel", "w": list(w), "pop": [list(map(str, q)) for q in pop], "k": k,
         "nds": ["standard", "log"] if len(w) >= 2 else ["standard"], "tag": tag, "exact": exact}
    if stale is not None:
        d["stale"] = stale
        d["tag"] = tag + "/stale"
    if k2 is not None:
        d["k2"] = k2
        d["tag"] = d["tag"] + "/chain"
    return d


def sel_cases(rng, it, kind, n, m):
    pop = gen_pop(rng, n, m, kind)
    w = rand_weights(rng, m)
    sp = [list(map(str, q)) for q in pop]
    ex = exact_ok(w, sp)
    stale = stale_for(rng, n) if it % 3 == 0 else None
    for k in ks_for(rng, n):
        k2 = None
        if it % 4 == 1 and k >= 2:
            k2 = rng.randint(1, max(1, min(k, n) - 1))
        yield sel_case(w, pop, k, "sel/%s/m=%d%s" % (kind, m, "/exact" if ex else ""), exact=ex, stale=stale, k2=k2)


def family_cases(tier, rng, mult):
    """HISTORY stream: the fitness class under test derives from a class of ANOTHER weight vector (other signs, other
    number of objectives) that was used first; pairwise distinct values so that the statement's crowding formula is
    demanded exactly."""
    count = (400 if tier == "thorough" else 40) * mult
    for it in range(count):
        mp = rng.choice([1, 2, 2, 3, 4])
        m = rng.choice([x for x in (2, 3, 4) if x != mp] + [mp])
        npar = rng.choice([3, 4, 6])
        par = {"w": rand_weights(rng, mp), "pop": [list(map(str, q[:mp])) for q in gen_pop(rng, npar, max(mp, 2), "distinct")],
               "k": rng.randint(1, npar)}
        n = rng.choice([3, 4, 5, 6, 8, 10])
        pop = gen_pop(rng, n, m, "distinct")
        w = rand_weights(rng, m)
        if it % 3 == 2:
            sp = [list(map(str, x)) for x in pop]
            yield {"kind": "crowd", "w": w, "pop": sp, "tag": "family/crowd/m=%d<-%d" % (m, mp), "exact": False,
                   "parent": par}
        else:
            for k in ks_for(rng, n):
                c = sel_case(w, pop, k, "family/sel/m=%d<-%d" % (m, mp), exact=False)
                c["parent"] = par
                yield c


def generate(tier, rng, mult):
    thorough = tier == "thorough"
    for c in family_cases(tier, rng, mult):
        yield c
    # exhaustive small part: multisets over {0,1,2}^2 (a random order each), every k, both back-ends
    points = list(itertools.product([0, 1, 2], repeat=2))
    small = []
    for n in range(1, (6 if thorough else 5)):
        for c in itertools.combinations_with_replacement(points, n):
            small.append(list(c))
    rng.shuffle(small)
    nrand = (9000 if thorough else 900) * mult
    per = max(1, len(small) // max(1, nrand // 3))
    si = 0
    ms = [2, 3, 2, 4, 3]
    ns = [1, 2, 3, 4, 5, 6, 8, 10, 12, 16, 20, 25, 30]
    for it in range(nrand):
        # a slice of the exhaustive part
        for _ in range(per + (1 if thorough else 0)):
            if si < len(small):
                q = list(small[si])
                si += 1
                rng.shuffle(q)
                w = rand_weights(rng, 2)
                ex = exact_ok(w, [list(map(str, x)) for x in q])
                stale = stale_for(rng, len(q)) if si % 3 == 0 else None
                for k in range(0, len(q) + 3):
                    yield sel_case(w, q, k, "exh/n=%d%s" % (len(q), "/exact" if ex else ""), exact=ex, stale=stale)
        stream = it % 6
        m = ms[(it // 6) % len(ms)]
        if stream in (0, 3):
            kind = INT_KINDS[(it // 3) % len(INT_KINDS)]
            for c in sel_cases(rng, it, kind, rng.choice(ns), m):
                yield c
        elif stream == 1:
            kind = FLOAT_KINDS[(it // 6) % len(FLOAT_KINDS)]
            n = rng.choice([3, 4, 5, 6, 8, 10, 12, 16, 20])
            for c in sel_cases(rng, it, kind, n, 2 if kind == "nearrange" and (it // 6) % 2 == 0 else m):
                yield c
        elif stream == 2:
            # exact family by rejection: small integer grids, 2 or 4 objectives
            m2 = [2, 2, 4][(it // 6) % 3]
            for _ in range(30):
                n = rng.choice([3, 4, 5, 6, 8, 10, 12])
                wdt = rng.choice([2, 3, 5, 9])
                pop = [[rng.randrange(wdt) for _ in range(m2)] for _ in range(n)]
                w = rand_weights(rng, m2)
                if exact_ok(w, [list(map(str, x)) for x in pop]):
                    stale = stale_for(rng, n) if (it // 6) % 2 == 0 else None
                    for k in ks_for(rng, n):
                        yield sel_case(w, pop, k, "sel/exactgrid%d/m=%d/exact" % (wdt, m2), exact=True, stale=stale)
                    break
        elif stream == 4:
            # direct crowding-distance calls on arbitrary lists (not necessarily a front)
            kinds = INT_KINDS + FLOAT_KINDS
            kind = kinds[(it // 6) % len(kinds)]
            n = rng.choice([0, 1, 2, 3, 4, 5, 7, 10, 15])
            m1 = [1, 2, 3, 4][(it // 6) % 4]
            pop = [q[:m1] for q in gen_pop(rng, n, max(m1, 2), kind)] if n else []
            w = rand_weights(rng, m1)
            sp = [list(map(str, x)) for x in pop]
            ex = bool(pop) and m1 in (1, 2, 4) and all(
                is_pow2_or_zero(max(Fr(x[i]) for x in sp) - min(Fr(x[i]) for x in sp)) for i in range(m1))
            yield {"kind": "crowd", "w": w, "pop": sp, "tag": "crowd/%s/m=%d%s" % (kind, m1, "/exact" if ex else ""),
                   "exact": ex}
        else:
            # a front larger than any "small input" shortcut: one big antichain, cut at a small k
            if (it // 6) % (2 if thorough else 6) == 0:
                n = [40, 64, 80][(it // 36) % 3]
                kind = ["antichain", "nearrange", "neg"][(it // 12) % 3]
                m3 = 2 if kind != "neg" else 3
                pop = gen_pop(rng, n, m3, "antichain" if kind == "neg" else kind)
                if kind == "neg":
                    pop = [[-1 - x for x in q] for q in pop]
                w = rand_weights(rng, m3)
                for k in sorted(set([2, n // 8, n // 4 - 1, n // 2])):
                    yield sel_case(w, pop, k, "sel/big%d/%s" % (n, kind), exact=False,
                                   stale=stale_for(rng, n) if (it // 6) % 4 == 0 else None)


def shrink(d):
    n = len(d["pop"])
    if n > 1:
        for i in range(n):
            e = dict(d)
            e["pop"] = d["pop"][:i] + d["pop"][i + 1:]
            e["exact"] = False
            if d.get("stale"):
                e["stale"] = d["stale"][:i] + d["stale"][i + 1:]
            if "k" in d:
                e["k"] = min(d["k"], n + 1)
            yield e
    if d["kind"] == "sel":
        if d.get("k2") is not None:
            e = dict(d)
            e["k2"] = None
            yield e
        if d.get("stale"):
            e = dict(d)
            e["stale"] = None
            yield e
        if len(d["nds"]) > 1:
            for nd in d["nds"]:
                e = dict(d)
                e["nds"] = [nd]
                yield e
        if d["k"] > 0:
            e = dict(d)
            e["k"] = d["k"] - 1
            yield e
    if any(x != "1" for x in d["w"]):
        e = dict(d)
        e["w"] = ["1"] * len(d["w"])
        e["exact"] = False
        yield e


def classify(desc, msg, known):
    return None
