"""C15 — Hypervolume is the exact dominated volume; the indicator finds the least contributor.

Implementations under test (all from $DEAP_REPO):
  * the compiled extension, REBUILT on every run from deap/tools/_hypervolume/_hv.c + hv.cpp into a
    per-run scratch directory (tempfile.mkdtemp(prefix="deapverif-"), outside /repo and /verif), loaded
    from there with importlib and deleted when the run ends;
  * the pure-Python fallback deap/tools/_hypervolume/pyhv.py;
  * the wrappers deap.benchmarks.tools.hypervolume and deap.tools.indicator.hypervolume, run once with each
    backend (their module-level `hv` is switched for the duration of the call).

Exact regime: every coordinate is a small dyadic rational, chosen so that all products/sums of the
algorithms are exact in binary64; model-vs-implementation is an equality.

Oracle (written from the property text, not from the model): the Lebesgue measure of the union of the boxes
[p, ref) by inclusion–exclusion over all non-empty subsets of the points (exact integer arithmetic); the
indicator's index must minimise hv(all) - hv(all without k).
"""
import atexit
import importlib
import importlib.util
import itertools
import os
import shutil
import subprocess
import sysconfig
import tempfile
import warnings
from fractions import Fraction as Fr

import numpy

import lib
from lib import Case

from deap import base
from deap.tools._hypervolume import pyhv

ANCHORS = [("deap/tools/_hypervolume/_hv.c", []), ("deap/tools/_hypervolume/hv.cpp", []),
           ("deap/tools/_hypervolume/pyhv.py", []), ("deap/tools/indicator.py", ["hypervolume"]),
           ("deap/benchmarks/tools.py", ["hypervolume"])]
LEVEL = "proof"
RULE = ("order of the streams: corpus of 6 fixed regression inputs; exhaustive: every multiset of <=3 points over {0..3}^d, "
        "d<=3, with ref=3^d (boundary points) and ref=4^d (quick: the 3-point multisets in d=3 are a seeded 1/20 sample; "
        "thorough: all of them, plus every 4-point multiset for d<=2 and a seeded sample of 150000 4-point multisets in d=3); "
        "wrappers: populations of 2..8 individuals with 1..5 objectives (mostly 2..4), every min/max mixture and dyadic "
        "weights, with the fitness class varied (base.Fitness, base.ConstrainedFitness feasible / violating, a class whose "
        "comparison operators, dominates and __hash__ raise, an epsilon-dominance subclass: only wvalues may matter), "
        "wide-range 'tiny contributor' fronts, given and default reference, each wrapper with both backends; calling "
        "conventions: pyhv, the extension and both wrappers called with plain lists / tuples, integer arrays (int8/16/32/64), float "
        "arrays, NON-CONTIGUOUS float arrays (transposed, row-strided, column-sliced, Fortran order; built on the callee's side of "
        "the worker pipe), mixed sequence/array arguments, reference all zero or not, always TWICE on the same objects (value exact both times, "
        "answers equal, caller's objects unchanged); float regime: random doubles in 1..6 dimensions (scales 1e-3..1e3, "
        "near-coincident points at relative distance 2e-7..1e-12 and a few ulps) against the exact measure of the doubles' "
        "exact values within 1e-12 relative, indicator index within 1e-12*total of the least exact loss; random exact sets: "
        "1..12 points in 1..7 dimensions in the modes general-position / heavy ties ({0..k}^d, k=1..3) / duplicates / dominated "
        "/ boundary / dyadic / negative / per-axis references / anti-chain fronts, every permutation of the points for <=5 "
        "points; a tie-heavy stream in d=4..7. Added for the compiled routine and the round-5 changes (placed before the calling "
        "conventions): populations whose fitnesses hash alike (weighted values -1.0 / -2.0 twins, duplicates) for the indicator; "
        "7-D (some 6-D) sets of 4..12 points with repeated coordinates for the extension alone (cached slices of hv_recursive; every "
        "4th also through the transcription); small-integer sets with every axis in units of 2^-40..2^100 (objectives of very different "
        "magnitude, arithmetic still exact). Every exact hypervolume case runs the transcribed pyhv sweep against pyhv's value and "
        "internal state AND the transcribed _hv.c (Core/HvC.lean) against the extension's value (and hvSlice). Non-trivial = distinct "
        "case with at least 2 points (individuals) and a positive hypervolume")
EXHAUSTIVE = {"quick": False, "thorough": False}
TIME_BUDGET = {"quick": 55, "thorough": 840}
TRUSTED = ["IEEE-754: the test coordinates are small dyadic rationals chosen so that every product and sum formed by the "
           "sweep algorithms is exact in binary64 (checked per case: range^d * 2^n < 2^62), so the Rat model and the "
           "float implementations compute the same numbers",
           "the C compiler and CPython extension loading (the extension is rebuilt from the working tree on every run)",
           "qsort in setup_cdllist is modelled as a stable sort (glibc: merge sort for arrays of this size; ISO C leaves the order of "
           "equal keys open - the value does not depend on it: proved for <= 3 objectives, observed otherwise)",
           "numpy.argmax returns the first maximal index (modelled by argmaxFirst)"]
ASSUMPTIONS = ["float regime: the implementations are compared with the exact Rat model evaluated at the doubles' exact values, "
               "tolerance 1e-12 relative (observed error < 1e-15); no claim about overflow/underflow ranges",
               "every point weakly dominates the reference point (coordinates <= reference; equality = boundary points allowed); "
               "all points have the dimension of the reference point; 1..12 points; no NaN/inf",
               "the proof covers the specification hvCells/hvSlice (= Lebesgue measure of the union of boxes in every "
               "dimension), the two wrappers, and the transcription Core/HvSweep.lean of pyhv's algorithm (correct in every "
               "dimension over exact rationals); that pyhv.py executes that transcription is checked by the correspondence run "
               "(value and internal state), float rounding is outside the proof; the C extension (_hv.c, variant 4 with AVL "
               "tree) is transcribed in Core/HvC.lean (AVL library abstracted to the ordered sequence it represents) and proved "
               "correct for 1..3 objectives; for >= 4 objectives (general case of hv_recursive, 3-D base case re-entered with a "
               "finite bound[2]) it is validated against the transcription and hvSlice only (value correspondence)"]
EXPLANATION = ("The ALGORITHM of pyhv (preProcess, hvRecursive with bounds pruning / cached areas and volumes / ignore marking / "
               "remove / reinsert) is transcribed in Core/HvSweep.lean and diffed on every hypervolume case against pyhv's value AND "
               "its observable final state (hvRecursive calls per dimIndex, node order of every dimension list, ignore flags, area "
               "and volume caches, bounds — read by wrapping Node.__init__/hvRecursive in the harness process) and against hvSlice. "
               "Proved: C15.sweep_eq_hvCells — the transcription returns hvCells in EVERY dimension (induction over the levels with "
               "an invariant on the multi-list: lists = static orders restricted to the present nodes, caches below the bounds = "
               "hypervolume of the prefix, ignore marks = domination by an earlier present node), termination with the lists "
               "restored, coordinate symmetry, slab decomposition. Theorems C15.* : hvCells = Lebesgue measure of the union of boxes "
               "(all dimensions), hvSlice = hvCells (discrete Fubini), invariances, 1-D/2-D formulas, indicator_least, population_hv. "
               "The C routine fpli_hv of _hv.c is transcribed in Core/HvC.lean (setup_cdllist, filter, hv_recursive VARIANT 4 incl. the "
               "3-D base case with domr / bound[2]; AVL tree = abstract ordered sequence) and diffed on every hypervolume case against the "
               "rebuilt extension's value; proved: C15.hvC_setup_filter, hvC_le_one_point (every dimension), hvC_eq_hvCells_partial / "
               "hvC_total_partial (1..3 objectives, all inputs), hvC_base_dim3_fresh; open: hvC_eq_hvCells_Statement for >= 4 objectives. "
               "Both implementations are diffed against hvSlice on exactly representable inputs; an inclusion-exclusion oracle checks "
               "them independently.")

KNOWN_ID = "pyhv-tied-coordinates"

# ----------------------------------------------------------------------------------------------
# the compiled extension, rebuilt per run
# ----------------------------------------------------------------------------------------------
_EXT = {}


class ExtensionCrash(Exception):
    """the compiled extension killed its process (segfault / abort / exit) or did not return"""


def _cleanup():
    px = _EXT.pop("proxy", None)
    if px is not None:
        px.stop()
    d = _EXT.pop("dir", None)
    if d:
        shutil.rmtree(d, ignore_errors=True)


def _load_ext(so):
    spec = importlib.util.spec_from_file_location("hv", so)
    mod = importlib.util.module_from_spec(spec)
    spec.loader.exec_module(mod)
    return mod


def _serve(conn, so):
    """worker process: load the freshly built extension from the scratch directory and answer calls"""
    try:
        mod = _load_ext(so)
        if os.path.realpath(mod.__file__) != os.path.realpath(so):
            raise ImportError("extension loaded from %s" % mod.__file__)
        conn.send((True, "ready"))
    except BaseException as e:  # noqa
        conn.send((False, repr(e)))
        return
    while True:
        try:
            req = conn.recv()
        except EOFError:
            return
        if req is None:
            return
        outs = []
        for args in req:
            try:
                if len(args) == 3 and args[0] == "twice":
                    outs.append((True, twice(mod.hypervolume, realize(args[1]), realize(args[2]))))
                else:
                    outs.append((True, mod.hypervolume(*args)))
            except Exception as e:  # noqa
                outs.append((False, e))
        conn.send(outs)


def realize(x):
    """('__view__', kind, base) -> the non-contiguous numpy view it describes (built on the callee's side of the
    process boundary: pickling would silently make it contiguous); anything else is passed through."""
    if isinstance(x, tuple) and len(x) == 3 and isinstance(x[0], str) and x[0] == "__view__":
        kind, base = x[1], x[2]
        if kind == "transposed":
            return base.T
        if kind == "strided":
            return base[::2]
        if kind == "colslice":
            return base[:, ::2]
        if kind == "fortran":
            return numpy.asfortranarray(base)
        raise ValueError(kind)
    return x


def snapshot(x):
    """an independent copy of a call argument, for the 'caller's object is unchanged' clause"""
    if isinstance(x, numpy.ndarray):
        return x.copy()
    if isinstance(x, (list, tuple)):
        return type(x)(snapshot(y) for y in x)
    return x


def same(a, b):
    if isinstance(a, numpy.ndarray) or isinstance(b, numpy.ndarray):
        return isinstance(a, numpy.ndarray) and isinstance(b, numpy.ndarray) and a.dtype == b.dtype \
            and a.shape == b.shape and bool((a == b).all())
    if isinstance(a, (list, tuple)):
        return type(a) is type(b) and len(a) == len(b) and all(same(x, y) for x, y in zip(a, b))
    return type(a) is type(b) and a == b


def twice(fn, points, ref):
    """call fn(points, ref) twice on the SAME objects -> (first, second, arguments unchanged?)"""
    p0, r0 = snapshot(points), snapshot(ref)
    v1 = fn(points, ref)
    v2 = fn(points, ref)
    return (v1, v2, same(points, p0) and same(ref, r0))


class _ExtProxy(object):
    """`hypervolume(points, ref)` of the rebuilt extension, executed in a forked worker process: a crash of the
    C code (segfault, abort, the `exit(EXIT_FAILURE)` in _hv.c) or a hang is reported as a failing case of the
    property instead of killing the check."""

    TIMEOUT = 120

    def __init__(self, so):
        self.so, self.proc, self.conn = so, None, None

    def _start(self):
        import multiprocessing
        ctx = multiprocessing.get_context("fork")
        self.conn, child = ctx.Pipe()
        self.proc = ctx.Process(target=_serve, args=(child, self.so), daemon=True)
        self.proc.start()
        child.close()
        if not self.conn.poll(self.TIMEOUT):
            self.stop()
            raise lib.Infra("worker for the hypervolume extension did not start")
        ok, msg = self.conn.recv()
        if not ok:
            self.stop()
            raise lib.Infra("cannot load the rebuilt hypervolume extension: %s" % msg)

    def stop(self):
        if self.proc is not None:
            try:
                self.conn.close()
            except OSError:
                pass
            self.proc.terminate()
            self.proc.join(5)
        self.proc = self.conn = None

    def _roundtrip(self, calls):
        if self.proc is None or not self.proc.is_alive():
            self.stop()
            self._start()
        try:
            self.conn.send(calls)
            if not self.conn.poll(self.TIMEOUT):
                self.stop()
                return None, "did not return within %d s" % self.TIMEOUT
            return self.conn.recv(), None
        except (EOFError, OSError):
            self.proc.join(5)
            code = self.proc.exitcode
            self.stop()
            return None, "terminated its process (exit code %s)" % code
        except BaseException:          # e.g. the per-case watchdog of lib.safe_evaluate fired while waiting
            self.stop()
            raise

    def many(self, calls):
        """[(points, ref), ...] -> [(ok, value or exception), ...]; a crash is attributed to the call that causes it"""
        outs, why = self._roundtrip(calls)
        if outs is not None:
            return outs
        if len(calls) == 1:
            return [(False, ExtensionCrash("the compiled extension %s on points %r, reference %r" % ((why,) + tuple(calls[0]))))]
        return [self.many([c])[0] for c in calls]

    def hypervolume(self, points, ref):
        ok, val = self.many([(points, ref)])[0]
        if ok:
            return val
        raise val

    def twice(self, points, ref):
        ok, val = self.many([("twice", points, ref)])[0]
        if ok:
            return val
        raise val


def hv_c():
    """The extension built from the working tree of $DEAP_REPO (once per process), behind a worker process."""
    if "proxy" in _EXT:
        return _EXT["proxy"]
    src = os.path.join(lib.REPO, "deap", "tools", "_hypervolume")
    scratch = tempfile.mkdtemp(prefix="deapverif-")
    _EXT["dir"] = scratch
    atexit.register(_cleanup)
    real = os.path.realpath(scratch)
    for forbidden in ("/repo", "/verif", os.path.realpath(lib.REPO), os.path.realpath(lib.VERIF)):
        if real == forbidden or real.startswith(forbidden + os.sep):
            raise lib.Infra("scratch directory %s lies inside %s" % (real, forbidden))
    inc = sysconfig.get_paths()["include"]
    so = os.path.join(scratch, "hv" + (sysconfig.get_config_var("EXT_SUFFIX") or ".so"))
    cc = shutil.which("gcc") or shutil.which("cc")
    cxx = shutil.which("g++") or shutil.which("c++")
    if cxx is None:
        raise lib.Infra("no C++ compiler to rebuild the hypervolume extension")
    ccmd = [cc, "-O2", "-fPIC"] if cc else [cxx, "-x", "c", "-O2", "-fPIC"]
    # as in /repo/setup.py: Extension("deap.tools._hypervolume.hv", sources=[_hv.c, hv.cpp])
    steps = [ccmd + ["-I", src, "-I", inc, "-c", os.path.join(src, "_hv.c"), "-o", os.path.join(scratch, "_hv.o")],
             [cxx, "-O2", "-fPIC", "-I", src, "-I", inc, "-c", os.path.join(src, "hv.cpp"),
              "-o", os.path.join(scratch, "hvw.o")],
             [cxx, "-shared", os.path.join(scratch, "_hv.o"), os.path.join(scratch, "hvw.o"), "-o", so]]
    for cmd in steps:
        p = subprocess.run(cmd, stdout=subprocess.PIPE, stderr=subprocess.STDOUT, text=True, timeout=600)
        if p.returncode != 0:
            raise lib.Infra("rebuilding the hypervolume extension failed (%s):\n%s" % (" ".join(cmd[:1]), p.stdout[-1500:]))
    px = _ExtProxy(so)
    px._start()
    _EXT["proxy"] = px
    return px


def backend(name):
    return hv_c() if name == "c" else pyhv


# ----------------------------------------------------------------------------------------------
# formatting / exact arithmetic
# ----------------------------------------------------------------------------------------------

def sfr(q):
    q = Fr(q)
    return str(q.numerator) if q.denominator == 1 else "%d/%d" % (q.numerator, q.denominator)


def slist(xs):
    xs = list(xs)
    return ",".join(sfr(x) for x in xs) if xs else "-"


def spts(pts):
    pts = list(pts)
    return ";".join(slist(p) for p in pts) if pts else "-"


def frs(xs):
    return [Fr(x) for x in xs]


def exact_of_float(x):
    x = float(x)
    if x != x or x in (float("inf"), float("-inf")):
        return None
    return Fr(x)


def _lcm(a, b):
    from math import gcd
    return a * b // gcd(a, b)


def scale(pts, ref):
    den = 1
    for q in itertools.chain(ref, *pts):
        den = _lcm(den, Fr(q).denominator)
    P = [[int(Fr(x) * den) for x in p] for p in pts]
    R = [int(Fr(x) * den) for x in ref]
    return P, R, den


def exactness_ok(pts, ref):
    """all products/sums of the sweep algorithms stay below 2^53 in the common denominator"""
    P, R, _ = scale(pts, ref)
    d = len(R)
    if not P:
        return True
    span = max([1] + [R[j] - min(p[j] for p in P) for j in range(d)] + [abs(x) for p in P for x in p] + [abs(x) for x in R])
    return (span ** d) << len(P) < (1 << 62)


def measure(pts, ref):
    """Lebesgue measure of the union of the boxes [p, ref): inclusion-exclusion over all non-empty subsets."""
    P, R, den = scale(pts, ref)
    d, n = len(R), len(P)
    if n == 0:
        return Fr(0)
    if d == 0:
        return Fr(1)
    span = max([1] + [abs(R[j] - p[j]) for p in P for j in range(d)])
    dtype = numpy.int64 if (span ** d) << n < (1 << 62) else object
    Rv = numpy.array(R, dtype=dtype)
    corners = None
    signs = None
    for p in P:
        pv = numpy.array([p], dtype=dtype)
        if corners is None:
            corners, signs = pv, numpy.array([1], dtype=dtype)
        else:
            new = numpy.maximum(corners, pv)
            corners = numpy.concatenate((corners, pv, new))
            signs = numpy.concatenate((signs, numpy.array([1], dtype=dtype), -signs))
    ext = Rv - corners
    ext = numpy.where(ext > 0, ext, 0)
    vol = ext[:, 0]
    for j in range(1, d):
        vol = vol * ext[:, j]
    total = int((signs * vol).sum())
    return Fr(total, den ** d)


def has_tie(pts, ref):
    """two points share a coordinate value in some dimension, or a point lies on the reference boundary
    (shares a coordinate value with the reference point)"""
    d = len(ref)
    for j in range(d):
        col = [Fr(p[j]) for p in pts]
        if len(set(col)) < len(col) or Fr(ref[j]) in col:
            return True
    return False


def call_c_many(ptss, ref):
    """the extension on several point lists (one round trip) -> exact results"""
    Rf = [float(x) for x in ref]
    outs = hv_c().many([([[float(x) for x in p] for p in pts], Rf) for pts in ptss])
    for ok, val in outs:
        if not ok:
            raise val
    return [exact_of_float(v) for _, v in outs]


def call_hv(name, pts, ref):
    """name 'c' | 'py'; pts, ref exact rationals -> exact result (None if not a finite float)"""
    Pf = [[float(x) for x in p] for p in pts]
    Rf = [float(x) for x in ref]
    if name == "c":
        return exact_of_float(hv_c().hypervolume(Pf, Rf))
    with warnings.catch_warnings():
        warnings.simplefilter("ignore")
        # pyhv subtracts the reference from its argument in place: hand it private copies
        return exact_of_float(pyhv.hypervolume(numpy.array(Pf, dtype=float), numpy.array(Rf, dtype=float)))


def pyhv_observe(pts, ref):
    """Run pyhv._HyperVolume(ref).compute(points) with the Node constructor and hvRecursive wrapped (in this process,
    nothing in $DEAP_REPO is edited) and return (exact value, canonical text of the observable final state) in the
    format of the driver op `sweep`: calls per dimIndex, node order of every dimension list, ignore flags, area and
    volume caches per node (nodes numbered in creation = input order), bounds."""
    d, n = len(ref), len(pts)
    Pf = numpy.array([[float(x) for x in p] for p in pts], dtype=float)
    Rf = numpy.array([float(x) for x in ref], dtype=float)
    Node, HV = pyhv._MultiList.Node, pyhv._HyperVolume
    created, calls, seen_bounds = [], [0] * d, []
    orig_init, orig_rec = Node.__init__, HV.hvRecursive

    def init(self, numberLists, cargo=None):
        orig_init(self, numberLists, cargo)
        created.append(self)

    def rec(self, dimIndex, length, bounds):
        calls[dimIndex] += 1
        if not seen_bounds:
            seen_bounds.append(bounds)
        return orig_rec(self, dimIndex, length, bounds)

    Node.__init__, HV.hvRecursive = init, rec
    try:
        with warnings.catch_warnings():
            warnings.simplefilter("ignore")
            val = HV(Rf).compute(Pf)
    finally:
        Node.__init__, HV.hvRecursive = orig_init, orig_rec
    if len(created) != n + 1:
        return exact_of_float(val), "unexpected-node-count:%d" % len(created)
    ident = {id(x): i for i, x in enumerate(created)}
    sentinel, nodes = created[0], created[1:]

    def num(x):
        q = exact_of_float(x)
        return "non-finite" if q is None else sfr(q)
    orders = []
    for i in range(d):
        row, a = [], sentinel.next[i]
        while a is not sentinel and len(row) <= n:
            row.append(ident.get(id(a), -1))
            a = a.next[i]
        orders.append(row)

    def l1(xs):
        xs = list(xs)
        return ",".join(xs) if xs else "-"
    bounds = seen_bounds[0] if seen_bounds else []
    text = " ".join([
        l1(str(c) for c in calls),
        ";".join(l1(str(a) for a in row) for row in orders),
        l1(str(x.ignore) for x in nodes),
        ";".join(l1(num(v) for v in x.area) for x in nodes),
        ";".join(l1(num(v) for v in x.volume) for x in nodes),
        l1("-inf" if b <= -1.0e308 else num(b) for b in bounds)])
    return exact_of_float(val), text


_classes = {}


FIT_KINDS = ["plain", "plain", "constrained", "constrained-violating", "wvalues-only", "eps-dominance"]


def _forbidden(name):
    def method(self, *args, **kwargs):
        raise AssertionError("the hypervolume of a population is defined on its weighted objectives alone, but "
                             "Fitness.%s was used" % name)
    return method


def fit_class(weights, kind="plain"):
    """The fitness class of the population.  The statement speaks about the weighted objectives only, so every class
    with the same `wvalues` must give the same answer:
      plain                 base.Fitness
      constrained           base.ConstrainedFitness, feasible (constraint_violation None / all False)
      constrained-violating base.ConstrainedFitness with violated constraints on some individuals
      wvalues-only          a Fitness whose comparison operators, `dominates` and `__hash__` raise
      eps-dominance         a user subclass with a coarser `dominates` (epsilon-dominance)"""
    key = (tuple(weights), kind)
    if key not in _classes:
        ws = {"weights": tuple(float(w) for w in weights)}
        if kind.startswith("constrained"):
            _classes[key] = type("CFit", (base.ConstrainedFitness,), ws)
        elif kind == "wvalues-only":
            body = dict(ws)
            for nm in ("dominates", "__lt__", "__le__", "__gt__", "__ge__", "__eq__", "__ne__", "__hash__"):
                body[nm] = _forbidden(nm)
            _classes[key] = type("WFit", (base.Fitness,), body)
        elif kind == "eps-dominance":
            def dominates(self, other, obj=slice(None)):
                return all(a >= b - 0.5 for a, b in zip(self.wvalues[obj], other.wvalues[obj])) and self.wvalues != other.wvalues
            _classes[key] = type("EFit", (base.Fitness,), dict(ws, dominates=dominates))
        else:
            _classes[key] = type("Fit", (base.Fitness,), ws)
    return _classes[key]


class Ind(object):
    def __init__(self, fitness):
        self.fitness = fitness


def population(w, vals, kind="plain"):
    F = fit_class(w, kind)
    out = []
    for i, v in enumerate(vals):
        f = F(tuple(float(x) for x in v))
        if kind == "constrained":
            f.constraint_violation = None if i % 2 else (False, False)
        elif kind == "constrained-violating":
            f.constraint_violation = (True,) if i % 3 == 0 else (False,)
        out.append(Ind(f))
    return out


class use_backend(object):
    """Run a wrapper with its module-level `hv` bound to the chosen backend."""

    def __init__(self, module, name):
        self.module, self.name = module, name

    def __enter__(self):
        self.old = self.module.hv
        self.module.hv = backend(self.name)
        self.w = warnings.catch_warnings()
        self.w.__enter__()
        warnings.simplefilter("ignore")

    def __exit__(self, *a):
        self.w.__exit__(*a)
        self.module.hv = self.old


def wobj_exact(w, vals):
    return [[-(Fr(x) * Fr(k)) for x, k in zip(v, w)] for v in vals]


# ----------------------------------------------------------------------------------------------
# evaluate
# ----------------------------------------------------------------------------------------------

class BadCase(Exception):
    """the description is not a valid case of the property's domain (only shrinking can produce one)"""


def evaluate(d):
    k = d["k"]
    try:
        if k in ("hv", "perm"):
            return eval_hv(d)
        if k == "pop":
            return eval_pop(d)
        if k == "ind":
            return eval_ind(d)
        if k == "conv":
            return eval_conv(d)
        if k in ("fhv", "find"):
            return eval_float(d)
    except BadCase as e:
        return Case(d, [], [], None, tag="invalid-description: %s" % e, nontrivial=False)
    raise ValueError(k)


def blame(bad_c, bad_py):
    """oracle message prefix: which implementation deviates"""
    if bad_c and bad_py:
        return "hv.c+pyhv"
    return "hv.c" if bad_c else "pyhv-only"


def eval_hv(d):
    ref, pts = frs(d["ref"]), [frs(p) for p in d["pts"]]
    dim, n = len(ref), len(pts)
    if n == 0 or dim == 0 or any(len(p) != dim for p in pts):
        raise BadCase("malformed case")
    if any(x > r for p in pts for x, r in zip(p, ref)):
        raise BadCase("point beyond the reference")
    if not exactness_ok(pts, ref):
        raise BadCase("coordinates too large for exact binary64 arithmetic")
    want = measure(pts, ref)
    if d.get("scale"):
        # axis j in units of 2^e_j: every quantity the sweeps form is homogeneous in each axis, so the computation
        # is the small-integer one times a power of two - still exact in binary64 (|e_j| <= 100, d <= 7: no
        # overflow / underflow), and the measure is the unscaled one times 2^(sum e_j)
        ex = [int(e) for e in d["scale"]]
        if len(ex) != dim or any(abs(e) > 100 for e in ex):
            raise BadCase("malformed scale")
        fac = [Fr(2) ** e for e in ex]
        pts = [[x * f for x, f in zip(p, fac)] for p in pts]
        ref = [x * f for x, f in zip(ref, fac)]
        for f in fac:
            want *= f
    c_only = d.get("only") == "c"
    if c_only:
        return eval_hv_c_only(d, pts, ref, want)
    orders = [list(range(n))]
    if d["k"] == "perm":
        orders = [list(o) for o in itertools.permutations(range(n))]
    lines, expect, orc = [], [], None
    py_ok = True
    c_vals = call_c_many([[pts[i] for i in order] for order in orders], ref)
    for oi, order in enumerate(orders):
        q = [pts[i] for i in order]
        gc = c_vals[oi]
        emit = oi < 4 or oi == len(orders) - 1
        if emit:
            gp, state = pyhv_observe(q, ref)
        else:
            gp = call_hv("py", q, ref)
        bad_c, bad_p = gc != want, gp != want
        if bad_p:
            py_ok = False
        if (bad_c or bad_p) and orc is None:
            orc = "%s: hypervolume of %s w.r.t. %s (order %s) is %s, extension returned %s, pyhv returned %s" % (
                blame(bad_c, bad_p), spts(q), slist(ref), order, sfr(want),
                "non-finite" if gc is None else sfr(gc), "non-finite" if gp is None else sfr(gp))
        elif bad_c and orc is not None and orc.startswith("pyhv-only"):
            orc = "hv.c+pyhv: " + orc + " ; and the extension returned %s for order %s" % (gc, order)
        if emit:
            # the transcribed algorithm (Core/HvSweep.lean) against pyhv's run: value and observable final state;
            # its first answer token compares the transcription with hvSlice inside the driver
            lines.append("C15 sweep %s %s" % (slist(ref), spts(q)))
            expect.append("ok %s %s" % ("non-finite" if gp is None else sfr(gp), state))
            # the compiled extension against the transcription of _hv.c (Core/HvC.lean): same value; the first answer
            # token says that the transcription equals hvSlice, so this line also diffs the extension against hvSlice
            # (pyhv's value travels in the sweep line; a wrong pyhv value is reported by the oracle above)
            lines.append("C15 chv %s %s" % (slist(ref), spts(q)))
            expect.append("ok %s" % ("non-finite" if gc is None else sfr(gc)))
    if n <= 4 and dim <= 3:
        # small inputs: the two specification-level definitions answer too (model-internal agreement)
        lines += ["C15 cells %s %s" % (slist(ref), spts(pts)), "C15 ie %s %s" % (slist(ref), spts(pts))]
        expect += [sfr(want), sfr(want)]
    tag = "%s/%s/d=%s/n=%s" % (d["k"], d.get("mode", "-") + ("/scaled" if d.get("scale") else ""), dim if dim <= 3 else ("4-5" if dim <= 5 else "6-7"),
                               "1-2" if n <= 2 else ("3-4" if n <= 4 else ("5-8" if n <= 8 else "9-12")))
    return Case(d, lines, expect, orc, tag=tag, nontrivial=(n >= 2 and want > 0))


def eval_hv_c_only(d, pts, ref, want):
    """the stream for the compiled extension's cached slices (`bound`, `vol`, `area`, `ignore >= dim` in the general
    case of hv_recursive, the re-entered 3-D base case): only reached with several nested general levels, i.e. in
    6-7 dimensions, and only wrong on repeated coordinates.  pyhv is not run here (it has its own streams; in 7-D it
    costs 10x the extension), so many more sets fit the budget.  Clause: the extension returns the measure."""
    dim, n = len(ref), len(pts)
    gc = call_c_many([pts], ref)[0]
    orc = None
    if gc != want:
        orc = "hv.c: hypervolume of %s w.r.t. %s is %s, extension returned %s" % (
            spts(pts), slist(ref), sfr(want), "non-finite" if gc is None else sfr(gc))
    lines, expect = [], []
    if d.get("line", True):
        lines.append("C15 chv %s %s" % (slist(ref), spts(pts)))
        expect.append("ok %s" % ("non-finite" if gc is None else sfr(gc)))
    tag = "hv-c-only/%s/d=%s/n=%s" % (d.get("mode", "-"), dim, "1-4" if n <= 4 else ("5-8" if n <= 8 else "9-12"))
    return Case(d, lines, expect, orc, tag=tag, nontrivial=(n >= 2 and want > 0))


def eval_pop(d):
    from deap.benchmarks import tools as btools
    w, vals = frs(d["w"]), [frs(v) for v in d["vals"]]
    ref = None if d["ref"] is None else frs(d["ref"])
    name = d["impl"]
    pts = wobj_exact(w, vals)
    r = ref if ref is not None else [max(p[j] for p in pts) + 1 for j in range(len(w))]
    if not exactness_ok(pts, r) or any(x > y for p in pts for x, y in zip(p, r)):
        raise BadCase("outside the exact regime / domain")
    pop = population(w, vals, d.get("fit", "plain"))
    with use_backend(btools, name):
        if ref is None:
            got = btools.hypervolume(pop)
        elif d.get("reflist"):
            got = btools.hypervolume(pop, [float(x) for x in ref])
        else:
            got = btools.hypervolume(pop, numpy.array([float(x) for x in ref]))
    got = exact_of_float(got)
    want = measure(pts, r)
    orc = None
    if got != want:
        orc = "%s: population hypervolume (weights %s, values %s, ref %s) is %s on the weighted objectives, got %s" % (
            "pyhv-only" if name == "py" else "hv.c", slist(w), spts(vals), "default" if ref is None else slist(ref),
            sfr(want), "non-finite" if got is None else sfr(got))
    lines, expect = [], []
    if not (name == "py" and orc is not None):
        lines = ["C15 pop %s %s %s" % (slist(w), spts(vals), "none" if ref is None else slist(ref))]
        expect = ["%s %s" % ("non-finite" if got is None else sfr(got), slist(r))]
    tag = "pop/%s/m=%d/%s/%s" % (name, len(w), "defref" if ref is None else "ref", d.get("fit", "plain"))
    return Case(d, lines, expect, orc, tag=tag, nontrivial=(len(vals) >= 2 and want > 0))


def eval_ind(d):
    indicator = importlib.import_module("deap.tools.indicator")
    w, vals = frs(d["w"]), [frs(v) for v in d["vals"]]
    ref = None if d["ref"] is None else frs(d["ref"])
    name = d["impl"]
    pts = wobj_exact(w, vals)
    n = len(pts)
    r = ref if ref is not None else [max(p[j] for p in pts) + 1 for j in range(len(w))]
    if n < 2 or not exactness_ok(pts, r) or any(x > y for p in pts for x, y in zip(p, r)):
        raise BadCase("outside the exact regime / domain")
    pop = population(w, vals, d.get("fit", "plain"))
    with use_backend(indicator, name):
        if ref is None:
            got = indicator.hypervolume(pop)
        else:
            got = indicator.hypervolume(pop, ref=numpy.array([float(x) for x in ref]))
    idx = int(got)
    total = measure(pts, r)
    loo = [measure(pts[:i] + pts[i + 1:], r) for i in range(n)]
    contrib = [total - x for x in loo]
    orc = None
    if not (0 <= idx < n) or int(got) != got:
        orc = "%s: indicator returned %r, not an index into a population of %d" % ("pyhv-only" if name == "py" else "hv.c", got, n)
    elif contrib[idx] != min(contrib):
        orc = "%s: indicator returned index %d whose removal loses %s, but removing index %d loses only %s (weights %s, values %s, ref %s)" % (
            "pyhv-only" if name == "py" else "hv.c", idx, sfr(contrib[idx]), contrib.index(min(contrib)), sfr(min(contrib)),
            slist(w), spts(vals), "default" if ref is None else slist(ref))
    # the leave-one-out values as the backend computes them (what `contribution(i)` returns)
    if name == "c":
        b_loo = call_c_many([pts[:i] + pts[i + 1:] for i in range(n)], r)
    else:
        b_loo = [call_hv(name, pts[:i] + pts[i + 1:], r) for i in range(n)]
    if orc is None and b_loo != loo:
        i = [a != b for a, b in zip(b_loo, loo)].index(True)
        orc = "%s: hypervolume of the population without individual %d is %s, backend returned %s (weights %s, values %s)" % (
            "pyhv-only" if name == "py" else "hv.c", i, sfr(loo[i]), "non-finite" if b_loo[i] is None else sfr(b_loo[i]),
            slist(w), spts(vals))
    lines, expect = [], []
    if not (name == "py" and orc is not None):
        lines = ["C15 ind %s %s %s" % (slist(w), spts(vals), "none" if ref is None else slist(ref))]
        expect = ["%d %s" % (idx, ",".join("non-finite" if x is None else sfr(x) for x in b_loo))]
    ties = len(set(loo)) < n
    tag = "ind/%s/m=%d/%s%s/%s%s" % (name, len(w), "defref" if ref is None else "ref", "/tied-contrib" if ties else "",
                                      d.get("fit", "plain"), "/" + d["style"] if d.get("style") else "")
    return Case(d, lines, expect, orc, tag=tag, nontrivial=(total > 0))


# ----------------------------------------------------------------------------------------------
# calling conventions: sequences, integer arrays, the same array twice (F23)
# ----------------------------------------------------------------------------------------------

FORMS = ["list", "tuple", "intarray", "floatarray", "array-listref", "list-arrayref",
         "int8array", "int16array", "int32array", "transposed", "strided", "colslice", "fortran"]


def shape_args(form, pts, ref):
    """the arguments in the requested Python form (coordinates are integers in this stream)"""
    ip = [[int(x) for x in p] for p in pts]
    ir = [int(x) for x in ref]
    if form == "list":
        return [list(p) for p in ip], list(ir)
    if form == "tuple":
        return tuple(tuple(p) for p in ip), tuple(ir)
    if form == "intarray":
        return numpy.array(ip, dtype=numpy.int64), numpy.array(ir, dtype=numpy.int64)
    if form == "floatarray":
        return numpy.array(ip, dtype=float), numpy.array(ir, dtype=float)
    if form in ("int8array", "int16array", "int32array"):
        dt = {"int8array": numpy.int8, "int16array": numpy.int16, "int32array": numpy.int32}[form]
        if any(abs(x) > 120 for p in ip for x in p) or any(abs(x) > 120 for x in ir):
            raise BadCase("coordinate does not fit the small integer type")
        return numpy.array(ip, dtype=dt), numpy.array(ir, dtype=dt)
    if form in ("transposed", "strided", "colslice", "fortran"):
        # float64 point sets that are NOT C-contiguous: described as a view of a base array, realised by the callee
        a = numpy.array(ip, dtype=float)
        n, dd = a.shape
        if form == "transposed":
            base = numpy.ascontiguousarray(a.T)
        elif form == "strided":
            base = numpy.full((2 * n, dd), -77.0)
            base[::2] = a
        elif form == "colslice":
            base = numpy.full((n, 2 * dd), -77.0)
            base[:, ::2] = a
        else:
            base = a
        return ("__view__", form, base), numpy.array(ir, dtype=float)
    if form == "array-listref":
        return numpy.array(ip, dtype=float), list(ir)
    if form == "list-arrayref":
        return [[float(x) for x in p] for p in ip], numpy.array(ir, dtype=float)
    raise BadCase("unknown form %r" % form)


def eval_conv(d):
    """Every routine called the way a user may call it: plain lists / tuples, integer arrays, and twice on the SAME
    objects.  Clauses: the value is the exact measure (both times), the two answers are equal, the caller's
    objects are unchanged."""
    ref, pts = frs(d["ref"]), [frs(p) for p in d["pts"]]
    form, target = d["form"], d["target"]
    if not pts or any(len(p) != len(ref) for p in pts) or any(x.denominator != 1 for p in pts for x in p) \
            or any(x.denominator != 1 for x in ref) or any(x > r for p in pts for x, r in zip(p, ref)):
        raise BadCase("malformed case")
    if not exactness_ok(pts, ref):
        raise BadCase("coordinates too large for exact binary64 arithmetic")
    lines, expect, orc = [], [], None
    who = {"py": "pyhv-only", "c": "hv.c"}
    if target in ("py", "c"):
        want = measure(pts, ref)
        P, R = shape_args(form, pts, ref)
        if target == "c":
            v1, v2, unchanged = hv_c().twice(P, R)
        else:
            try:
                with warnings.catch_warnings():
                    warnings.simplefilter("ignore")
                    v1, v2, unchanged = twice(pyhv.hypervolume, realize(P), realize(R))
            except lib.Infra:
                raise
            except Exception as e:  # noqa
                tag = "conv/py/-/%s%s/raised" % (form, "/zero-ref" if all(x == 0 for x in ref) else "")
                return Case(d, [], [], "pyhv-only: pyhv.hypervolume raised %s: %s when called with %s arguments (points %s, reference %s); "
                            "the exact hypervolume is %s" % (type(e).__name__, e, form, spts(pts), slist(ref), sfr(want)), tag=tag)
        g1, g2 = exact_of_float(v1), exact_of_float(v2)
        if g1 != want:
            orc = "%s: hypervolume of %s w.r.t. %s passed as %s is %s, got %s" % (who[target], spts(pts), slist(ref), form, sfr(want), v1)
        elif g2 != g1:
            orc = "%s: second call on the same %s arguments (%s w.r.t. %s) returned %s after %s" % (who[target], form, spts(pts), slist(ref), v2, v1)
        elif not unchanged:
            orc = "%s: the caller's %s arguments (%s w.r.t. %s) were modified by the call" % (who[target], form, spts(pts), slist(ref))
        if target == "c":
            # the extension against the transcription of _hv.c (and, through its first token, against hvSlice)
            lines = ["C15 chv %s %s" % (slist(ref), spts(pts))]
            expect = ["ok %s" % ("non-finite" if g1 is None else sfr(g1))]
        elif g1 == want:
            lines = ["C15 hv %s %s" % (slist(ref), spts(pts))]
            expect = ["non-finite" if g1 is None else sfr(g1)]
    else:
        # wrappers: d["w"] are +-1 weights, the points are the negated weighted values; ref given in the requested form
        name = d["impl"]
        w = frs(d["w"])
        vals = [[-(x * k) for x, k in zip(p, w)] for p in pts]          # value = -coordinate/weight, weight = +-1
        module = importlib.import_module("deap.benchmarks.tools") if target == "pop" else importlib.import_module("deap.tools.indicator")
        pop = population(w, vals)
        _, R = shape_args(form if form in ("list", "tuple", "intarray", "floatarray", "int8array", "int16array", "int32array") else "list", pts, ref)
        r0 = snapshot(R)
        wv0 = [ind.fitness.wvalues for ind in pop]
        with use_backend(module, name):
            if target == "pop":
                a1 = module.hypervolume(pop, R)
                a2 = module.hypervolume(pop, R)
            else:
                if len(pts) < 2:
                    raise BadCase("indicator needs two individuals")
                a1 = module.hypervolume(pop, ref=R)
                a2 = module.hypervolume(pop, ref=R)
        blame_ = "pyhv-only" if name == "py" else "hv.c"
        unchanged = same(R, r0) and [ind.fitness.wvalues for ind in pop] == wv0
        if target == "pop":
            want = measure(pts, ref)
            g1, g2 = exact_of_float(a1), exact_of_float(a2)
            if g1 != want:
                orc = "%s: population hypervolume with the reference passed as %s (%s w.r.t. %s) is %s, got %s" % (blame_, form, spts(pts), slist(ref), sfr(want), a1)
            elif g2 != g1:
                orc = "%s: second call on the same population/reference returned %s after %s" % (blame_, a2, a1)
            if not (name == "py" and g1 != want):
                lines = ["C15 pop %s %s %s" % (slist(w), spts(vals), slist(ref))]
                expect = ["%s %s" % ("non-finite" if g1 is None else sfr(g1), slist(ref))]
        else:
            total = measure(pts, ref)
            loss = [total - measure(pts[:i] + pts[i + 1:], ref) for i in range(len(pts))]
            i1, i2 = int(a1), int(a2)
            if not (0 <= i1 < len(pts)) or loss[i1] != min(loss):
                orc = "%s: indicator with the reference passed as %s returned %r, removing it loses %s, the least loss is %s (%s w.r.t. %s)" % (
                    blame_, form, a1, sfr(loss[i1]) if 0 <= i1 < len(pts) else "?", sfr(min(loss)), spts(pts), slist(ref))
            elif i2 != i1:
                orc = "%s: second call of the indicator on the same population/reference returned %r after %r" % (blame_, a2, a1)
            if orc is None or name != "py":
                lines = ["C15 lootol %s %s %d 0" % (slist(ref), spts(pts), i1)]
                expect = ["within"]
        if orc is None and not unchanged:
            orc = "%s: the caller's reference (%s) or the population's fitness values were modified by the call" % (blame_, form)
    zero = all(x == 0 for x in ref)
    tag = "conv/%s/%s/%s%s" % (target, d.get("impl", "-"), form, "/zero-ref" if zero else "")
    return Case(d, lines, expect, orc, tag=tag, nontrivial=len(pts) >= 2)


# ----------------------------------------------------------------------------------------------
# float regime: random doubles, near-coincident points; exact Rat model on the doubles' exact values
# ----------------------------------------------------------------------------------------------

FTOL = Fr(1, 10 ** 12)


def eval_float(d):
    """d["pts"], d["ref"]: doubles as repr strings.  'fhv': both routines and the population wrapper (weights -1) within
    1e-12 (relative) of the exact measure of the doubles' exact values; 'find': the indicator's index loses at most
    1e-12 * total more than the best index (exact losses)."""
    pf = [[float(x) for x in p] for p in d["pts"]]
    rf = [float(x) for x in d["ref"]]
    if not pf or any(len(p) != len(rf) for p in pf) or any(x > r for p in pf for x, r in zip(p, rf)):
        raise BadCase("malformed case")
    pts, ref = [[Fr(x) for x in p] for p in pf], [Fr(x) for x in rf]
    dim, n = len(rf), len(pf)
    total = measure(pts, ref)
    lines, expect, orc = [], [], None

    def off(v):
        q = exact_of_float(v)
        return q is None or abs(q - total) > FTOL * total

    if d["k"] == "fhv":
        gc = hv_c().hypervolume([list(p) for p in pf], list(rf))
        with warnings.catch_warnings():
            warnings.simplefilter("ignore")
            gp = pyhv.hypervolume(numpy.array(pf, dtype=float), numpy.array(rf, dtype=float))
        from deap.benchmarks import tools as btools
        pop = population([Fr(-1)] * dim, pts)
        with use_backend(btools, d.get("impl", "c")):
            gw = btools.hypervolume(pop, numpy.array(rf, dtype=float))
        bad = [nm for nm, v in (("hv.c", gc), ("pyhv", gp), ("benchmarks.tools.hypervolume", gw)) if off(v)]
        if bad:
            orc = "%s: hypervolume of the doubles %r w.r.t. %r is %r (exact value of the exact inputs), returned: extension %r, pyhv %r, population wrapper %r — off by more than 1e-12 relative" % (
                "+".join(bad), pf, rf, float(total), gc, gp, gw)
        for nm, v in (("c", gc), ("py", gp)):
            q = exact_of_float(v)
            if q is not None:
                lines.append("C15 hvtol %s %s %s %s" % (slist(ref), spts(pts), sfr(q), sfr(FTOL)))
                expect.append("within")
        tag = "fhv/d=%s/n=%s/%s" % (dim if dim <= 3 else "4-6", "1-2" if n <= 2 else ("3-4" if n <= 4 else "5-8"), d.get("mode", "-"))
        return Case(d, lines, expect, orc, tag=tag, nontrivial=(n >= 2 and total > 0))
    # find
    if n < 2:
        raise BadCase("indicator needs two individuals")
    indicator = importlib.import_module("deap.tools.indicator")
    name = d.get("impl", "c")
    pop = population([Fr(-1)] * dim, pts)
    with use_backend(indicator, name):
        got = indicator.hypervolume(pop, ref=numpy.array(rf, dtype=float))
    idx = int(got)
    loss = [total - measure(pts[:i] + pts[i + 1:], ref) for i in range(n)]
    if not (0 <= idx < n):
        orc = "%s: indicator returned %r for %d individuals" % ("pyhv-only" if name == "py" else "hv.c", got, n)
    elif loss[idx] - min(loss) > FTOL * total:
        orc = "%s: indicator returned index %d for the doubles %r w.r.t. %r: removing it loses %r, removing index %d loses only %r (total %r)" % (
            "pyhv-only" if name == "py" else "hv.c", idx, pf, rf, float(loss[idx]), loss.index(min(loss)), float(min(loss)), float(total))
    lines = ["C15 lootol %s %s %d %s" % (slist(ref), spts(pts), idx, sfr(FTOL))]
    expect = ["within"]
    tag = "find/%s/d=%d/%s" % (name, dim, d.get("mode", "-"))
    return Case(d, lines, expect, orc, tag=tag, nontrivial=total > 0)


# ----------------------------------------------------------------------------------------------
# generate
# ----------------------------------------------------------------------------------------------

CORPUS = [
    # F7 (DESIGN section 5): pyhv 270 vs 276
    {"k": "hv", "mode": "corpus", "ref": ["4"] * 5, "pts": [["0", "0", "1", "3", "0"], ["1", "2", "0", "3", "2"], ["1", "2", "0", "0", "3"]]},
    # smallest instance found: d = 4, three points, pyhv 42 vs 54
    {"k": "perm", "mode": "corpus", "ref": ["3"] * 4, "pts": [["1", "0", "0", "2"], ["1", "1", "2", "2"], ["1", "0", "0", "0"]]},
    # no two points share a coordinate, but three lie on the reference boundary: pyhv 2240 vs 1920
    {"k": "hv", "mode": "corpus", "ref": ["5"] * 7, "pts": [["3", "3", "0", "4", "4", "5", "3"], ["1", "5", "3", "0", "0", "1", "0"],
                                                         ["0", "1", "2", "3", "1", "4", "1"], ["5", "2", "5", "2", "3", "2", "4"]]},
    {"k": "hv", "mode": "corpus", "ref": ["3", "3", "3", "3"], "pts": [["2", "0", "1", "1"], ["2", "0", "1", "0"], ["2", "0", "1", "1"],
                                                                      ["0", "1", "2", "2"], ["0", "0", "2", "2"], ["1", "0", "2", "1"]]},
    {"k": "hv", "mode": "corpus", "ref": ["2"], "pts": [["1"], ["1"], ["2"], ["0"]]},
    {"k": "ind", "impl": "c", "w": ["-1", "-1"], "vals": [["1", "4"], ["2", "2"], ["4", "1"], ["2", "2"]], "ref": ["5", "5"]},
]


def _dy(rng, lo, hi, den):
    return sfr(Fr(rng.randint(lo * den, hi * den), den))


def random_pointset(rng, thorough):
    """-> (mode, ref, pts) as strings; every point <= ref componentwise, arithmetic exact."""
    dim = rng.choice([1, 2, 2, 3, 3, 3, 4, 4, 4, 5, 5, 6, 7])
    n = rng.choice([1, 2, 3, 3, 4, 4, 5, 6, 7, 8, 10, 12])
    if dim >= 6 and n > 8 and not thorough and rng.random() < 0.6:
        n = rng.randint(2, 8)
    mode = rng.choice(["general", "ties1", "ties2", "ties3", "mid", "dyadic", "negative", "dup", "dominated",
                       "boundary", "axisref", "front"])
    den, off = 1, 0
    if mode == "general":
        cols = [rng.sample(range(n + 2), n) for _ in range(dim)]
        pts = [[Fr(cols[j][i]) for j in range(dim)] for i in range(n)]
        ref = [Fr(n + 2)] * dim
    elif mode == "front":
        # mutually non-dominated points on an anti-chain: sum of coordinates constant
        s = rng.randint(dim, 3 * dim)
        pts = []
        for _ in range(n):
            cuts = sorted(rng.randint(0, s) for _ in range(dim - 1))
            pts.append([Fr(b - a) for a, b in zip([0] + cuts, cuts + [s])])
        ref = [Fr(s + rng.randint(0, 1))] * dim
    else:
        m = {"ties1": 1, "ties2": 2, "ties3": 3, "mid": 8, "dyadic": 4, "negative": 4, "dup": 3, "dominated": 4,
             "boundary": 3, "axisref": 4}[mode]
        if mode == "dyadic":
            den = rng.choice([2, 4])
        if mode == "negative":
            off = -rng.randint(1, 9)
        pts = [[Fr(rng.randint(0, m * den), den) + off for _ in range(dim)] for _ in range(n)]
        if mode == "axisref":
            ref = [Fr(m + rng.randint(0, 2)) + off for _ in range(dim)]
        else:
            ref = [Fr(m + rng.choice([0, 1, 1])) + off] * dim
        if mode == "boundary":
            ref = [Fr(m) + off] * dim
            for _ in range(rng.randint(1, max(1, n // 2))):
                pts[rng.randrange(n)][rng.randrange(dim)] = ref[0]
        if mode == "dup" and n > 1:
            for _ in range(rng.randint(1, max(1, n // 2))):
                pts[rng.randrange(n)] = list(pts[rng.randrange(n)])
        if mode == "dominated" and n > 1:
            for _ in range(rng.randint(1, max(1, n // 2))):
                src = pts[rng.randrange(n)]
                pts[rng.randrange(n)] = [min(x + Fr(rng.randint(0, 2), den), r) for x, r in zip(src, ref)]
    return mode, [sfr(x) for x in ref], [[sfr(x) for x in p] for p in pts]


WEIGHTS = ["1", "-1", "1", "-1", "2", "-2", "1/2", "-1/2", "-4", "3"]


def random_population(rng):
    m = rng.choice([1, 2, 2, 2, 3, 3, 3, 4, 4, 4, 5])
    n = rng.randint(2, 8)
    w = [rng.choice(WEIGHTS) for _ in range(m)]
    style = rng.choice(["ties", "ties", "mid", "dyadic", "front", "dup", "tiny"])
    if style == "tiny":
        # contributions spanning many orders of magnitude: a staircase over a wide integer range with
        # near-coincident steps (contribution ~1 of a total ~1e6) placed BEFORE a true zero contributor
        # (dominated or duplicated point), so that an approximate "no contribution" test picks the wrong index
        m = 2
        w = [rng.choice(["1", "-1"]) for _ in range(m)]
        big = rng.choice([1000, 4000, 30000])
        n = rng.randint(3, 7)
        xs = sorted(rng.sample(range(0, big), n))
        ys = sorted(rng.sample(range(0, big), n), reverse=True)
        pts = [[xs[i], ys[i]] for i in range(n)]
        j = rng.randrange(n)
        if j + 1 < n:
            pts[j] = [pts[j + 1][0] - 1, pts[j + 1][1] + rng.choice([1, 1, 2])]       # tiny contributor
        r = rng.random()
        if r < 0.45:
            k = rng.randrange(n)
            pts.append([pts[k][0] + rng.randint(0, 50), pts[k][1] + rng.randint(0, 50)])   # dominated: zero
        elif r < 0.8:
            pts.append(list(pts[rng.randrange(n)]))                                         # duplicate: zero
        if rng.random() < 0.3:
            rng.shuffle(pts)
        # wobj = -(value*weight): choose values so that the minimised coordinates are pts
        vals = [[Fr(-c) if Fr(w[i]) > 0 else Fr(c) for i, c in enumerate(p)] for p in pts]
        ref = None
        if rng.random() < 0.5:
            ref = [sfr(max(p[i] for p in pts) + rng.choice([1, 1, 2, 100])) for i in range(m)]
        return w, [[sfr(x) for x in v] for v in vals], ref
    if style == "front":
        s = rng.randint(m, 3 * m)
        vals = []
        for _ in range(n):
            cuts = sorted(rng.randint(0, s) for _ in range(m - 1))
            vals.append([Fr(b - a) for a, b in zip([0] + cuts, cuts + [s])])
    else:
        hi, den = {"ties": (2, 1), "mid": (9, 1), "dyadic": (4, 4), "dup": (3, 1)}[style]
        vals = [[Fr(rng.randint(-hi * den, hi * den), den) for _ in range(m)] for _ in range(n)]
        if style == "dup":
            vals[rng.randrange(n)] = list(vals[rng.randrange(n)])
    ref = None
    if rng.random() < 0.5:
        pts = wobj_exact(frs(w), vals)
        ref = [sfr(max(p[j] for p in pts) + rng.choice([0, 1, 1, 2, Fr(1, 2)])) for j in range(m)]
    return w, [[sfr(x) for x in v] for v in vals], ref


def hash_twin_population(rng):
    """populations whose weighted values are small integers with many -1.0 / -2.0 entries and rows that differ only
    there (CPython: hash(-1.0) == hash(-2.0), so such fitnesses hash alike although they are different points; also
    exact duplicates).  Typically a (dominator, dominated) pair plus a few other individuals, in random order: the
    dominated one is the unique least contributor (loss 0)."""
    m = rng.choice([2, 2, 3, 3, 4])
    n = rng.randint(3, 7)
    w = [rng.choice(["-1", "-1", "1", "-2", "2", "1/2", "-1/2"]) for _ in range(m)]
    ncol = rng.randint(1, min(2, m))
    cols = rng.sample(range(m), ncol)                       # the columns whose (minimised) coordinates are 1 or 2
    hi = rng.choice([3, 5, 6])
    base = []
    while len(base) < max(1, n - rng.randint(1, 2)):
        q = [rng.randint(0, hi) for _ in range(m)]
        for j in cols:
            q[j] = rng.choice([1, 2])
        base.append(q)
    pts = [list(q) for q in base]
    while len(pts) < n:
        q = list(rng.choice(base))
        j = rng.choice(cols)
        q[j] = 3 - q[j]                                     # 1 <-> 2: the twin differs only by -1.0 / -2.0
        pts.insert(rng.randrange(len(pts) + 1), q)
    # wobj = -(value * weight) = pts  =>  value = -pts / weight (exact: weights are +-1, +-2, +-1/2)
    vals = [[-Fr(c) / Fr(w[i]) for i, c in enumerate(q)] for q in pts]
    ref = None
    if rng.random() < 0.5:
        ref = [sfr(max(q[i] for q in pts) + rng.choice([1, 1, 2])) for i in range(m)]
    return w, [[sfr(x) for x in v] for v in vals], ref


def cached_slice_pointset(rng):
    """7-D (some 6-D) point sets with repeated coordinates for the compiled extension (see eval_hv_c_only)"""
    dim = rng.choice([7, 7, 7, 7, 6])
    n = rng.choice([4, 6, 8, 9, 10, 10, 11, 12, 12])
    style = rng.choice(["u3", "u5", "u5", "hi3", "u8", "front", "half"])
    if style == "front":
        sm = rng.randint(dim, 2 * dim)
        pts = []
        for _ in range(n):
            cuts = sorted(rng.randint(0, sm) for _ in range(dim - 1))
            pts.append([b - a for a, b in zip([0] + cuts, cuts + [sm])])
        top = sm + rng.choice([0, 1])
    elif style == "half":
        kk = max(1, n // 2)
        pts = [[rng.randint(0, kk) for _ in range(dim)] for _ in range(n)]
        top = kk + 1
    elif style == "hi3":
        pts = [[rng.choice([0, 1, 2, 3, 3, 3]) for _ in range(dim)] for _ in range(n)]
        top = 4
    else:
        kk = int(style[1:])
        pts = [[rng.randint(0, kk) for _ in range(dim)] for _ in range(n)]
        top = kk + rng.choice([0, 1, 1])
    return "c7-" + style, [str(top)] * dim, [[str(x) for x in q] for q in pts]


SCALES = [-40, -3, 0, 0, 0, 10, 30, 62, 64, 70, 100]


def scaled_pointset(rng):
    """small-integer point sets (ties, duplicates, boundary) whose axes are then expressed in units of 2^e_j,
    e_j in -40..100: objectives of very different magnitudes (1e-12 .. 1e30), all arithmetic still exact"""
    dim = rng.choice([1, 2, 3, 3, 3, 4, 4, 5, 6, 7])
    n = rng.choice([1, 2, 3, 3, 4, 5, 6, 8])
    kk = rng.choice([2, 3, 3, 5, 8])
    if rng.random() < 0.4:
        cols = [rng.sample(range(n + 2), n) for _ in range(dim)]
        pts = [[cols[j][i] for j in range(dim)] for i in range(n)]
        ref = [n + 2] * dim
    else:
        pts = [[rng.randint(0, kk) for _ in range(dim)] for _ in range(n)]
        ref = [kk + rng.choice([0, 1, 1, 2]) for _ in range(dim)]
    if rng.random() < 0.3:
        off = rng.randint(1, 9)                             # negative coordinates / the origin as reference
        pts = [[x - off for x in q] for q in pts]
        ref = [x - off for x in ref]
    exps = [rng.choice(SCALES) for _ in range(dim)]
    return "scaled", [str(x) for x in ref], [[str(x) for x in q] for q in pts], exps


def exhaustive(tier, rng):
    thorough = tier == "thorough"
    for dim in (1, 2, 3):
        grid = [list(map(str, p)) for p in itertools.product(range(4), repeat=dim)]
        for n in (1, 2, 3, 4):
            if n == 4 and not thorough:
                continue
            sets = itertools.combinations_with_replacement(grid, n)
            if n == 4 and dim == 3:
                # C(67,4) = 766480 multisets: seeded sample
                sets = (tuple(rng.choice(grid) for _ in range(4)) for _ in range(150000))
            for s in sets:
                if n == 3 and dim == 3 and not thorough and rng.random() >= 0.05:
                    continue
                for r in ("3", "4"):
                    yield {"k": "hv", "mode": "exh-ref%s" % r, "ref": [r] * dim, "pts": [list(p) for p in s]}


def conv_cases(rng, count):
    """calling conventions: small integer point sets (ties, duplicates, boundary), reference zero (points <= 0) or not"""
    for _ in range(count):
        dim = rng.choice([1, 2, 2, 3, 4, 5])
        n = rng.randint(1, 6)
        kk = rng.choice([2, 3, 9, 40])
        zero = rng.random() < 0.3
        if zero:
            pts = [[-rng.randint(0, kk) for _ in range(dim)] for _ in range(n)]
            ref = [0] * dim
        else:
            off = rng.choice([0, 0, -3])
            pts = [[rng.randint(0, kk) + off for _ in range(dim)] for _ in range(n)]
            ref = [kk + off + rng.choice([0, 1, 2]) for _ in range(dim)]
        if rng.random() < 0.3:      # no ties at all (a permutation per column), still integers
            cols = [rng.sample(range(n + 1), n) for _ in range(dim)]
            pts = [[cols[j][i] - (n + 1 if zero else 0) for j in range(dim)] for i in range(n)]
            ref = [0] * dim if zero else [n + 1] * dim
        base = {"k": "conv", "ref": [str(x) for x in ref], "pts": [[str(x) for x in p] for p in pts]}
        form = rng.choice(FORMS)
        for target in ("py", "c"):
            yield dict(base, form=form, target=target)
        if rng.random() < 0.5:
            w = [rng.choice(["1", "-1"]) for _ in range(dim)]
            form2 = rng.choice(["list", "tuple", "intarray", "floatarray", "int16array"])
            for target in ("pop", "ind"):
                if target == "ind" and n < 2:
                    continue
                yield dict(base, form=form2, target=target, impl=rng.choice(["c", "py"]), w=w)


def float_pointset(rng):
    """random doubles in general position, with near-coincident points (relative distance 1e-7 .. a few ulps)"""
    import math
    dim = rng.choice([1, 2, 2, 3, 3, 4, 5, 6])
    n = rng.choice([1, 2, 3, 3, 4, 5, 6, 8])
    scale = rng.choice([1.0, 1.0, 1.0, 1000.0, 1e-3, 1e-7])
    pts = [[rng.random() * scale for _ in range(dim)] for _ in range(n)]
    mode = rng.choice(["general", "near", "near", "ulp"])
    if mode != "general" and n > 1:
        for _ in range(rng.randint(1, n)):
            src = pts[rng.randrange(n)]
            j = rng.randrange(n)
            if mode == "near":
                eps = rng.choice([2e-7, 1e-7, 1e-9, 1e-12])
                pts[j] = [x * (1 + eps * rng.choice([-1, 1, 3, -2])) for x in src]
            else:
                pts[j] = [math.nextafter(x, rng.choice([0.0, 2 * scale])) if rng.random() < 0.7 else x for x in src]
    if rng.random() < 0.5:
        ref = [max(p[j] for p in pts) * rng.choice([1.0, 1.1, 1.5]) + rng.choice([0.0, 0.1 * scale]) for j in range(dim)]
    else:
        ref = [float(math.ceil(max(p[j] for p in pts) + rng.choice([0, 1]))) for j in range(dim)]
    return mode, [repr(x) for x in ref], [[repr(x) for x in p] for p in pts]


def float_front(rng):
    """a 2..4-objective front with near-ties of the contributions (differences ~1e-7 of the scale)"""
    dim = rng.choice([2, 2, 2, 3, 4])
    n = rng.randint(3, 7)
    if dim == 2:
        xs = sorted(rng.random() for _ in range(n))
        ys = sorted((rng.random() for _ in range(n)), reverse=True)
        pts = [[xs[i], ys[i]] for i in range(n)]
    else:
        pts = [[rng.random() for _ in range(dim)] for _ in range(n)]
    # near-coincident twin: contributes almost nothing
    for _ in range(rng.randint(1, 2)):
        src = pts[rng.randrange(len(pts))]
        eps = rng.choice([2e-7, 1e-7, 3e-8, 1e-9])
        twin = [x + eps * rng.choice([-1, 1, 2, -3]) for x in src]
        pts.insert(rng.randrange(len(pts) + 1), twin)
    ref = [float(int(max(p[j] for p in pts)) + rng.choice([1, 2])) for j in range(dim)]
    mode = "front-near"
    if rng.random() < 0.4:
        # the same front at a tiny scale (total hypervolume 1e-8 .. 1e-28): absolute epsilons become visible
        sc = rng.choice([1e-4, 1e-7])
        pts = [[x * sc for x in p] for p in pts]
        ref = [max(max(p[j] for p in pts) * rng.choice([1.0, 1.25]), r * sc * rng.choice([1.0, 0.5])) for j, r in enumerate(ref)]
        mode = "front-near-tiny"
    return mode, [repr(x) for x in ref], [[repr(x) for x in p] for p in pts]


def generate(tier, rng, mult):
    thorough = tier == "thorough"
    for c in CORPUS:
        yield c
    # 1. the exhaustive small domain first (the time budget truncates from the end)
    for c in exhaustive(tier, rng):
        yield c
    # 2. the wrappers
    npop = (6000 if thorough else 700) * mult
    for _ in range(npop):
        w, vals, ref = random_population(rng)
        fit = rng.choice(FIT_KINDS)
        for kind in ("pop", "ind"):
            for impl in ("c", "py"):
                dd = {"k": kind, "impl": impl, "w": w, "vals": vals, "ref": ref, "fit": fit}
                if kind == "pop" and ref is not None and rng.random() < 0.5:
                    dd["reflist"] = True
                yield dd
    # 2b. the indicator on populations whose fitnesses hash alike (weighted values -1.0 / -2.0) or are equal
    for _ in range((3000 if thorough else 350) * mult):
        w, vals, ref = hash_twin_population(rng)
        impl = rng.choice(["c", "c", "py"])
        yield {"k": "ind", "impl": impl, "w": w, "vals": vals, "ref": ref, "fit": rng.choice(["plain", "plain", "constrained"]),
               "style": "hash-twins"}
    # 2c. the compiled extension's cached slices: 7-D sets with repeated coordinates, extension only (every 4th
    #     case also runs the transcription Core/HvC.lean)
    for i in range((12000 if thorough else 1000) * mult):
        mode, ref, pts = cached_slice_pointset(rng)
        yield {"k": "hv", "mode": mode, "ref": ref, "pts": pts, "only": "c", "line": i % 4 == 0}
    # 2d. objectives of very different magnitudes: axes in units of 2^-40 .. 2^100
    for _ in range((3000 if thorough else 250) * mult):
        mode, ref, pts, exps = scaled_pointset(rng)
        yield {"k": "hv", "mode": mode, "ref": ref, "pts": pts, "scale": exps}
    # 3. calling conventions (sequences, integer arrays, the same array twice)
    for c in conv_cases(rng, (4000 if thorough else 500) * mult):
        yield c
    # 4. float regime: random doubles / near-coincident points against the exact model of their exact values
    nfl = (8000 if thorough else 800) * mult
    for i in range(nfl):
        mode, ref, pts = float_pointset(rng)
        yield {"k": "fhv", "mode": mode, "ref": ref, "pts": pts, "impl": rng.choice(["c", "py"])}
        if i % 2 == 0:
            mode, ref, pts = float_front(rng) if rng.random() < 0.7 else (mode, ref, pts)
            if len(pts) >= 2:
                for impl in ("c", "py"):
                    yield {"k": "find", "mode": mode, "ref": ref, "pts": pts, "impl": impl}
    # 5. random exact point sets
    nrand = (30000 if thorough else 2600) * mult
    for i in range(nrand):
        mode, ref, pts = random_pointset(rng, thorough)
        kind = "perm" if (len(pts) <= 5 and (len(pts) <= 4 or rng.random() < 0.3)) else "hv"
        yield {"k": kind, "mode": mode, "ref": ref, "pts": pts}
    # 6. deep stream: the caching / `ignore` logic of both sweeps only works in d >= 4 (C: d >= 5) and errs only on ties
    ndeep = (40000 if thorough else 2800) * mult
    for i in range(ndeep):
        dim = rng.choice([4, 5, 5, 6, 6, 7, 7])
        n = rng.choice([2, 3, 4, 4, 5, 6, 7, 8, 9, 10, 12])
        kk = rng.choice([1, 2, 2, 3, 4])
        off = rng.choice([0, 0, -2, 5])
        pts = [[rng.randint(0, kk) + off for _ in range(dim)] for _ in range(n)]
        top = kk + off + rng.choice([0, 1, 1])
        if rng.random() < 0.3:      # a sparse set of larger, untied values among the ties
            for _ in range(rng.randint(1, n)):
                pts[rng.randrange(n)][rng.randrange(dim)] = off - rng.randint(1, 6)
        kind = "perm" if n <= 4 and rng.random() < 0.5 else "hv"
        yield {"k": kind, "mode": "deep-ties", "ref": [str(top)] * dim, "pts": [[str(x) for x in p] for p in pts]}


# ----------------------------------------------------------------------------------------------
# shrink / classify
# ----------------------------------------------------------------------------------------------

def shrink(d):
    if d["k"] in ("conv", "fhv", "find"):
        pts, ref = d["pts"], d["ref"]
        for i in range(len(pts)):
            if len(pts) > (2 if (d["k"] == "find" or d.get("target") == "ind") else 1):
                yield dict(d, pts=pts[:i] + pts[i + 1:])
        for j in range(len(ref)):
            if len(ref) > 1:
                e = dict(d, ref=ref[:j] + ref[j + 1:], pts=[p[:j] + p[j + 1:] for p in pts])
                if "w" in d:
                    e["w"] = d["w"][:j] + d["w"][j + 1:]
                yield e
        return
    if d["k"] in ("hv", "perm"):
        pts, ref = d["pts"], d["ref"]
        if d["k"] == "perm":
            yield dict(d, k="hv")
        if d.get("line") is False:
            yield dict(d, line=True)        # a stored failing input always carries its protocol line
        for i in range(len(pts)):
            if len(pts) > 1:
                yield dict(d, pts=pts[:i] + pts[i + 1:])
        for j in range(len(ref)):
            if len(ref) > 1:
                e = dict(d, ref=ref[:j] + ref[j + 1:], pts=[p[:j] + p[j + 1:] for p in pts])
                if d.get("scale"):
                    e["scale"] = d["scale"][:j] + d["scale"][j + 1:]
                yield e
        if d.get("scale"):
            for j, ej in enumerate(d["scale"]):
                if ej != 0:
                    yield dict(d, scale=d["scale"][:j] + [0] + d["scale"][j + 1:])
        for i, p in enumerate(pts):
            for j, x in enumerate(p):
                for y in ("0", "1", ref[j]):
                    if x != y and Fr(y) <= Fr(ref[j]):
                        yield dict(d, pts=pts[:i] + [p[:j] + [y] + p[j + 1:]] + pts[i + 1:])
    else:
        vals, w = d["vals"], d["w"]
        for i in range(len(vals)):
            if len(vals) > 2:
                yield dict(d, vals=vals[:i] + vals[i + 1:])
        for j in range(len(w)):
            if len(w) > 1:
                yield dict(d, w=w[:j] + w[j + 1:], vals=[v[:j] + v[j + 1:] for v in vals],
                           ref=None if d["ref"] is None else d["ref"][:j] + d["ref"][j + 1:])
        for j, x in enumerate(w):
            for y in ("1", "-1"):
                if x != y and Fr(x) * Fr(y) > 0:
                    yield dict(d, w=w[:j] + [y] + w[j + 1:])
        for i, v in enumerate(vals):
            for j, x in enumerate(v):
                for y in ("0", "1"):
                    if x != y:
                        yield dict(d, vals=vals[:i] + [v[:j] + [y] + v[j + 1:]] + vals[i + 1:])


_F7_MARK = None


def f7_construct_present():
    """F7 is the `ignore` marking by area comparison in pyhv.hvRecursive (`if q.area[d] <= q.prev[d].area[d]:
    q.ignore = d`).  Once that construct is gone from the source (the port of the C rule is applied), a wrong pyhv
    value on tied input is no longer the known finding but a violation."""
    global _F7_MARK
    if _F7_MARK is None:
        import re
        try:
            src = open(os.path.join(lib.REPO, "deap", "tools", "_hypervolume", "pyhv.py")).read()
        except OSError:
            src = ""
        _F7_MARK = bool(re.search(r"[aA]rea\[dimIndex\]\s*<=\s*[\w.\[\]]*area\[dimIndex\]", src))
    return _F7_MARK


def classify(desc, msg, known):
    """Known finding F7: the pure-Python fallback is wrong when coordinates are tied (two points share a value in
    some dimension, or a point shares one with the reference point, i.e. lies on the boundary) in dimension >= 4
    (its `ignore` marks are never consulted below that).  Anything else — in particular any deviation of the compiled
    extension, of pyhv on tie-free input or in d <= 3, or of a pyhv that no longer contains the defective construct —
    is a violation."""
    if not msg.startswith("pyhv-only") or not f7_construct_present():
        return None
    try:
        if desc["k"] in ("hv", "perm", "conv", "fhv", "find"):
            pts, ref = [frs(p) for p in desc["pts"]], frs(desc["ref"])
        else:
            pts = wobj_exact(frs(desc["w"]), [frs(v) for v in desc["vals"]])
            ref = frs(desc["ref"]) if desc["ref"] is not None else [max(p[j] for p in pts) + 1 for j in range(len(desc["w"]))]
    except Exception:  # noqa
        return None
    if len(ref) >= 4 and has_tie(pts, ref):
        return KNOWN_ID
    return None
