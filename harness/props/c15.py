"""C15 — Hypervolume is the exact dominated volume; the indicator finds the least contributor.

Implementations under test (all from $DEAP_REPO):
  * the compiled extension, REBUILT on every run from deap/tools/_hypervolume/_hv.c + hv.cpp into a
    per-run scratch directory (tempfile.mkdtemp(prefix="deapverif-"), outside /repo and /verif), loaded
    from there with importlib and deleted when the run ends;
  * the pure-Python fallback deap/tools/_hypervolume/pyhv.py;
  * the wrappers deap.benchmarks.tools.hypervolume and deap.tools.indicator.hypervolume, run once with each
    backend (their module-level `hv` is switched for the duration of the call).

Exact regime: every coordinate is a small dyadic rational, chosen so that all products/sums of the
algorithms are exact in binary64; model-vs-implementation is an equality.

Oracle (written from the property text, not from the model): the Lebesgue measure of the union of the boxes
[p, ref) by inclusion–exclusion over all non-empty subsets of the points (exact integer arithmetic); the
indicator's index must minimise hv(all) - hv(all without k).
"""
import atexit
import importlib
import importlib.util
import itertools
import os
import shutil
import subprocess
import sysconfig
import tempfile
import warnings
from fractions import Fraction as Fr

import numpy

import lib
from lib import Case

from deap import base
from deap.tools._hypervolume import pyhv

ANCHORS = [("deap/tools/_hypervolume/_hv.c", []), ("deap/tools/_hypervolume/hv.cpp", []),
           ("deap/tools/_hypervolume/pyhv.py", []), ("deap/tools/indicator.py", ["hypervolume"]),
           ("deap/benchmarks/tools.py", ["hypervolume"])]
LEVEL = "proof"
RULE = ("corpus of 6 fixed regression inputs; exhaustive: every multiset of <=3 points over {0..3}^d, d<=3, with "
        "ref=3^d (boundary points) and ref=4^d (quick: the 3-point multisets in d=3 are a seeded 1/5 sample; thorough: "
        "all of them, plus every 4-point multiset for d<=2 and a seeded sample of 150000 4-point multisets in d=3); random: "
        "1..12 points in 1..7 dimensions in the modes general-position / heavy ties ({0..k}^d, k=1..3) / duplicates / "
        "dominated points / boundary points / dyadic / negative / per-axis references; every permutation of the points "
        "for <=5 points; populations of 2..8 individuals with 1..5 objectives (mostly 2..4), every min/max mixture and "
        "dyadic weights, given and default reference, each wrapper with both backends. Non-trivial = distinct case with "
        "at least 2 points (individuals) and a positive hypervolume")
EXHAUSTIVE = {"quick": False, "thorough": False}
TIME_BUDGET = {"quick": 55, "thorough": 840}
TRUSTED = ["IEEE-754: the test coordinates are small dyadic rationals chosen so that every product and sum formed by the "
           "sweep algorithms is exact in binary64 (checked per case: range^d * 2^n < 2^62), so the Rat model and the "
           "float implementations compute the same numbers",
           "the C compiler and CPython extension loading (the extension is rebuilt from the working tree on every run)",
           "numpy.argmax returns the first maximal index (modelled by argmaxFirst)"]
ASSUMPTIONS = ["every point weakly dominates the reference point (coordinates <= reference; equality = boundary points allowed); "
               "all points have the dimension of the reference point; 1..12 points; no NaN/inf",
               "the proof covers the specification hvCells/hvSlice (= Lebesgue measure of the union of boxes in every "
               "dimension) and the two wrappers; the dimension-sweep implementations (_hv.c, pyhv.py) are validated "
               "against hvSlice by the correspondence run, not verified"]
EXPLANATION = ("Theorems C15.* : hvCells = Lebesgue measure of the union of boxes (all dimensions), hvSlice = hvCells "
               "(discrete Fubini), invariances, 1-D/2-D formulas, indicator_least, population_hv. Both implementations are "
               "diffed against hvSlice on exactly representable inputs; an inclusion-exclusion oracle checks them independently.")

KNOWN_ID = "pyhv-tied-coordinates"

# ----------------------------------------------------------------------------------------------
# the compiled extension, rebuilt per run
# ----------------------------------------------------------------------------------------------
_EXT = {}


class ExtensionCrash(Exception):
    """the compiled extension killed its process (segfault / abort / exit) or did not return"""


def _cleanup():
    px = _EXT.pop("proxy", None)
    if px is not None:
        px.stop()
    d = _EXT.pop("dir", None)
    if d:
        shutil.rmtree(d, ignore_errors=True)


def _load_ext(so):
    spec = importlib.util.spec_from_file_location("hv", so)
    mod = importlib.util.module_from_spec(spec)
    spec.loader.exec_module(mod)
    return mod


def _serve(conn, so):
    """worker process: load the freshly built extension from the scratch directory and answer calls"""
    try:
        mod = _load_ext(so)
        if os.path.realpath(mod.__file__) != os.path.realpath(so):
            raise ImportError("extension loaded from %s" % mod.__file__)
        conn.send((True, "ready"))
    except BaseException as e:  # noqa
        conn.send((False, repr(e)))
        return
    while True:
        try:
            req = conn.recv()
        except EOFError:
            return
        if req is None:
            return
        outs = []
        for args in req:
            try:
                outs.append((True, mod.hypervolume(*args)))
            except Exception as e:  # noqa
                outs.append((False, e))
        conn.send(outs)


class _ExtProxy(object):
    """`hypervolume(points, ref)` of the rebuilt extension, executed in a forked worker process: a crash of the
    C code (segfault, abort, the `exit(EXIT_FAILURE)` in _hv.c) or a hang is reported as a failing case of the
    property instead of killing the check."""

    TIMEOUT = 120

    def __init__(self, so):
        self.so, self.proc, self.conn = so, None, None

    def _start(self):
        import multiprocessing
        ctx = multiprocessing.get_context("fork")
        self.conn, child = ctx.Pipe()
        self.proc = ctx.Process(target=_serve, args=(child, self.so), daemon=True)
        self.proc.start()
        child.close()
        if not self.conn.poll(self.TIMEOUT):
            self.stop()
            raise lib.Infra("worker for the hypervolume extension did not start")
        ok, msg = self.conn.recv()
        if not ok:
            self.stop()
            raise lib.Infra("cannot load the rebuilt hypervolume extension: %s" % msg)

    def stop(self):
        if self.proc is not None:
            try:
                self.conn.close()
            except OSError:
                pass
            self.proc.terminate()
            self.proc.join(5)
        self.proc = self.conn = None

    def _roundtrip(self, calls):
        if self.proc is None or not self.proc.is_alive():
            self.stop()
            self._start()
        try:
            self.conn.send(calls)
            if not self.conn.poll(self.TIMEOUT):
                self.stop()
                return None, "did not return within %d s" % self.TIMEOUT
            return self.conn.recv(), None
        except (EOFError, OSError):
            self.proc.join(5)
            code = self.proc.exitcode
            self.stop()
            return None, "terminated its process (exit code %s)" % code

    def many(self, calls):
        """[(points, ref), ...] -> [(ok, value or exception), ...]; a crash is attributed to the call that causes it"""
        outs, why = self._roundtrip(calls)
        if outs is not None:
            return outs
        if len(calls) == 1:
            return [(False, ExtensionCrash("the compiled extension %s on points %r, reference %r" % ((why,) + tuple(calls[0]))))]
        return [self.many([c])[0] for c in calls]

    def hypervolume(self, points, ref):
        ok, val = self.many([(points, ref)])[0]
        if ok:
            return val
        raise val


def hv_c():
    """The extension built from the working tree of $DEAP_REPO (once per process), behind a worker process."""
    if "proxy" in _EXT:
        return _EXT["proxy"]
    src = os.path.join(lib.REPO, "deap", "tools", "_hypervolume")
    scratch = tempfile.mkdtemp(prefix="deapverif-")
    _EXT["dir"] = scratch
    atexit.register(_cleanup)
    real = os.path.realpath(scratch)
    for forbidden in ("/repo", "/verif", os.path.realpath(lib.REPO), os.path.realpath(lib.VERIF)):
        if real == forbidden or real.startswith(forbidden + os.sep):
            raise lib.Infra("scratch directory %s lies inside %s" % (real, forbidden))
    inc = sysconfig.get_paths()["include"]
    so = os.path.join(scratch, "hv" + (sysconfig.get_config_var("EXT_SUFFIX") or ".so"))
    cc = shutil.which("gcc") or shutil.which("cc")
    cxx = shutil.which("g++") or shutil.which("c++")
    if cxx is None:
        raise lib.Infra("no C++ compiler to rebuild the hypervolume extension")
    ccmd = [cc, "-O2", "-fPIC"] if cc else [cxx, "-x", "c", "-O2", "-fPIC"]
    # as in /repo/setup.py: Extension("deap.tools._hypervolume.hv", sources=[_hv.c, hv.cpp])
    steps = [ccmd + ["-I", src, "-I", inc, "-c", os.path.join(src, "_hv.c"), "-o", os.path.join(scratch, "_hv.o")],
             [cxx, "-O2", "-fPIC", "-I", src, "-I", inc, "-c", os.path.join(src, "hv.cpp"),
              "-o", os.path.join(scratch, "hvw.o")],
             [cxx, "-shared", os.path.join(scratch, "_hv.o"), os.path.join(scratch, "hvw.o"), "-o", so]]
    for cmd in steps:
        p = subprocess.run(cmd, stdout=subprocess.PIPE, stderr=subprocess.STDOUT, text=True, timeout=600)
        if p.returncode != 0:
            raise lib.Infra("rebuilding the hypervolume extension failed (%s):\n%s" % (" ".join(cmd[:1]), p.stdout[-1500:]))
    px = _ExtProxy(so)
    px._start()
    _EXT["proxy"] = px
    return px


def backend(name):
    return hv_c() if name == "c" else pyhv


# ----------------------------------------------------------------------------------------------
# formatting / exact arithmetic
# ----------------------------------------------------------------------------------------------

def sfr(q):
    q = Fr(q)
    return str(q.numerator) if q.denominator == 1 else "%d/%d" % (q.numerator, q.denominator)


def slist(xs):
    xs = list(xs)
    return ",".join(sfr(x) for x in xs) if xs else "-"


def spts(pts):
    pts = list(pts)
    return ";".join(slist(p) for p in pts) if pts else "-"


def frs(xs):
    return [Fr(x) for x in xs]


def exact_of_float(x):
    x = float(x)
    if x != x or x in (float("inf"), float("-inf")):
        return None
    return Fr(x)


def _lcm(a, b):
    from math import gcd
    return a * b // gcd(a, b)


def scale(pts, ref):
    den = 1
    for q in itertools.chain(ref, *pts):
        den = _lcm(den, Fr(q).denominator)
    P = [[int(Fr(x) * den) for x in p] for p in pts]
    R = [int(Fr(x) * den) for x in ref]
    return P, R, den


def exactness_ok(pts, ref):
    """all products/sums of the sweep algorithms stay below 2^53 in the common denominator"""
    P, R, _ = scale(pts, ref)
    d = len(R)
    if not P:
        return True
    span = max([1] + [R[j] - min(p[j] for p in P) for j in range(d)] + [abs(x) for p in P for x in p] + [abs(x) for x in R])
    return (span ** d) << len(P) < (1 << 62)


def measure(pts, ref):
    """Lebesgue measure of the union of the boxes [p, ref): inclusion-exclusion over all non-empty subsets."""
    P, R, den = scale(pts, ref)
    d, n = len(R), len(P)
    if n == 0:
        return Fr(0)
    if d == 0:
        return Fr(1)
    span = max([1] + [abs(R[j] - p[j]) for p in P for j in range(d)])
    dtype = numpy.int64 if (span ** d) << n < (1 << 62) else object
    Rv = numpy.array(R, dtype=dtype)
    corners = None
    signs = None
    for p in P:
        pv = numpy.array([p], dtype=dtype)
        if corners is None:
            corners, signs = pv, numpy.array([1], dtype=dtype)
        else:
            new = numpy.maximum(corners, pv)
            corners = numpy.concatenate((corners, pv, new))
            signs = numpy.concatenate((signs, numpy.array([1], dtype=dtype), -signs))
    ext = Rv - corners
    ext = numpy.where(ext > 0, ext, 0)
    vol = ext[:, 0]
    for j in range(1, d):
        vol = vol * ext[:, j]
    total = int((signs * vol).sum())
    return Fr(total, den ** d)


def has_tie(pts, ref):
    """two points share a coordinate value in some dimension, or a point lies on the reference boundary
    (shares a coordinate value with the reference point)"""
    d = len(ref)
    for j in range(d):
        col = [Fr(p[j]) for p in pts]
        if len(set(col)) < len(col) or Fr(ref[j]) in col:
            return True
    return False


def call_c_many(ptss, ref):
    """the extension on several point lists (one round trip) -> exact results"""
    Rf = [float(x) for x in ref]
    outs = hv_c().many([([[float(x) for x in p] for p in pts], Rf) for pts in ptss])
    for ok, val in outs:
        if not ok:
            raise val
    return [exact_of_float(v) for _, v in outs]


def call_hv(name, pts, ref):
    """name 'c' | 'py'; pts, ref exact rationals -> exact result (None if not a finite float)"""
    Pf = [[float(x) for x in p] for p in pts]
    Rf = [float(x) for x in ref]
    if name == "c":
        return exact_of_float(hv_c().hypervolume(Pf, Rf))
    with warnings.catch_warnings():
        warnings.simplefilter("ignore")
        # pyhv subtracts the reference from its argument in place: hand it private copies
        return exact_of_float(pyhv.hypervolume(numpy.array(Pf, dtype=float), numpy.array(Rf, dtype=float)))


_classes = {}


def fit_class(weights):
    key = tuple(weights)
    if key not in _classes:
        _classes[key] = type("Fit", (base.Fitness,), {"weights": tuple(float(w) for w in weights)})
    return _classes[key]


class Ind(object):
    def __init__(self, fitness):
        self.fitness = fitness


def population(w, vals):
    F = fit_class(w)
    return [Ind(F(tuple(float(x) for x in v))) for v in vals]


class use_backend(object):
    """Run a wrapper with its module-level `hv` bound to the chosen backend."""

    def __init__(self, module, name):
        self.module, self.name = module, name

    def __enter__(self):
        self.old = self.module.hv
        self.module.hv = backend(self.name)
        self.w = warnings.catch_warnings()
        self.w.__enter__()
        warnings.simplefilter("ignore")

    def __exit__(self, *a):
        self.w.__exit__(*a)
        self.module.hv = self.old


def wobj_exact(w, vals):
    return [[-(Fr(x) * Fr(k)) for x, k in zip(v, w)] for v in vals]


# ----------------------------------------------------------------------------------------------
# evaluate
# ----------------------------------------------------------------------------------------------

class BadCase(Exception):
    """the description is not a valid case of the property's domain (only shrinking can produce one)"""


def evaluate(d):
    k = d["k"]
    try:
        if k in ("hv", "perm"):
            return eval_hv(d)
        if k == "pop":
            return eval_pop(d)
        if k == "ind":
            return eval_ind(d)
    except BadCase as e:
        return Case(d, [], [], None, tag="invalid-description: %s" % e, nontrivial=False)
    raise ValueError(k)


def blame(bad_c, bad_py):
    """oracle message prefix: which implementation deviates"""
    if bad_c and bad_py:
        return "hv.c+pyhv"
    return "hv.c" if bad_c else "pyhv-only"


def eval_hv(d):
    ref, pts = frs(d["ref"]), [frs(p) for p in d["pts"]]
    dim, n = len(ref), len(pts)
    if n == 0 or dim == 0 or any(len(p) != dim for p in pts):
        raise BadCase("malformed case")
    if any(x > r for p in pts for x, r in zip(p, ref)):
        raise BadCase("point beyond the reference")
    if not exactness_ok(pts, ref):
        raise BadCase("coordinates too large for exact binary64 arithmetic")
    want = measure(pts, ref)
    orders = [list(range(n))]
    if d["k"] == "perm":
        orders = [list(o) for o in itertools.permutations(range(n))]
    lines, expect, orc = [], [], None
    py_ok = True
    c_vals = call_c_many([[pts[i] for i in order] for order in orders], ref)
    for oi, order in enumerate(orders):
        q = [pts[i] for i in order]
        gc = c_vals[oi]
        gp = call_hv("py", q, ref)
        bad_c, bad_p = gc != want, gp != want
        if bad_p:
            py_ok = False
        if (bad_c or bad_p) and orc is None:
            orc = "%s: hypervolume of %s w.r.t. %s (order %s) is %s, extension returned %s, pyhv returned %s" % (
                blame(bad_c, bad_p), spts(q), slist(ref), order, sfr(want),
                "non-finite" if gc is None else sfr(gc), "non-finite" if gp is None else sfr(gp))
        elif bad_c and orc is not None and orc.startswith("pyhv-only"):
            orc = "hv.c+pyhv: " + orc + " ; and the extension returned %s for order %s" % (gc, order)
        if oi < 4 or oi == len(orders) - 1:
            line = "C15 hv %s %s" % (slist(ref), spts(q))
            lines.append(line)
            expect.append("non-finite" if gc is None else sfr(gc))
            if not bad_p:                      # a wrong pyhv value is reported by the oracle above
                lines.append(line)
                expect.append(sfr(gp))
    if n <= 4 and dim <= 3:
        # small inputs: the two specification-level definitions answer too (model-internal agreement)
        lines += ["C15 cells %s %s" % (slist(ref), spts(pts)), "C15 ie %s %s" % (slist(ref), spts(pts))]
        expect += [sfr(want), sfr(want)]
    tag = "%s/%s/d=%s/n=%s" % (d["k"], d.get("mode", "-"), dim if dim <= 3 else ("4-5" if dim <= 5 else "6-7"),
                               "1-2" if n <= 2 else ("3-4" if n <= 4 else ("5-8" if n <= 8 else "9-12")))
    return Case(d, lines, expect, orc, tag=tag, nontrivial=(n >= 2 and want > 0))


def eval_pop(d):
    from deap.benchmarks import tools as btools
    w, vals = frs(d["w"]), [frs(v) for v in d["vals"]]
    ref = None if d["ref"] is None else frs(d["ref"])
    name = d["impl"]
    pts = wobj_exact(w, vals)
    r = ref if ref is not None else [max(p[j] for p in pts) + 1 for j in range(len(w))]
    if not exactness_ok(pts, r) or any(x > y for p in pts for x, y in zip(p, r)):
        raise BadCase("outside the exact regime / domain")
    pop = population(w, vals)
    with use_backend(btools, name):
        if ref is None:
            got = btools.hypervolume(pop)
        elif d.get("reflist"):
            got = btools.hypervolume(pop, [float(x) for x in ref])
        else:
            got = btools.hypervolume(pop, numpy.array([float(x) for x in ref]))
    got = exact_of_float(got)
    want = measure(pts, r)
    orc = None
    if got != want:
        orc = "%s: population hypervolume (weights %s, values %s, ref %s) is %s on the weighted objectives, got %s" % (
            "pyhv-only" if name == "py" else "hv.c", slist(w), spts(vals), "default" if ref is None else slist(ref),
            sfr(want), "non-finite" if got is None else sfr(got))
    lines, expect = [], []
    if not (name == "py" and orc is not None):
        lines = ["C15 pop %s %s %s" % (slist(w), spts(vals), "none" if ref is None else slist(ref))]
        expect = ["%s %s" % ("non-finite" if got is None else sfr(got), slist(r))]
    tag = "pop/%s/m=%d/%s" % (name, len(w), "defref" if ref is None else "ref")
    return Case(d, lines, expect, orc, tag=tag, nontrivial=(len(vals) >= 2 and want > 0))


def eval_ind(d):
    indicator = importlib.import_module("deap.tools.indicator")
    w, vals = frs(d["w"]), [frs(v) for v in d["vals"]]
    ref = None if d["ref"] is None else frs(d["ref"])
    name = d["impl"]
    pts = wobj_exact(w, vals)
    n = len(pts)
    r = ref if ref is not None else [max(p[j] for p in pts) + 1 for j in range(len(w))]
    if n < 2 or not exactness_ok(pts, r) or any(x > y for p in pts for x, y in zip(p, r)):
        raise BadCase("outside the exact regime / domain")
    pop = population(w, vals)
    with use_backend(indicator, name):
        if ref is None:
            got = indicator.hypervolume(pop)
        else:
            got = indicator.hypervolume(pop, ref=numpy.array([float(x) for x in ref]))
    idx = int(got)
    total = measure(pts, r)
    loo = [measure(pts[:i] + pts[i + 1:], r) for i in range(n)]
    contrib = [total - x for x in loo]
    orc = None
    if not (0 <= idx < n) or int(got) != got:
        orc = "%s: indicator returned %r, not an index into a population of %d" % ("pyhv-only" if name == "py" else "hv.c", got, n)
    elif contrib[idx] != min(contrib):
        orc = "%s: indicator returned index %d whose removal loses %s, but removing index %d loses only %s (weights %s, values %s, ref %s)" % (
            "pyhv-only" if name == "py" else "hv.c", idx, sfr(contrib[idx]), contrib.index(min(contrib)), sfr(min(contrib)),
            slist(w), spts(vals), "default" if ref is None else slist(ref))
    # the leave-one-out values as the backend computes them (what `contribution(i)` returns)
    if name == "c":
        b_loo = call_c_many([pts[:i] + pts[i + 1:] for i in range(n)], r)
    else:
        b_loo = [call_hv(name, pts[:i] + pts[i + 1:], r) for i in range(n)]
    if orc is None and b_loo != loo:
        i = [a != b for a, b in zip(b_loo, loo)].index(True)
        orc = "%s: hypervolume of the population without individual %d is %s, backend returned %s (weights %s, values %s)" % (
            "pyhv-only" if name == "py" else "hv.c", i, sfr(loo[i]), "non-finite" if b_loo[i] is None else sfr(b_loo[i]),
            slist(w), spts(vals))
    lines, expect = [], []
    if not (name == "py" and orc is not None):
        lines = ["C15 ind %s %s %s" % (slist(w), spts(vals), "none" if ref is None else slist(ref))]
        expect = ["%d %s" % (idx, ",".join("non-finite" if x is None else sfr(x) for x in b_loo))]
    ties = len(set(loo)) < n
    tag = "ind/%s/m=%d/%s%s" % (name, len(w), "defref" if ref is None else "ref", "/tied-contrib" if ties else "")
    return Case(d, lines, expect, orc, tag=tag, nontrivial=(total > 0))


# ----------------------------------------------------------------------------------------------
# generate
# ----------------------------------------------------------------------------------------------

CORPUS = [
    # F7 (DESIGN section 5): pyhv 270 vs 276
    {"k": "hv", "mode": "corpus", "ref": ["4"] * 5, "pts": [["0", "0", "1", "3", "0"], ["1", "2", "0", "3", "2"], ["1", "2", "0", "0", "3"]]},
    # smallest instance found: d = 4, three points, pyhv 42 vs 54
    {"k": "perm", "mode": "corpus", "ref": ["3"] * 4, "pts": [["1", "0", "0", "2"], ["1", "1", "2", "2"], ["1", "0", "0", "0"]]},
    # no two points share a coordinate, but three lie on the reference boundary: pyhv 2240 vs 1920
    {"k": "hv", "mode": "corpus", "ref": ["5"] * 7, "pts": [["3", "3", "0", "4", "4", "5", "3"], ["1", "5", "3", "0", "0", "1", "0"],
                                                         ["0", "1", "2", "3", "1", "4", "1"], ["5", "2", "5", "2", "3", "2", "4"]]},
    {"k": "hv", "mode": "corpus", "ref": ["3", "3", "3", "3"], "pts": [["2", "0", "1", "1"], ["2", "0", "1", "0"], ["2", "0", "1", "1"],
                                                                      ["0", "1", "2", "2"], ["0", "0", "2", "2"], ["1", "0", "2", "1"]]},
    {"k": "hv", "mode": "corpus", "ref": ["2"], "pts": [["1"], ["1"], ["2"], ["0"]]},
    {"k": "ind", "impl": "c", "w": ["-1", "-1"], "vals": [["1", "4"], ["2", "2"], ["4", "1"], ["2", "2"]], "ref": ["5", "5"]},
]


def _dy(rng, lo, hi, den):
    return sfr(Fr(rng.randint(lo * den, hi * den), den))


def random_pointset(rng, thorough):
    """-> (mode, ref, pts) as strings; every point <= ref componentwise, arithmetic exact."""
    dim = rng.choice([1, 2, 2, 3, 3, 3, 4, 4, 4, 5, 5, 6, 7])
    n = rng.choice([1, 2, 3, 3, 4, 4, 5, 6, 7, 8, 10, 12])
    if dim >= 6 and n > 8 and not thorough and rng.random() < 0.6:
        n = rng.randint(2, 8)
    mode = rng.choice(["general", "ties1", "ties2", "ties3", "mid", "dyadic", "negative", "dup", "dominated",
                       "boundary", "axisref", "front"])
    den, off = 1, 0
    if mode == "general":
        cols = [rng.sample(range(n + 2), n) for _ in range(dim)]
        pts = [[Fr(cols[j][i]) for j in range(dim)] for i in range(n)]
        ref = [Fr(n + 2)] * dim
    elif mode == "front":
        # mutually non-dominated points on an anti-chain: sum of coordinates constant
        s = rng.randint(dim, 3 * dim)
        pts = []
        for _ in range(n):
            cuts = sorted(rng.randint(0, s) for _ in range(dim - 1))
            pts.append([Fr(b - a) for a, b in zip([0] + cuts, cuts + [s])])
        ref = [Fr(s + rng.randint(0, 1))] * dim
    else:
        m = {"ties1": 1, "ties2": 2, "ties3": 3, "mid": 8, "dyadic": 4, "negative": 4, "dup": 3, "dominated": 4,
             "boundary": 3, "axisref": 4}[mode]
        if mode == "dyadic":
            den = rng.choice([2, 4])
        if mode == "negative":
            off = -rng.randint(1, 9)
        pts = [[Fr(rng.randint(0, m * den), den) + off for _ in range(dim)] for _ in range(n)]
        if mode == "axisref":
            ref = [Fr(m + rng.randint(0, 2)) + off for _ in range(dim)]
        else:
            ref = [Fr(m + rng.choice([0, 1, 1])) + off] * dim
        if mode == "boundary":
            ref = [Fr(m) + off] * dim
            for _ in range(rng.randint(1, max(1, n // 2))):
                pts[rng.randrange(n)][rng.randrange(dim)] = ref[0]
        if mode == "dup" and n > 1:
            for _ in range(rng.randint(1, max(1, n // 2))):
                pts[rng.randrange(n)] = list(pts[rng.randrange(n)])
        if mode == "dominated" and n > 1:
            for _ in range(rng.randint(1, max(1, n // 2))):
                src = pts[rng.randrange(n)]
                pts[rng.randrange(n)] = [min(x + Fr(rng.randint(0, 2), den), r) for x, r in zip(src, ref)]
    return mode, [sfr(x) for x in ref], [[sfr(x) for x in p] for p in pts]


WEIGHTS = ["1", "-1", "1", "-1", "2", "-2", "1/2", "-1/2", "-4", "3"]


def random_population(rng):
    m = rng.choice([1, 2, 2, 2, 3, 3, 3, 4, 4, 4, 5])
    n = rng.randint(2, 8)
    w = [rng.choice(WEIGHTS) for _ in range(m)]
    style = rng.choice(["ties", "ties", "mid", "dyadic", "front", "dup", "tiny"])
    if style == "tiny":
        # contributions spanning many orders of magnitude: a staircase over a wide integer range with
        # near-coincident steps (contribution ~1 of a total ~1e6) placed BEFORE a true zero contributor
        # (dominated or duplicated point), so that an approximate "no contribution" test picks the wrong index
        m = 2
        w = [rng.choice(["1", "-1"]) for _ in range(m)]
        big = rng.choice([1000, 4000, 30000])
        n = rng.randint(3, 7)
        xs = sorted(rng.sample(range(0, big), n))
        ys = sorted(rng.sample(range(0, big), n), reverse=True)
        pts = [[xs[i], ys[i]] for i in range(n)]
        j = rng.randrange(n)
        if j + 1 < n:
            pts[j] = [pts[j + 1][0] - 1, pts[j + 1][1] + rng.choice([1, 1, 2])]       # tiny contributor
        r = rng.random()
        if r < 0.45:
            k = rng.randrange(n)
            pts.append([pts[k][0] + rng.randint(0, 50), pts[k][1] + rng.randint(0, 50)])   # dominated: zero
        elif r < 0.8:
            pts.append(list(pts[rng.randrange(n)]))                                         # duplicate: zero
        if rng.random() < 0.3:
            rng.shuffle(pts)
        # wobj = -(value*weight): choose values so that the minimised coordinates are pts
        vals = [[Fr(-c) if Fr(w[i]) > 0 else Fr(c) for i, c in enumerate(p)] for p in pts]
        ref = None
        if rng.random() < 0.5:
            ref = [sfr(max(p[i] for p in pts) + rng.choice([1, 1, 2, 100])) for i in range(m)]
        return w, [[sfr(x) for x in v] for v in vals], ref
    if style == "front":
        s = rng.randint(m, 3 * m)
        vals = []
        for _ in range(n):
            cuts = sorted(rng.randint(0, s) for _ in range(m - 1))
            vals.append([Fr(b - a) for a, b in zip([0] + cuts, cuts + [s])])
    else:
        hi, den = {"ties": (2, 1), "mid": (9, 1), "dyadic": (4, 4), "dup": (3, 1)}[style]
        vals = [[Fr(rng.randint(-hi * den, hi * den), den) for _ in range(m)] for _ in range(n)]
        if style == "dup":
            vals[rng.randrange(n)] = list(vals[rng.randrange(n)])
    ref = None
    if rng.random() < 0.5:
        pts = wobj_exact(frs(w), vals)
        ref = [sfr(max(p[j] for p in pts) + rng.choice([0, 1, 1, 2, Fr(1, 2)])) for j in range(m)]
    return w, [[sfr(x) for x in v] for v in vals], ref


def exhaustive(tier, rng):
    thorough = tier == "thorough"
    for dim in (1, 2, 3):
        grid = [list(map(str, p)) for p in itertools.product(range(4), repeat=dim)]
        for n in (1, 2, 3, 4):
            if n == 4 and not thorough:
                continue
            sets = itertools.combinations_with_replacement(grid, n)
            if n == 4 and dim == 3:
                # C(67,4) = 766480 multisets: seeded sample
                sets = (tuple(rng.choice(grid) for _ in range(4)) for _ in range(150000))
            for s in sets:
                if n == 3 and dim == 3 and not thorough and rng.random() >= 0.2:
                    continue
                for r in ("3", "4"):
                    yield {"k": "hv", "mode": "exh-ref%s" % r, "ref": [r] * dim, "pts": [list(p) for p in s]}


def generate(tier, rng, mult):
    thorough = tier == "thorough"
    for c in CORPUS:
        yield c
    # wrappers first (cheap), so that a truncated run still covers them
    npop = (6000 if thorough else 700) * mult
    for _ in range(npop):
        w, vals, ref = random_population(rng)
        for kind in ("pop", "ind"):
            for impl in ("c", "py"):
                dd = {"k": kind, "impl": impl, "w": w, "vals": vals, "ref": ref}
                if kind == "pop" and ref is not None and rng.random() < 0.5:
                    dd["reflist"] = True
                yield dd
    nrand = (30000 if thorough else 4000) * mult
    for i in range(nrand):
        mode, ref, pts = random_pointset(rng, thorough)
        kind = "perm" if (len(pts) <= 5 and (len(pts) <= 4 or rng.random() < 0.3)) else "hv"
        yield {"k": kind, "mode": mode, "ref": ref, "pts": pts}
    # deep stream: the caching / `ignore` logic of both sweeps only works in d >= 4 (C: d >= 5) and errs only on ties
    ndeep = (40000 if thorough else 4500) * mult
    for i in range(ndeep):
        dim = rng.choice([4, 5, 5, 6, 6, 7, 7])
        n = rng.choice([2, 3, 4, 4, 5, 6, 7, 8, 9, 10, 12])
        kk = rng.choice([1, 2, 2, 3, 4])
        off = rng.choice([0, 0, -2, 5])
        pts = [[rng.randint(0, kk) + off for _ in range(dim)] for _ in range(n)]
        top = kk + off + rng.choice([0, 1, 1])
        if rng.random() < 0.3:      # a sparse set of larger, untied values among the ties
            for _ in range(rng.randint(1, n)):
                pts[rng.randrange(n)][rng.randrange(dim)] = off - rng.randint(1, 6)
        kind = "perm" if n <= 4 and rng.random() < 0.5 else "hv"
        yield {"k": kind, "mode": "deep-ties", "ref": [str(top)] * dim, "pts": [[str(x) for x in p] for p in pts]}
    for c in exhaustive(tier, rng):
        yield c


# ----------------------------------------------------------------------------------------------
# shrink / classify
# ----------------------------------------------------------------------------------------------

def shrink(d):
    if d["k"] in ("hv", "perm"):
        pts, ref = d["pts"], d["ref"]
        if d["k"] == "perm":
            yield dict(d, k="hv")
        for i in range(len(pts)):
            if len(pts) > 1:
                yield dict(d, pts=pts[:i] + pts[i + 1:])
        for j in range(len(ref)):
            if len(ref) > 1:
                yield dict(d, ref=ref[:j] + ref[j + 1:], pts=[p[:j] + p[j + 1:] for p in pts])
        for i, p in enumerate(pts):
            for j, x in enumerate(p):
                for y in ("0", "1", ref[j]):
                    if x != y and Fr(y) <= Fr(ref[j]):
                        yield dict(d, pts=pts[:i] + [p[:j] + [y] + p[j + 1:]] + pts[i + 1:])
    else:
        vals, w = d["vals"], d["w"]
        for i in range(len(vals)):
            if len(vals) > 2:
                yield dict(d, vals=vals[:i] + vals[i + 1:])
        for j in range(len(w)):
            if len(w) > 1:
                yield dict(d, w=w[:j] + w[j + 1:], vals=[v[:j] + v[j + 1:] for v in vals],
                           ref=None if d["ref"] is None else d["ref"][:j] + d["ref"][j + 1:])
        for j, x in enumerate(w):
            for y in ("1", "-1"):
                if x != y and Fr(x) * Fr(y) > 0:
                    yield dict(d, w=w[:j] + [y] + w[j + 1:])
        for i, v in enumerate(vals):
            for j, x in enumerate(v):
                for y in ("0", "1"):
                    if x != y:
                        yield dict(d, vals=vals[:i] + [v[:j] + [y] + v[j + 1:]] + vals[i + 1:])


_F7_MARK = None


def f7_construct_present():
    """F7 is the `ignore` marking by area comparison in pyhv.hvRecursive (`if q.area[d] <= q.prev[d].area[d]:
    q.ignore = d`).  Once that construct is gone from the source (the port of the C rule is applied), a wrong pyhv
    value on tied input is no longer the known finding but a violation."""
    global _F7_MARK
    if _F7_MARK is None:
        import re
        try:
            src = open(os.path.join(lib.REPO, "deap", "tools", "_hypervolume", "pyhv.py")).read()
        except OSError:
            src = ""
        _F7_MARK = bool(re.search(r"[aA]rea\[dimIndex\]\s*<=\s*[\w.\[\]]*area\[dimIndex\]", src))
    return _F7_MARK


def classify(desc, msg, known):
    """Known finding F7: the pure-Python fallback is wrong when coordinates are tied (two points share a value in
    some dimension, or a point shares one with the reference point, i.e. lies on the boundary) in dimension >= 4
    (its `ignore` marks are never consulted below that).  Anything else — in particular any deviation of the compiled
    extension, of pyhv on tie-free input or in d <= 3, or of a pyhv that no longer contains the defective construct —
    is a violation."""
    if not msg.startswith("pyhv-only") or not f7_construct_present():
        return None
    try:
        if desc["k"] in ("hv", "perm"):
            pts, ref = [frs(p) for p in desc["pts"]], frs(desc["ref"])
        else:
            pts = wobj_exact(frs(desc["w"]), [frs(v) for v in desc["vals"]])
            ref = frs(desc["ref"]) if desc["ref"] is not None else [max(p[j] for p in pts) + 1 for j in range(len(desc["w"]))]
    except Exception:  # noqa
        return None
    if len(ref) >= 4 and has_tie(pts, ref):
        return KNOWN_ID
    return None
