"""C15 — Hypervolume is the exact dominated volume; the indicator finds the least contributor.

Implementations under test (all from $DEAP_REPO):
  * the compiled extension, REBUILT on every run from deap/tools/_hypervolume/_hv.c + hv.cpp into a
    per-run scratch directory (tempfile.mkdtemp(prefix="deapverif-"), outside /repo and /verif), loaded
    from there with importlib and deleted when the run ends;
  * the pure-Python fallback deap/tools/_hypervolume/pyhv.py;
  * the wrappers deap.benchmarks.tools.hypervolume and deap.tools.indicator.hypervolume, run once with each
    backend (their module-level `hv` is switched for the duration of the call).

Exact regime: every coordinate is a small dyadic rational, chosen so that all products/sums of the
algorithms are exact in binary64; model-vs-implementation is an equality.

Oracle (written from the property text, not from the model): the Lebesgue measure of the union of the boxes
[p, ref) by inclusion–exclusion over all non-empty subsets of the points (exact integer arithmetic); the
indicator's index must minimise hv(all) - hv(all without k).
"""
import atexit
import importlib
import importlib.util
import itertools
import os
import shutil
import subprocess
import sysconfig
import tempfile
import warnings
from fractions import Fraction as Fr

import numpy

import lib
from lib import Case

from deap import base
from deap.tools._hypervolume import pyhv

ANCHORS = [("deap/tools/_hypervolume/_hv.c", []), ("deap/tools/_hypervolume/hv.cpp", []),
           ("deap/tools/_hypervolume/pyhv.py", []), ("deap/tools/indicator.py", ["hypervolume"]),
           ("deap/benchmarks/tools.py", ["hypervolume"])]
LEVEL = "proof"
RULE = ("order of the streams: corpus of 6 fixed regression inputs; call HISTORIES (quick 22, thorough 300 rounds of 7 plots x 2 back-ends): 3..8 calls "
        "in ONE process (forked per history from a pristine template, so a history is judged and replayed on its own) to pyhv / the rebuilt extension directly and through "
        "benchmarks.tools.hypervolume and tools.hypervolume bound to that back-end, which share the reference object (list / int list / tuple / float and int ndarray) and the "
        "point containers (list of lists / of tuples / of row views, tuple, float and int arrays, row-strided, column-sliced, Fortran-ordered and transposed views) and "
        "populations; between the calls these objects are kept, overwritten IN PLACE (slice / item / += assignment; fitness.values reassigned, population list grown or cut) "
        "with a new or an EARLIER value, or replaced by fresh objects of another form carrying an earlier, the same or a new value (old object dropped or kept alive), in one or "
        "two alternating dimensions (1..5), with malformed calls (non-numeric coordinate, reference too long / None, points None / flat / empty / of another dimension) in "
        "between whose outcome is not judged; plots: reference overwritten in place then its earlier value in a fresh object, the same for the container, equal values in fresh "
        "objects, alternating dimensions, malformed-then-valid, wrappers, random walk; EVERY valid call must return the exact measure of what its arguments hold at the time "
        "of the call (indicator: an index of least exact loss), leave the caller's objects unchanged, and is compared with the model by the ops chv / hv / pop / lootol; "
        "exhaustive: every multiset of <=3 points over {0..3}^d, "
        "d<=3, with ref=3^d (boundary points) and ref=4^d (quick: the 3-point multisets in d=3 are a seeded 1/20 sample; "
        "thorough: all of them, plus every 4-point multiset for d<=2 and a seeded sample of 150000 4-point multisets in d=3); "
        "wrappers: populations of 2..8 individuals with 1..5 objectives (mostly 2..4), every min/max mixture and dyadic "
        "weights, with the fitness class varied (base.Fitness, base.ConstrainedFitness feasible / violating, a class whose "
        "comparison operators, dominates and __hash__ raise, an epsilon-dominance subclass: only wvalues may matter), "
        "wide-range 'tiny contributor' fronts, given and default reference, each wrapper with both backends; calling "
        "conventions: pyhv, the extension and both wrappers called with plain lists / tuples, integer arrays (int8/16/32/64), float "
        "arrays, NON-CONTIGUOUS float arrays (transposed, row-strided, column-sliced, Fortran order; built on the callee's side of "
        "the worker pipe), mixed sequence/array arguments, reference all zero or not, always TWICE on the same objects (value exact both times, "
        "answers equal, caller's objects unchanged); float regime: random doubles in 1..6 dimensions (scales 1e-3..1e3, "
        "near-coincident points at relative distance 2e-7..1e-12 and a few ulps) against the exact measure of the doubles' "
        "exact values within 1e-12 relative, indicator index within 1e-12*total of the least exact loss; random exact sets: "
        "1..12 points in 1..7 dimensions in the modes general-position / heavy ties ({0..k}^d, k=1..3) / duplicates / dominated "
        "/ boundary / dyadic / negative / per-axis references / anti-chain fronts, every permutation of the points for <=5 "
        "points; a tie-heavy stream in d=4..7. Added for the compiled routine and the round-5 changes (placed before the calling "
        "conventions): populations whose fitnesses hash alike (weighted values -1.0 / -2.0 twins, duplicates) for the indicator; "
        "7-D (some 6-D) sets of 4..12 points with repeated coordinates for the extension alone (cached slices of hv_recursive; every "
        "4th also through the transcription); small-integer sets with every axis in units of 2^-40..2^100 (objectives of very different "
        "magnitude, arithmetic still exact). Every exact hypervolume case runs the transcribed pyhv sweep against pyhv's value and "
        "internal state AND the transcribed _hv.c (Core/HvC.lean) against the extension's value (and hvSlice). Non-trivial = distinct "
        "case with at least 2 points (individuals) and a positive hypervolume")
EXHAUSTIVE = {"quick": False, "thorough": False}
TIME_BUDGET = {"quick": 55, "thorough": 840}
TRUSTED = ["IEEE-754: the test coordinates are small dyadic rationals chosen so that every product and sum formed by the "
           "sweep algorithms is exact in binary64 (checked per case: range^d * 2^n < 2^62), so the Rat model and the "
           "float implementations compute the same numbers",
           "the C compiler and CPython extension loading (the extension is rebuilt from the working tree on every run)",
           "qsort in setup_cdllist is modelled as a stable sort (glibc: merge sort for arrays of this size; ISO C leaves the order of "
           "equal keys open - the proofs only use that every list is a sorted permutation of the nodes, not how ties are ordered)",
           "numpy.argmax returns the first maximal index (modelled by argmaxFirst)"]
ASSUMPTIONS = ["float regime: the implementations are compared with the exact Rat model evaluated at the doubles' exact values, "
               "tolerance 1e-12 relative (observed error < 1e-15); no claim about overflow/underflow ranges",
               "every point weakly dominates the reference point (coordinates <= reference; equality = boundary points allowed); "
               "all points have the dimension of the reference point; 1..12 points; no NaN/inf",
               "the proof covers the specification hvCells/hvSlice (= Lebesgue measure of the union of boxes in every "
               "dimension), the two wrappers, and the transcription Core/HvSweep.lean of pyhv's algorithm (correct in every "
               "dimension over exact rationals); that pyhv.py executes that transcription is checked by the correspondence run "
               "(value and internal state), float rounding is outside the proof; the C extension (_hv.c, variant 4 with AVL "
               "tree) is transcribed in Core/HvC.lean (AVL library abstracted to the ordered sequence it represents) and proved "
               "correct for EVERY number of objectives (C15.hvC_eq_hvCells: induction over the levels of hv_recursive, general "
               "case with delete(_dom)/reinsert(_dom) and the 3-D base case re-entered with a finite bound[2]); that the extension "
               "executes that transcription is the value correspondence"]
EXPLANATION = ("The ALGORITHM of pyhv (preProcess, hvRecursive with bounds pruning / cached areas and volumes / ignore marking / "
               "remove / reinsert) is transcribed in Core/HvSweep.lean and diffed on every hypervolume case against pyhv's value AND "
               "its observable final state (hvRecursive calls per dimIndex, node order of every dimension list, ignore flags, area "
               "and volume caches, bounds — read by wrapping Node.__init__/hvRecursive in the harness process) and against hvSlice. "
               "Proved: C15.sweep_eq_hvCells — the transcription returns hvCells in EVERY dimension (induction over the levels with "
               "an invariant on the multi-list: lists = static orders restricted to the present nodes, caches below the bounds = "
               "hypervolume of the prefix, ignore marks = domination by an earlier present node), termination with the lists "
               "restored, coordinate symmetry, slab decomposition. Theorems C15.* : hvCells = Lebesgue measure of the union of boxes "
               "(all dimensions), hvSlice = hvCells (discrete Fubini), invariances, 1-D/2-D formulas, indicator_least, population_hv. "
               "The C routine fpli_hv of _hv.c is transcribed in Core/HvC.lean (setup_cdllist, filter, hv_recursive VARIANT 4 incl. the "
               "3-D base case with domr / bound[2]; AVL tree = abstract ordered sequence) and diffed on every hypervolume case against the "
               "rebuilt extension's value; proved: C15.hvC_eq_hvCells / hvC_eq_volume — the transcription returns hvCells (the Lebesgue "
               "measure) for EVERY number of objectives, by induction over the levels of hv_recursive with the level contract "
               "HvC.InvC / PostC (lists = static orders restricted to the present nodes; area/vol caches below bound[i] = hypervolume "
               "of the prefix; ignore marks witnessed by a dominating present node; cached domr below bound[2] = the third coordinate "
               "from which the node is beaten in the 2-D staircase): hvC_dim3_reentry (3-D base case entered with any bound[2]), "
               "hvC_general_step, hvC_levels, hvC_eq_hvCells_dim4, hvC_eq_hvCells_all (also inputs beyond the reference point, which "
               "filter drops), hvC_total (no loop of the transcription runs out of fuel, any input, any dimension); plus hvC_setup_filter, "
               "hvC_le_one_point, hvC_eq_hvCells_partial / hvC_total_partial (1..3 objectives), hvC_base_dim3_fresh; nothing about "
               "the transcription is left open (the AVL library stays abstracted to the ordered sequence it represents). "
               "Both implementations are diffed against hvSlice on exactly representable inputs; an inclusion-exclusion oracle checks "
               "them independently.")

KNOWN_ID = "pyhv-tied-coordinates"

# ----------------------------------------------------------------------------------------------
# the compiled extension, rebuilt per run
# ----------------------------------------------------------------------------------------------
_EXT = {}


class ExtensionCrash(Exception):
    """the compiled extension killed its process (segfault / abort / exit) or did not return"""


def _cleanup():
    px = _EXT.pop("proxy", None)
    if px is not None:
        px.stop()
    hs = _EXT.pop("hist", None)
    if hs is not None:
        hs.stop()
    d = _EXT.pop("dir", None)
    if d:
        shutil.rmtree(d, ignore_errors=True)


def _load_ext(so):
    spec = importlib.util.spec_from_file_location("hv", so)
    mod = importlib.util.module_from_spec(spec)
    spec.loader.exec_module(mod)
    return mod


def _serve(conn, so):
    """worker process: load the freshly built extension from the scratch directory and answer calls"""
    try:
        mod = _load_ext(so)
        if os.path.realpath(mod.__file__) != os.path.realpath(so):
            raise ImportError("extension loaded from %s" % mod.__file__)
        conn.send((True, "ready"))
    except BaseException as e:  # noqa
        conn.send((False, repr(e)))
        return
    while True:
        try:
            req = conn.recv()
        except EOFError:
            return
        if req is None:
            return
        outs = []
        for args in req:
            try:
                if len(args) == 3 and args[0] == "twice":
                    outs.append((True, twice(mod.hypervolume, realize(args[1]), realize(args[2]))))
                else:
                    outs.append((True, mod.hypervolume(*args)))
            except Exception as e:  # noqa
                outs.append((False, e))
        conn.send(outs)


def realize(x):
    """('__view__', kind, base) -> the non-contiguous numpy view it describes (built on the callee's side of the
    process boundary: pickling would silently make it contiguous); anything else is passed through."""
    if isinstance(x, tuple) and len(x) == 3 and isinstance(x[0], str) and x[0] == "__view__":
        kind, base = x[1], x[2]
        if kind == "transposed":
            return base.T
        if kind == "strided":
            return base[::2]
        if kind == "colslice":
            return base[:, ::2]
        if kind == "fortran":
            return numpy.asfortranarray(base)
        raise ValueError(kind)
    return x


def snapshot(x):
    """an independent copy of a call argument, for the 'caller's object is unchanged' clause"""
    if isinstance(x, numpy.ndarray):
        return x.copy()
    if isinstance(x, (list, tuple)):
        return type(x)(snapshot(y) for y in x)
    return x


def same(a, b):
    if isinstance(a, numpy.ndarray) or isinstance(b, numpy.ndarray):
        return isinstance(a, numpy.ndarray) and isinstance(b, numpy.ndarray) and a.dtype == b.dtype \
            and a.shape == b.shape and bool((a == b).all())
    if isinstance(a, (list, tuple)):
        return type(a) is type(b) and len(a) == len(b) and all(same(x, y) for x, y in zip(a, b))
    return type(a) is type(b) and a == b


def twice(fn, points, ref):
    """call fn(points, ref) twice on the SAME objects -> (first, second, arguments unchanged?)"""
    p0, r0 = snapshot(points), snapshot(ref)
    v1 = fn(points, ref)
    v2 = fn(points, ref)
    return (v1, v2, same(points, p0) and same(ref, r0))


class _ExtProxy(object):
    """`hypervolume(points, ref)` of the rebuilt extension, executed in a forked worker process: a crash of the
    C code (segfault, abort, the `exit(EXIT_FAILURE)` in _hv.c) or a hang is reported as a failing case of the
    property instead of killing the check."""

    TIMEOUT = 120

    def __init__(self, so):
        self.so, self.proc, self.conn = so, None, None

    def _start(self):
        import multiprocessing
        ctx = multiprocessing.get_context("fork")
        self.conn, child = ctx.Pipe()
        self.proc = ctx.Process(target=_serve, args=(child, self.so), daemon=True)
        self.proc.start()
        child.close()
        if not self.conn.poll(self.TIMEOUT):
            self.stop()
            raise lib.Infra("worker for the hypervolume extension did not start")
        ok, msg = self.conn.recv()
        if not ok:
            self.stop()
            raise lib.Infra("cannot load the rebuilt hypervolume extension: %s" % msg)

    def stop(self):
        if self.proc is not None:
            try:
                self.conn.close()
            except OSError:
                pass
            self.proc.terminate()
            self.proc.join(5)
        self.proc = self.conn = None

    def _roundtrip(self, calls):
        if self.proc is None or not self.proc.is_alive():
            self.stop()
            self._start()
        try:
            self.conn.send(calls)
            if not self.conn.poll(self.TIMEOUT):
                self.stop()
                return None, "did not return within %d s" % self.TIMEOUT
            return self.conn.recv(), None
        except (EOFError, OSError):
            self.proc.join(5)
            code = self.proc.exitcode
            self.stop()
            return None, "terminated its process (exit code %s)" % code
        except BaseException:          # e.g. the per-case watchdog of lib.safe_evaluate fired while waiting
            self.stop()
            raise

    def many(self, calls):
        """[(points, ref), ...] -> [(ok, value or exception), ...]; a crash is attributed to the call that causes it"""
        outs, why = self._roundtrip(calls)
        if outs is not None:
            return outs
        if len(calls) == 1:
            return [(False, ExtensionCrash("the compiled extension %s on points %r, reference %r" % ((why,) + tuple(calls[0]))))]
        return [self.many([c])[0] for c in calls]

    def hypervolume(self, points, ref):
        ok, val = self.many([(points, ref)])[0]
        if ok:
            return val
        raise val

    def twice(self, points, ref):
        ok, val = self.many([("twice", points, ref)])[0]
        if ok:
            return val
        raise val


def hv_c():
    """The extension built from the working tree of $DEAP_REPO (once per process), behind a worker process."""
    if "proxy" in _EXT:
        return _EXT["proxy"]
    src = os.path.join(lib.REPO, "deap", "tools", "_hypervolume")
    scratch = tempfile.mkdtemp(prefix="deapverif-")
    _EXT["dir"] = scratch
    atexit.register(_cleanup)
    real = os.path.realpath(scratch)
    for forbidden in ("/repo", "/verif", os.path.realpath(lib.REPO), os.path.realpath(lib.VERIF)):
        if real == forbidden or real.startswith(forbidden + os.sep):
            raise lib.Infra("scratch directory %s lies inside %s" % (real, forbidden))
    inc = sysconfig.get_paths()["include"]
    so = os.path.join(scratch, "hv" + (sysconfig.get_config_var("EXT_SUFFIX") or ".so"))
    cc = shutil.which("gcc") or shutil.which("cc")
    cxx = shutil.which("g++") or shutil.which("c++")
    if cxx is None:
        raise lib.Infra("no C++ compiler to rebuild the hypervolume extension")
    ccmd = [cc, "-O2", "-fPIC"] if cc else [cxx, "-x", "c", "-O2", "-fPIC"]
    # as in /repo/setup.py: Extension("deap.tools._hypervolume.hv", sources=[_hv.c, hv.cpp])
    steps = [ccmd + ["-I", src, "-I", inc, "-c", os.path.join(src, "_hv.c"), "-o", os.path.join(scratch, "_hv.o")],
             [cxx, "-O2", "-fPIC", "-I", src, "-I", inc, "-c", os.path.join(src, "hv.cpp"),
              "-o", os.path.join(scratch, "hvw.o")],
             [cxx, "-shared", os.path.join(scratch, "_hv.o"), os.path.join(scratch, "hvw.o"), "-o", so]]
    for cmd in steps:
        p = subprocess.run(cmd, stdout=subprocess.PIPE, stderr=subprocess.STDOUT, text=True, timeout=600)
        if p.returncode != 0:
            raise lib.Infra("rebuilding the hypervolume extension failed (%s):\n%s" % (" ".join(cmd[:1]), p.stdout[-1500:]))
    px = _ExtProxy(so)
    px._start()
    _EXT["proxy"] = px
    return px


def _hist_serve(conn, so):
    """template process of the history stream: forked from the harness before any hypervolume code has run, it loads the
    rebuilt extension and then only FORKS one child per history; the child interprets the history (run_history) with a
    pristine module state of pyhv / the extension / the wrappers, answers and exits.  So a history is judged - and
    replayed, and shrunk - on its own, never on what earlier cases left behind in a long-lived process."""
    import signal
    signal.signal(signal.SIGALRM, signal.SIG_DFL)       # (the harness' per-case watchdog handler is inherited by fork)
    try:
        mod = _load_ext(so)
        if os.path.realpath(mod.__file__) != os.path.realpath(so):
            raise ImportError("extension loaded from %s" % mod.__file__)
        conn.send((True, "ready"))
    except BaseException as e:  # noqa
        conn.send((False, repr(e)))
        return
    while True:
        try:
            req = conn.recv()
        except EOFError:
            return
        if req is None:
            return
        impl, steps = req
        pid = os.fork()
        if pid == 0:
            code = 0
            try:
                signal.alarm(_HistServer.CHILD_LIMIT)           # a hang kills the child (SIGALRM), reported below
                try:
                    out = (True, run_history(steps, mod if impl == "c" else pyhv))
                except Exception as e:  # noqa
                    out = (False, "%s: %s" % (type(e).__name__, e))
                signal.alarm(0)
                conn.send(out)
            except BaseException:  # noqa
                code = 3
            finally:
                os._exit(code)
        _, status = os.waitpid(pid, 0)
        if status != 0:
            if os.WIFSIGNALED(status) and os.WTERMSIG(status) == signal.SIGALRM:
                conn.send((None, "did not return within %d s" % _HistServer.CHILD_LIMIT))
            else:
                conn.send((None, "terminated its process (%s)" % (
                    "signal %d" % os.WTERMSIG(status) if os.WIFSIGNALED(status) else "exit code %d" % os.WEXITSTATUS(status))))


class _HistServer(object):
    CHILD_LIMIT = 12           # two attempts (with / without the malformed calls) fit lib's 30 s per-case watchdog
    TIMEOUT = 60

    def __init__(self, so):
        self.so, self.proc, self.conn = so, None, None

    def _start(self):
        import multiprocessing
        ctx = multiprocessing.get_context("fork")
        self.conn, child = ctx.Pipe()
        self.proc = ctx.Process(target=_hist_serve, args=(child, self.so), daemon=True)
        self.proc.start()
        child.close()
        if not self.conn.poll(self.TIMEOUT):
            self.stop()
            raise lib.Infra("history process did not start")
        ok, msg = self.conn.recv()
        if not ok:
            self.stop()
            raise lib.Infra("history process cannot load the rebuilt hypervolume extension: %s" % msg)

    def stop(self):
        if self.proc is not None:
            try:
                self.conn.close()
            except OSError:
                pass
            self.proc.terminate()
            self.proc.join(5)
        self.proc = self.conn = None

    def run(self, impl, steps):
        """-> (records, None) | (None, why the child died / hung); an exception of the interpreter itself is raised"""
        if self.proc is None or not self.proc.is_alive():
            raise lib.Infra("history process is gone")
        try:
            self.conn.send((impl, steps))
            if not self.conn.poll(self.TIMEOUT):
                raise lib.Infra("history process does not answer")
            ok, val = self.conn.recv()
        except (EOFError, OSError):
            self.stop()
            raise lib.Infra("history process is gone")
        except BaseException:          # e.g. the per-case watchdog of lib.safe_evaluate: the pipe is out of step now
            self.stop()
            raise
        if ok is None:
            return None, val
        if not ok:
            raise RuntimeError("history interpreter: %s" % val)
        return val, None


def hist_server():
    """started on the FIRST evaluate() of the process (see evaluate), i.e. before the harness has run any DEAP code"""
    if "hist" in _EXT and (_EXT["hist"].proc is None or not _EXT["hist"].proc.is_alive()):
        _EXT.pop("hist").stop()              # lost after a hang / watchdog: start a new one
    if "hist" not in _EXT:
        px = hv_c()
        hs = _HistServer(px.so)
        hs._start()
        _EXT["hist"] = hs
    return _EXT["hist"]


def backend(name):
    return hv_c() if name == "c" else pyhv


# ----------------------------------------------------------------------------------------------
# formatting / exact arithmetic
# ----------------------------------------------------------------------------------------------

def sfr(q):
    q = Fr(q)
    return str(q.numerator) if q.denominator == 1 else "%d/%d" % (q.numerator, q.denominator)


def slist(xs):
    xs = list(xs)
    return ",".join(sfr(x) for x in xs) if xs else "-"


def spts(pts):
    pts = list(pts)
    return ";".join(slist(p) for p in pts) if pts else "-"


def frs(xs):
    return [Fr(x) for x in xs]


def exact_of_float(x):
    x = float(x)
    if x != x or x in (float("inf"), float("-inf")):
        return None
    return Fr(x)


def _lcm(a, b):
    from math import gcd
    return a * b // gcd(a, b)


def scale(pts, ref):
    den = 1
    for q in itertools.chain(ref, *pts):
        den = _lcm(den, Fr(q).denominator)
    P = [[int(Fr(x) * den) for x in p] for p in pts]
    R = [int(Fr(x) * den) for x in ref]
    return P, R, den


def exactness_ok(pts, ref):
    """all products/sums of the sweep algorithms stay below 2^53 in the common denominator"""
    P, R, _ = scale(pts, ref)
    d = len(R)
    if not P:
        return True
    span = max([1] + [R[j] - min(p[j] for p in P) for j in range(d)] + [abs(x) for p in P for x in p] + [abs(x) for x in R])
    return (span ** d) << len(P) < (1 << 62)


def measure(pts, ref):
    """Lebesgue measure of the union of the boxes [p, ref): inclusion-exclusion over all non-empty subsets."""
    P, R, den = scale(pts, ref)
    d, n = len(R), len(P)
    if n == 0:
        return Fr(0)
    if d == 0:
        return Fr(1)
    span = max([1] + [abs(R[j] - p[j]) for p in P for j in range(d)])
    dtype = numpy.int64 if (span ** d) << n < (1 << 62) else object
    Rv = numpy.array(R, dtype=dtype)
    corners = None
    signs = None
    for p in P:
        pv = numpy.array([p], dtype=dtype)
        if corners is None:
            corners, signs = pv, numpy.array([1], dtype=dtype)
        else:
            new = numpy.maximum(corners, pv)
            corners = numpy.concatenate((corners, pv, new))
            signs = numpy.concatenate((signs, numpy.array([1], dtype=dtype), -signs))
    ext = Rv - corners
    ext = numpy.where(ext > 0, ext, 0)
    vol = ext[:, 0]
    for j in range(1, d):
        vol = vol * ext[:, j]
    total = int((signs * vol).sum())
    return Fr(total, den ** d)


def has_tie(pts, ref):
    """two points share a coordinate value in some dimension, or a point lies on the reference boundary
    (shares a coordinate value with the reference point)"""
    d = len(ref)
    for j in range(d):
        col = [Fr(p[j]) for p in pts]
        if len(set(col)) < len(col) or Fr(ref[j]) in col:
            return True
    return False


def call_c_many(ptss, ref):
    """the extension on several point lists (one round trip) -> exact results"""
    Rf = [float(x) for x in ref]
    outs = hv_c().many([([[float(x) for x in p] for p in pts], Rf) for pts in ptss])
    for ok, val in outs:
        if not ok:
            raise val
    return [exact_of_float(v) for _, v in outs]


def call_hv(name, pts, ref):
    """name 'c' | 'py'; pts, ref exact rationals -> exact result (None if not a finite float)"""
    Pf = [[float(x) for x in p] for p in pts]
    Rf = [float(x) for x in ref]
    if name == "c":
        return exact_of_float(hv_c().hypervolume(Pf, Rf))
    with warnings.catch_warnings():
        warnings.simplefilter("ignore")
        # pyhv subtracts the reference from its argument in place: hand it private copies
        return exact_of_float(pyhv.hypervolume(numpy.array(Pf, dtype=float), numpy.array(Rf, dtype=float)))


def pyhv_observe(pts, ref):
    """Run pyhv._HyperVolume(ref).compute(points) with the Node constructor and hvRecursive wrapped (in this process,
    nothing in $DEAP_REPO is edited) and return (exact value, canonical text of the observable final state) in the
    format of the driver op `sweep`: calls per dimIndex, node order of every dimension list, ignore flags, area and
    volume caches per node (nodes numbered in creation = input order), bounds."""
    d, n = len(ref), len(pts)
    Pf = numpy.array([[float(x) for x in p] for p in pts], dtype=float)
    Rf = numpy.array([float(x) for x in ref], dtype=float)
    Node, HV = pyhv._MultiList.Node, pyhv._HyperVolume
    created, calls, seen_bounds = [], [0] * d, []
    orig_init, orig_rec = Node.__init__, HV.hvRecursive

    def init(self, numberLists, cargo=None):
        orig_init(self, numberLists, cargo)
        created.append(self)

    def rec(self, dimIndex, length, bounds):
        calls[dimIndex] += 1
        if not seen_bounds:
            seen_bounds.append(bounds)
        return orig_rec(self, dimIndex, length, bounds)

    Node.__init__, HV.hvRecursive = init, rec
    try:
        with warnings.catch_warnings():
            warnings.simplefilter("ignore")
            val = HV(Rf).compute(Pf)
    finally:
        Node.__init__, HV.hvRecursive = orig_init, orig_rec
    if len(created) != n + 1:
        return exact_of_float(val), "unexpected-node-count:%d" % len(created)
    ident = {id(x): i for i, x in enumerate(created)}
    sentinel, nodes = created[0], created[1:]

    def num(x):
        q = exact_of_float(x)
        return "non-finite" if q is None else sfr(q)
    orders = []
    for i in range(d):
        row, a = [], sentinel.next[i]
        while a is not sentinel and len(row) <= n:
            row.append(ident.get(id(a), -1))
            a = a.next[i]
        orders.append(row)

    def l1(xs):
        xs = list(xs)
        return ",".join(xs) if xs else "-"
    bounds = seen_bounds[0] if seen_bounds else []
    text = " ".join([
        l1(str(c) for c in calls),
        ";".join(l1(str(a) for a in row) for row in orders),
        l1(str(x.ignore) for x in nodes),
        ";".join(l1(num(v) for v in x.area) for x in nodes),
        ";".join(l1(num(v) for v in x.volume) for x in nodes),
        l1("-inf" if b <= -1.0e308 else num(b) for b in bounds)])
    return exact_of_float(val), text


_classes = {}


FIT_KINDS = ["plain", "plain", "constrained", "constrained-violating", "wvalues-only", "eps-dominance"]


def _forbidden(name):
    def method(self, *args, **kwargs):
        raise AssertionError("the hypervolume of a population is defined on its weighted objectives alone, but "
                             "Fitness.%s was used" % name)
    return method


def fit_class(weights, kind="plain"):
    """The fitness class of the population.  The statement speaks about the weighted objectives only, so every class
    with the same `wvalues` must give the same answer:
      plain                 base.Fitness
      constrained           base.ConstrainedFitness, feasible (constraint_violation None / all False)
      constrained-violating base.ConstrainedFitness with violated constraints on some individuals
      wvalues-only          a Fitness whose comparison operators, `dominates` and `__hash__` raise
      eps-dominance         a user subclass with a coarser `dominates` (epsilon-dominance)"""
    key = (tuple(weights), kind)
    if key not in _classes:
        ws = {"weights": tuple(float(w) for w in weights)}
        if kind.startswith("constrained"):
            _classes[key] = type("CFit", (base.ConstrainedFitness,), ws)
        elif kind == "wvalues-only":
            body = dict(ws)
            for nm in ("dominates", "__lt__", "__le__", "__gt__", "__ge__", "__eq__", "__ne__", "__hash__"):
                body[nm] = _forbidden(nm)
            _classes[key] = type("WFit", (base.Fitness,), body)
        elif kind == "eps-dominance":
            def dominates(self, other, obj=slice(None)):
                return all(a >= b - 0.5 for a, b in zip(self.wvalues[obj], other.wvalues[obj])) and self.wvalues != other.wvalues
            _classes[key] = type("EFit", (base.Fitness,), dict(ws, dominates=dominates))
        else:
            _classes[key] = type("Fit", (base.Fitness,), ws)
    return _classes[key]


class Ind(object):
    def __init__(self, fitness):
        self.fitness = fitness


def population(w, vals, kind="plain"):
    F = fit_class(w, kind)
    out = []
    for i, v in enumerate(vals):
        f = F(tuple(float(x) for x in v))
        if kind == "constrained":
            f.constraint_violation = None if i % 2 else (False, False)
        elif kind == "constrained-violating":
            f.constraint_violation = (True,) if i % 3 == 0 else (False,)
        out.append(Ind(f))
    return out


class use_backend(object):
    """Run a wrapper with its module-level `hv` bound to the chosen backend."""

    def __init__(self, module, name):
        self.module, self.name = module, name

    def __enter__(self):
        self.old = self.module.hv
        self.module.hv = backend(self.name)
        self.w = warnings.catch_warnings()
        self.w.__enter__()
        warnings.simplefilter("ignore")

    def __exit__(self, *a):
        self.w.__exit__(*a)
        self.module.hv = self.old


def wobj_exact(w, vals):
    return [[-(Fr(x) * Fr(k)) for x, k in zip(v, w)] for v in vals]


# ----------------------------------------------------------------------------------------------
# evaluate
# ----------------------------------------------------------------------------------------------

class BadCase(Exception):
    """the description is not a valid case of the property's domain (only shrinking can produce one)"""


def evaluate(d):
    k = d["k"]
    hist_server()        # forks the (pristine) template process of the history stream before anything else runs
    try:
        if k in ("hv", "perm"):
            return eval_hv(d)
        if k == "pop":
            return eval_pop(d)
        if k == "ind":
            return eval_ind(d)
        if k == "conv":
            return eval_conv(d)
        if k == "hist":
            return eval_hist(d)
        if k in ("fhv", "find"):
            return eval_float(d)
    except BadCase as e:
        return Case(d, [], [], None, tag="invalid-description: %s" % e, nontrivial=False)
    raise ValueError(k)


def blame(bad_c, bad_py):
    """oracle message prefix: which implementation deviates"""
    if bad_c and bad_py:
        return "hv.c+pyhv"
    return "hv.c" if bad_c else "pyhv-only"


def eval_hv(d):
    ref, pts = frs(d["ref"]), [frs(p) for p in d["pts"]]
    dim, n = len(ref), len(pts)
    if n == 0 or dim == 0 or any(len(p) != dim for p in pts):
        raise BadCase("malformed case")
    if any(x > r for p in pts for x, r in zip(p, ref)):
        raise BadCase("point beyond the reference")
    if not exactness_ok(pts, ref):
        raise BadCase("coordinates too large for exact binary64 arithmetic")
    want = measure(pts, ref)
    if d.get("scale"):
        # axis j in units of 2^e_j: every quantity the sweeps form is homogeneous in each axis, so the computation
        # is the small-integer one times a power of two - still exact in binary64 (|e_j| <= 100, d <= 7: no
        # overflow / underflow), and the measure is the unscaled one times 2^(sum e_j)
        ex = [int(e) for e in d["scale"]]
        if len(ex) != dim or any(abs(e) > 100 for e in ex):
            raise BadCase("malformed scale")
        fac = [Fr(2) ** e for e in ex]
        pts = [[x * f for x, f in zip(p, fac)] for p in pts]
        ref = [x * f for x, f in zip(ref, fac)]
        for f in fac:
            want *= f
    c_only = d.get("only") == "c"
    if c_only:
        return eval_hv_c_only(d, pts, ref, want)
    orders = [list(range(n))]
    if d["k"] == "perm":
        orders = [list(o) for o in itertools.permutations(range(n))]
    lines, expect, orc = [], [], None
    py_ok = True
    c_vals = call_c_many([[pts[i] for i in order] for order in orders], ref)
    for oi, order in enumerate(orders):
        q = [pts[i] for i in order]
        gc = c_vals[oi]
        emit = oi < 4 or oi == len(orders) - 1
        if emit:
            gp, state = pyhv_observe(q, ref)
        else:
            gp = call_hv("py", q, ref)
        bad_c, bad_p = gc != want, gp != want
        if bad_p:
            py_ok = False
        if (bad_c or bad_p) and orc is None:
            orc = "%s: hypervolume of %s w.r.t. %s (order %s) is %s, extension returned %s, pyhv returned %s" % (
                blame(bad_c, bad_p), spts(q), slist(ref), order, sfr(want),
                "non-finite" if gc is None else sfr(gc), "non-finite" if gp is None else sfr(gp))
        elif bad_c and orc is not None and orc.startswith("pyhv-only"):
            orc = "hv.c+pyhv: " + orc + " ; and the extension returned %s for order %s" % (gc, order)
        if emit:
            # the transcribed algorithm (Core/HvSweep.lean) against pyhv's run: value and observable final state;
            # its first answer token compares the transcription with hvSlice inside the driver
            lines.append("C15 sweep %s %s" % (slist(ref), spts(q)))
            expect.append("ok %s %s" % ("non-finite" if gp is None else sfr(gp), state))
            # the compiled extension against the transcription of _hv.c (Core/HvC.lean): same value; the first answer
            # token says that the transcription equals hvSlice, so this line also diffs the extension against hvSlice
            # (pyhv's value travels in the sweep line; a wrong pyhv value is reported by the oracle above)
            lines.append("C15 chv %s %s" % (slist(ref), spts(q)))
            expect.append("ok %s" % ("non-finite" if gc is None else sfr(gc)))
    if n <= 4 and dim <= 3:
        # small inputs: the two specification-level definitions answer too (model-internal agreement)
        lines += ["C15 cells %s %s" % (slist(ref), spts(pts)), "C15 ie %s %s" % (slist(ref), spts(pts))]
        expect += [sfr(want), sfr(want)]
    tag = "%s/%s/d=%s/n=%s" % (d["k"], d.get("mode", "-") + ("/scaled" if d.get("scale") else ""), dim if dim <= 3 else ("4-5" if dim <= 5 else "6-7"),
                               "1-2" if n <= 2 else ("3-4" if n <= 4 else ("5-8" if n <= 8 else "9-12")))
    return Case(d, lines, expect, orc, tag=tag, nontrivial=(n >= 2 and want > 0))


def eval_hv_c_only(d, pts, ref, want):
    """the stream for the compiled extension's cached slices (`bound`, `vol`, `area`, `ignore >= dim` in the general
    case of hv_recursive, the re-entered 3-D base case): only reached with several nested general levels, i.e. in
    6-7 dimensions, and only wrong on repeated coordinates.  pyhv is not run here (it has its own streams; in 7-D it
    costs 10x the extension), so many more sets fit the budget.  Clause: the extension returns the measure."""
    dim, n = len(ref), len(pts)
    gc = call_c_many([pts], ref)[0]
    orc = None
    if gc != want:
        orc = "hv.c: hypervolume of %s w.r.t. %s is %s, extension returned %s" % (
            spts(pts), slist(ref), sfr(want), "non-finite" if gc is None else sfr(gc))
    lines, expect = [], []
    if d.get("line", True):
        lines.append("C15 chv %s %s" % (slist(ref), spts(pts)))
        expect.append("ok %s" % ("non-finite" if gc is None else sfr(gc)))
    tag = "hv-c-only/%s/d=%s/n=%s" % (d.get("mode", "-"), dim, "1-4" if n <= 4 else ("5-8" if n <= 8 else "9-12"))
    return Case(d, lines, expect, orc, tag=tag, nontrivial=(n >= 2 and want > 0))


def eval_pop(d):
    from deap.benchmarks import tools as btools
    w, vals = frs(d["w"]), [frs(v) for v in d["vals"]]
    ref = None if d["ref"] is None else frs(d["ref"])
    name = d["impl"]
    pts = wobj_exact(w, vals)
    r = ref if ref is not None else [max(p[j] for p in pts) + 1 for j in range(len(w))]
    if not exactness_ok(pts, r) or any(x > y for p in pts for x, y in zip(p, r)):
        raise BadCase("outside the exact regime / domain")
    pop = population(w, vals, d.get("fit", "plain"))
    with use_backend(btools, name):
        if ref is None:
            got = btools.hypervolume(pop)
        elif d.get("reflist"):
            got = btools.hypervolume(pop, [float(x) for x in ref])
        else:
            got = btools.hypervolume(pop, numpy.array([float(x) for x in ref]))
    got = exact_of_float(got)
    want = measure(pts, r)
    orc = None
    if got != want:
        orc = "%s: population hypervolume (weights %s, values %s, ref %s) is %s on the weighted objectives, got %s" % (
            "pyhv-only" if name == "py" else "hv.c", slist(w), spts(vals), "default" if ref is None else slist(ref),
            sfr(want), "non-finite" if got is None else sfr(got))
    lines, expect = [], []
    if not (name == "py" and orc is not None):
        lines = ["C15 pop %s %s %s" % (slist(w), spts(vals), "none" if ref is None else slist(ref))]
        expect = ["%s %s" % ("non-finite" if got is None else sfr(got), slist(r))]
    tag = "pop/%s/m=%d/%s/%s" % (name, len(w), "defref" if ref is None else "ref", d.get("fit", "plain"))
    return Case(d, lines, expect, orc, tag=tag, nontrivial=(len(vals) >= 2 and want > 0))


def eval_ind(d):
    indicator = importlib.import_module("deap.tools.indicator")
    w, vals = frs(d["w"]), [frs(v) for v in d["vals"]]
    ref = None if d["ref"] is None else frs(d["ref"])
    name = d["impl"]
    pts = wobj_exact(w, vals)
    n = len(pts)
    r = ref if ref is not None else [max(p[j] for p in pts) + 1 for j in range(len(w))]
    if n < 2 or not exactness_ok(pts, r) or any(x > y for p in pts for x, y in zip(p, r)):
        raise BadCase("outside the exact regime / domain")
    pop = population(w, vals, d.get("fit", "plain"))
    with use_backend(indicator, name):
        if ref is None:
            got = indicator.hypervolume(pop)
        else:
            got = indicator.hypervolume(pop, ref=numpy.array([float(x) for x in ref]))
    idx = int(got)
    total = measure(pts, r)
    loo = [measure(pts[:i] + pts[i + 1:], r) for i in range(n)]
    contrib = [total - x for x in loo]
    orc = None
    if not (0 <= idx < n) or int(got) != got:
        orc = "%s: indicator returned %r, not an index into a population of %d" % ("pyhv-only" if name == "py" else "hv.c", got, n)
    elif contrib[idx] != min(contrib):
        orc = "%s: indicator returned index %d whose removal loses %s, but removing index %d loses only %s (weights %s, values %s, ref %s)" % (
            "pyhv-only" if name == "py" else "hv.c", idx, sfr(contrib[idx]), contrib.index(min(contrib)), sfr(min(contrib)),
            slist(w), spts(vals), "default" if ref is None else slist(ref))
    # the leave-one-out values as the backend computes them (what `contribution(i)` returns)
    if name == "c":
        b_loo = call_c_many([pts[:i] + pts[i + 1:] for i in range(n)], r)
    else:
        b_loo = [call_hv(name, pts[:i] + pts[i + 1:], r) for i in range(n)]
    if orc is None and b_loo != loo:
        i = [a != b for a, b in zip(b_loo, loo)].index(True)
        orc = "%s: hypervolume of the population without individual %d is %s, backend returned %s (weights %s, values %s)" % (
            "pyhv-only" if name == "py" else "hv.c", i, sfr(loo[i]), "non-finite" if b_loo[i] is None else sfr(b_loo[i]),
            slist(w), spts(vals))
    lines, expect = [], []
    if not (name == "py" and orc is not None):
        lines = ["C15 ind %s %s %s" % (slist(w), spts(vals), "none" if ref is None else slist(ref))]
        expect = ["%d %s" % (idx, ",".join("non-finite" if x is None else sfr(x) for x in b_loo))]
    ties = len(set(loo)) < n
    tag = "ind/%s/m=%d/%s%s/%s%s" % (name, len(w), "defref" if ref is None else "ref", "/tied-contrib" if ties else "",
                                      d.get("fit", "plain"), "/" + d["style"] if d.get("style") else "")
    return Case(d, lines, expect, orc, tag=tag, nontrivial=(total > 0))


# ----------------------------------------------------------------------------------------------
# calling conventions: sequences, integer arrays, the same array twice (F23)
# ----------------------------------------------------------------------------------------------

FORMS = ["list", "tuple", "intarray", "floatarray", "array-listref", "list-arrayref",
         "int8array", "int16array", "int32array", "transposed", "strided", "colslice", "fortran"]


def shape_args(form, pts, ref):
    """the arguments in the requested Python form (coordinates are integers in this stream)"""
    ip = [[int(x) for x in p] for p in pts]
    ir = [int(x) for x in ref]
    if form == "list":
        return [list(p) for p in ip], list(ir)
    if form == "tuple":
        return tuple(tuple(p) for p in ip), tuple(ir)
    if form == "intarray":
        return numpy.array(ip, dtype=numpy.int64), numpy.array(ir, dtype=numpy.int64)
    if form == "floatarray":
        return numpy.array(ip, dtype=float), numpy.array(ir, dtype=float)
    if form in ("int8array", "int16array", "int32array"):
        dt = {"int8array": numpy.int8, "int16array": numpy.int16, "int32array": numpy.int32}[form]
        if any(abs(x) > 120 for p in ip for x in p) or any(abs(x) > 120 for x in ir):
            raise BadCase("coordinate does not fit the small integer type")
        return numpy.array(ip, dtype=dt), numpy.array(ir, dtype=dt)
    if form in ("transposed", "strided", "colslice", "fortran"):
        # float64 point sets that are NOT C-contiguous: described as a view of a base array, realised by the callee
        a = numpy.array(ip, dtype=float)
        n, dd = a.shape
        if form == "transposed":
            base = numpy.ascontiguousarray(a.T)
        elif form == "strided":
            base = numpy.full((2 * n, dd), -77.0)
            base[::2] = a
        elif form == "colslice":
            base = numpy.full((n, 2 * dd), -77.0)
            base[:, ::2] = a
        else:
            base = a
        return ("__view__", form, base), numpy.array(ir, dtype=float)
    if form == "array-listref":
        return numpy.array(ip, dtype=float), list(ir)
    if form == "list-arrayref":
        return [[float(x) for x in p] for p in ip], numpy.array(ir, dtype=float)
    raise BadCase("unknown form %r" % form)


def eval_conv(d):
    """Every routine called the way a user may call it: plain lists / tuples, integer arrays, and twice on the SAME
    objects.  Clauses: the value is the exact measure (both times), the two answers are equal, the caller's
    objects are unchanged."""
    ref, pts = frs(d["ref"]), [frs(p) for p in d["pts"]]
    form, target = d["form"], d["target"]
    if not pts or any(len(p) != len(ref) for p in pts) or any(x.denominator != 1 for p in pts for x in p) \
            or any(x.denominator != 1 for x in ref) or any(x > r for p in pts for x, r in zip(p, ref)):
        raise BadCase("malformed case")
    if not exactness_ok(pts, ref):
        raise BadCase("coordinates too large for exact binary64 arithmetic")
    lines, expect, orc = [], [], None
    who = {"py": "pyhv-only", "c": "hv.c"}
    if target in ("py", "c"):
        want = measure(pts, ref)
        P, R = shape_args(form, pts, ref)
        if target == "c":
            v1, v2, unchanged = hv_c().twice(P, R)
        else:
            try:
                with warnings.catch_warnings():
                    warnings.simplefilter("ignore")
                    v1, v2, unchanged = twice(pyhv.hypervolume, realize(P), realize(R))
            except lib.Infra:
                raise
            except Exception as e:  # noqa
                tag = "conv/py/-/%s%s/raised" % (form, "/zero-ref" if all(x == 0 for x in ref) else "")
                return Case(d, [], [], "pyhv-only: pyhv.hypervolume raised %s: %s when called with %s arguments (points %s, reference %s); "
                            "the exact hypervolume is %s" % (type(e).__name__, e, form, spts(pts), slist(ref), sfr(want)), tag=tag)
        g1, g2 = exact_of_float(v1), exact_of_float(v2)
        if g1 != want:
            orc = "%s: hypervolume of %s w.r.t. %s passed as %s is %s, got %s" % (who[target], spts(pts), slist(ref), form, sfr(want), v1)
        elif g2 != g1:
            orc = "%s: second call on the same %s arguments (%s w.r.t. %s) returned %s after %s" % (who[target], form, spts(pts), slist(ref), v2, v1)
        elif not unchanged:
            orc = "%s: the caller's %s arguments (%s w.r.t. %s) were modified by the call" % (who[target], form, spts(pts), slist(ref))
        if target == "c":
            # the extension against the transcription of _hv.c (and, through its first token, against hvSlice)
            lines = ["C15 chv %s %s" % (slist(ref), spts(pts))]
            expect = ["ok %s" % ("non-finite" if g1 is None else sfr(g1))]
        elif g1 == want:
            lines = ["C15 hv %s %s" % (slist(ref), spts(pts))]
            expect = ["non-finite" if g1 is None else sfr(g1)]
    else:
        # wrappers: d["w"] are +-1 weights, the points are the negated weighted values; ref given in the requested form
        name = d["impl"]
        w = frs(d["w"])
        vals = [[-(x * k) for x, k in zip(p, w)] for p in pts]          # value = -coordinate/weight, weight = +-1
        module = importlib.import_module("deap.benchmarks.tools") if target == "pop" else importlib.import_module("deap.tools.indicator")
        pop = population(w, vals)
        _, R = shape_args(form if form in ("list", "tuple", "intarray", "floatarray", "int8array", "int16array", "int32array") else "list", pts, ref)
        r0 = snapshot(R)
        wv0 = [ind.fitness.wvalues for ind in pop]
        with use_backend(module, name):
            if target == "pop":
                a1 = module.hypervolume(pop, R)
                a2 = module.hypervolume(pop, R)
            else:
                if len(pts) < 2:
                    raise BadCase("indicator needs two individuals")
                a1 = module.hypervolume(pop, ref=R)
                a2 = module.hypervolume(pop, ref=R)
        blame_ = "pyhv-only" if name == "py" else "hv.c"
        unchanged = same(R, r0) and [ind.fitness.wvalues for ind in pop] == wv0
        if target == "pop":
            want = measure(pts, ref)
            g1, g2 = exact_of_float(a1), exact_of_float(a2)
            if g1 != want:
                orc = "%s: population hypervolume with the reference passed as %s (%s w.r.t. %s) is %s, got %s" % (blame_, form, spts(pts), slist(ref), sfr(want), a1)
            elif g2 != g1:
                orc = "%s: second call on the same population/reference returned %s after %s" % (blame_, a2, a1)
            if not (name == "py" and g1 != want):
                lines = ["C15 pop %s %s %s" % (slist(w), spts(vals), slist(ref))]
                expect = ["%s %s" % ("non-finite" if g1 is None else sfr(g1), slist(ref))]
        else:
            total = measure(pts, ref)
            loss = [total - measure(pts[:i] + pts[i + 1:], ref) for i in range(len(pts))]
            i1, i2 = int(a1), int(a2)
            if not (0 <= i1 < len(pts)) or loss[i1] != min(loss):
                orc = "%s: indicator with the reference passed as %s returned %r, removing it loses %s, the least loss is %s (%s w.r.t. %s)" % (
                    blame_, form, a1, sfr(loss[i1]) if 0 <= i1 < len(pts) else "?", sfr(min(loss)), spts(pts), slist(ref))
            elif i2 != i1:
                orc = "%s: second call of the indicator on the same population/reference returned %r after %r" % (blame_, a2, a1)
            if orc is None or name != "py":
                lines = ["C15 lootol %s %s %d 0" % (slist(ref), spts(pts), i1)]
                expect = ["within"]
        if orc is None and not unchanged:
            orc = "%s: the caller's reference (%s) or the population's fitness values were modified by the call" % (blame_, form)
    zero = all(x == 0 for x in ref)
    tag = "conv/%s/%s/%s%s" % (target, d.get("impl", "-"), form, "/zero-ref" if zero else "")
    return Case(d, lines, expect, orc, tag=tag, nontrivial=len(pts) >= 2)


# ----------------------------------------------------------------------------------------------
# call HISTORIES: 3..8 calls in ONE process that share, and update in place, the reference object and the containers
# ----------------------------------------------------------------------------------------------
# The statement is a for-all over inputs: EVERY call returns the measure of the contents its arguments have at the
# time of the call, whatever was computed before in the same process (module-level state of pyhv / the extension /
# the wrappers, objects of an earlier call kept alive, identities reused).  A history is a list of steps
#   {"op": "ref", "slot": s, "how": "new", "form": F, "val": [...]}       bind slot s to a fresh reference object
#   {"op": "ref", "slot": s, "how": "inplace", "val": [...], "via": V}    overwrite the SAME object (R[:] = / R[j] = / R +=)
#   {"op": "pts", "slot": s, "how": "new" | "inplace", ...}               likewise for a point container
#   {"op": "pop", "slot": s, "how": "new", "w": [...], "vals": [[...]]}   a population; "inplace": fitness.values are reassigned
#   {"op": "call", "fn": "hv", "P": s, "R": s} / {"op": "call", "fn": "pop" | "ind", "Q": s, "R": s | None}
#   {"op": "bad", "kind": K, ...}                                         a malformed call; its outcome is NOT judged
# interpreted by run_history in a process forked for this one history from a pristine template (see _hist_serve).

HIST_RFORMS = ["list", "intlist", "tuple", "ndarray", "intarray"]
HIST_RMUT = ("list", "intlist", "ndarray", "intarray")
HIST_PFORMS = ["lol", "intlol", "lot", "tuple", "ndarray", "intarray", "strided", "colslice", "fortran", "transposed", "loa"]
HIST_PARRAY = ("ndarray", "intarray", "strided", "colslice", "fortran", "transposed")
HIST_PMUT = tuple(f for f in HIST_PFORMS if f != "tuple")
HIST_INT = ("intlist", "intarray", "intlol")
BAD_KINDS = ["str-coord", "ref-long", "ref-none", "pts-none", "flat-pts", "empty-pts", "dim-mismatch", "pop-ref-long"]
HIST_PLOTS = ["ref-revisit", "pts-revisit", "fresh-equal", "alt-dims", "bad-then-valid", "wrappers", "walk"]


def _hf(x):
    return float(Fr(x))


def _hnum(x, integral):
    q = Fr(x)
    return int(q) if integral else float(q)


def hist_make_ref(form, val):
    if form == "list":
        return [_hf(x) for x in val]
    if form == "intlist":
        return [int(Fr(x)) for x in val]
    if form == "tuple":
        return tuple(_hf(x) for x in val)
    if form == "ndarray":
        return numpy.array([_hf(x) for x in val], dtype=float)
    if form == "intarray":
        return numpy.array([int(Fr(x)) for x in val], dtype=numpy.int64)
    raise ValueError(form)


def hist_make_pts(form, val):
    a = [[_hf(x) for x in p] for p in val]
    n, dd = len(a), len(a[0])
    if form == "lol":
        return [list(p) for p in a]
    if form == "intlol":
        return [[int(x) for x in p] for p in a]
    if form == "lot":
        return [tuple(p) for p in a]
    if form == "tuple":
        return tuple(tuple(p) for p in a)
    arr = numpy.array(a, dtype=float)
    if form == "ndarray":
        return arr
    if form == "intarray":
        return arr.astype(numpy.int64)
    if form == "strided":
        base = numpy.full((2 * n, dd), -77.0)
        base[::2] = arr
        return base[::2]
    if form == "colslice":
        base = numpy.full((n, 2 * dd), -77.0)
        base[:, ::2] = arr
        return base[:, ::2]
    if form == "fortran":
        return numpy.asfortranarray(arr)
    if form == "transposed":
        return numpy.ascontiguousarray(arr.T).T
    if form == "loa":
        return list(arr)                      # a list of row VIEWS of one array
    raise ValueError(form)


def hist_write_ref(R, form, val, via):
    """overwrite the caller's reference object in place"""
    new = [_hnum(x, form in HIST_INT) for x in val]
    if via == "iadd" and isinstance(R, numpy.ndarray):
        R += numpy.array(new, dtype=R.dtype) - R
    elif via == "items":
        for j, x in enumerate(new):
            R[j] = x
    else:
        R[:] = new


def hist_write_pts(P, form, val, via):
    """overwrite the caller's point container in place (arrays keep their shape, lists may change their length)"""
    new = [[_hnum(x, form in HIST_INT) for x in p] for p in val]
    if isinstance(P, numpy.ndarray):
        if via == "items":
            for i, row in enumerate(new):
                for j, x in enumerate(row):
                    P[i, j] = x
        elif via == "iadd":
            P += numpy.array(new, dtype=P.dtype) - P
        else:
            P[...] = new
        return
    same_shape = len(P) == len(new) and all(len(r) == len(q) for r, q in zip(P, new))
    if via == "items" and same_shape and form != "lot":
        for i, row in enumerate(new):
            for j, x in enumerate(row):
                P[i][j] = x
    elif form == "loa":
        P[:] = [numpy.array(r, dtype=float) for r in new]
    elif form == "lot":
        P[:] = [tuple(r) for r in new]
    else:
        P[:] = [list(r) for r in new]


def hist_write_pop(pop, w, vals):
    """the population object is kept: fitness values reassigned on the same Fitness objects, list grown / cut in place"""
    F = fit_class(frs(w), "plain")
    for ind, v in zip(pop, vals):
        ind.fitness.values = tuple(_hf(x) for x in v)
    if len(vals) < len(pop):
        del pop[len(vals):]
    for v in vals[len(pop):]:
        pop.append(Ind(F(tuple(_hf(x) for x in v))))


def _hist_call(si, st, env, hvmod, btools, indicator):
    fn = st["fn"]
    rec = {"i": si, "fn": fn}
    R = env["R"][st["R"]][0] if st.get("R") is not None else None
    rec["ref"] = None if R is None else [float(x) for x in R]          # contents AT CALL TIME
    r0 = snapshot(R)
    if fn == "hv":
        P = env["P"][st["P"]][0]
        rec["pts"] = [[float(x) for x in row] for row in P]
        p0 = snapshot(P)
        try:
            rec["val"] = float(hvmod.hypervolume(P, R))
        except Exception as e:  # noqa
            rec["exc"] = "%s: %s" % (type(e).__name__, e)
        rec["unchanged"] = same(P, p0) and same(R, r0)
        return rec
    pop = env["Q"][st["Q"]][0]
    rec["vals"] = [[float(x) for x in ind.fitness.values] for ind in pop]
    wv0 = [tuple(ind.fitness.wvalues) for ind in pop]
    try:
        if fn == "pop":
            rec["val"] = float(btools.hypervolume(pop) if R is None else btools.hypervolume(pop, R))
        else:
            v = indicator.hypervolume(pop) if R is None else indicator.hypervolume(pop, ref=R)
            rec["val"] = int(v)
            rec["integral"] = bool(v == int(v))
    except Exception as e:  # noqa
        rec["exc"] = "%s: %s" % (type(e).__name__, e)
    rec["unchanged"] = same(R, r0) and [tuple(ind.fitness.wvalues) for ind in pop] == wv0
    return rec


def _hist_bad(si, st, env, hvmod, btools, indicator):
    """a malformed call (outside the property's domain): whatever it does is recorded, never judged"""
    kind = st["kind"]
    R = env["R"][st["R"]][0]
    rec = {"i": si, "fn": "bad", "kind": kind}
    try:
        if kind == "pop-ref-long":
            out = btools.hypervolume(env["Q"][st["Q"]][0], [float(x) for x in R] + [1.0])
        else:
            P = env["P"][st["P"]][0]
            pl = [[float(x) for x in row] for row in P]
            if kind == "str-coord":
                a = [list(r) for r in pl]
                a[-1][-1] = "x"
                args = (a, R)
            elif kind == "ref-long":
                args = (P, [float(x) for x in R] + [1.0])
            elif kind == "ref-none":
                args = (P, None)
            elif kind == "pts-none":
                args = (None, R)
            elif kind == "flat-pts":
                args = ([float(x) for x in pl[0]], R)
            elif kind == "empty-pts":
                args = ([], R)
            elif kind == "dim-mismatch":
                args = ([r + [r[-1]] for r in pl], R)
            else:
                raise ValueError(kind)
            out = hvmod.hypervolume(*args)
        rec["val"] = repr(out)
    except Exception as e:  # noqa
        rec["exc"] = "%s: %s" % (type(e).__name__, str(e)[:80])
    return rec


def run_history(steps, hvmod):
    """Interpret a history with `hvmod` (pyhv or the rebuilt extension module) as the backend of the direct calls and of
    both wrappers.  Runs in the process that owns the backend; returns one record per call (plain data only)."""
    btools = importlib.import_module("deap.benchmarks.tools")
    indicator = importlib.import_module("deap.tools.indicator")
    env = {"R": {}, "P": {}, "Q": {}}
    out = []
    old = (btools.hv, indicator.hv)
    btools.hv = indicator.hv = hvmod
    try:
        with warnings.catch_warnings():
            warnings.simplefilter("ignore")
            for si, st in enumerate(steps):
                op = st["op"]
                if op == "ref":
                    if st["how"] == "new":
                        env["R"][st["slot"]] = [hist_make_ref(st["form"], st["val"]), st["form"]]
                    else:
                        obj, form = env["R"][st["slot"]]
                        hist_write_ref(obj, form, st["val"], st.get("via", "slice"))
                elif op == "pts":
                    if st["how"] == "new":
                        env["P"][st["slot"]] = [hist_make_pts(st["form"], st["val"]), st["form"]]
                    else:
                        obj, form = env["P"][st["slot"]]
                        hist_write_pts(obj, form, st["val"], st.get("via", "all"))
                elif op == "pop":
                    if st["how"] == "new":
                        env["Q"][st["slot"]] = [population(frs(st["w"]), [frs(v) for v in st["vals"]]), st["w"]]
                    else:
                        obj, w = env["Q"][st["slot"]]
                        hist_write_pop(obj, w, st["vals"])
                elif op == "call":
                    out.append(_hist_call(si, st, env, hvmod, btools, indicator))
                elif op == "bad":
                    out.append(_hist_bad(si, st, env, hvmod, btools, indicator))
                else:
                    raise ValueError(op)
    finally:
        btools.hv, indicator.hv = old
    return out


def _rect(val, dd=None):
    if not val or not val[0] or any(len(p) != len(val[0]) for p in val) or (dd is not None and len(val[0]) != dd):
        raise BadCase("not a rectangular, non-empty point set")


def hist_simulate(steps):
    """validity of a history + the contents every valid call must see (exact rationals), by step index"""
    R, P, Q, exp, ncalls = {}, {}, {}, {}, 0
    for si, st in enumerate(steps):
        op = st.get("op")
        if op == "ref":
            val = frs(st["val"])
            if st["how"] == "new":
                form = st["form"]
                if form not in HIST_RFORMS:
                    raise BadCase("reference form")
            else:
                if st["slot"] not in R or R[st["slot"]]["form"] not in HIST_RMUT or len(val) != len(R[st["slot"]]["val"]):
                    raise BadCase("in-place update of an unbound / immutable reference")
                form = R[st["slot"]]["form"]
            if not val or (form in HIST_INT and any(x.denominator != 1 for x in val)):
                raise BadCase("reference value")
            R[st["slot"]] = {"form": form, "val": val}
        elif op == "pts":
            val = [frs(p) for p in st["val"]]
            _rect(val)
            if st["how"] == "new":
                form = st["form"]
                if form not in HIST_PFORMS:
                    raise BadCase("container form")
            else:
                if st["slot"] not in P or P[st["slot"]]["form"] not in HIST_PMUT:
                    raise BadCase("in-place update of an unbound / immutable container")
                form, oldv = P[st["slot"]]["form"], P[st["slot"]]["val"]
                if len(val[0]) != len(oldv[0]) or (form in HIST_PARRAY and len(val) != len(oldv)):
                    raise BadCase("in-place update changes the shape")
            if form in HIST_INT and any(x.denominator != 1 for p in val for x in p):
                raise BadCase("integer container")
            P[st["slot"]] = {"form": form, "val": val}
        elif op == "pop":
            vals = [frs(v) for v in st["vals"]]
            if st["how"] == "new":
                w = frs(st["w"])
                if not w or any(x == 0 for x in w):
                    raise BadCase("weights")
            else:
                if st["slot"] not in Q:
                    raise BadCase("unbound population")
                w = Q[st["slot"]]["w"]
            _rect(vals, len(w))
            Q[st["slot"]] = {"w": w, "vals": vals}
        elif op == "call":
            fn = st.get("fn")
            r = None
            if st.get("R") is not None:
                if st["R"] not in R:
                    raise BadCase("unbound reference")
                r = R[st["R"]]["val"]
            if fn == "hv":
                if r is None or st.get("P") not in P:
                    raise BadCase("unbound argument")
                pts, rr, e = P[st["P"]]["val"], r, {"pts": P[st["P"]]["val"], "ref": r}
            elif fn in ("pop", "ind"):
                if st.get("Q") not in Q:
                    raise BadCase("unbound population")
                q = Q[st["Q"]]
                pts = wobj_exact(q["w"], q["vals"])
                rr = r if r is not None else [max(p[j] for p in pts) + 1 for j in range(len(q["w"]))]
                if fn == "ind" and len(pts) < 2:
                    raise BadCase("indicator needs two individuals")
                e = {"w": q["w"], "vals": q["vals"], "ref": r}
            else:
                raise BadCase("call")
            if any(len(p) != len(rr) for p in pts) or any(x > y for p in pts for x, y in zip(p, rr)) or not exactness_ok(pts, rr):
                raise BadCase("call outside the domain / the exact regime")
            exp[si] = e
            ncalls += 1
        elif op == "bad":
            if st.get("kind") not in BAD_KINDS or st.get("R") not in R:
                raise BadCase("malformed-call step")
            if st["kind"] == "pop-ref-long":
                if st.get("Q") not in Q:
                    raise BadCase("malformed-call step")
            elif st.get("P") not in P:
                raise BadCase("malformed-call step")
        else:
            raise BadCase("unknown step")
    if ncalls == 0:
        raise BadCase("history without a call")
    return exp


def hist_text(steps, recs=()):
    """the history as one line of Python-like text; results of the calls made so far are appended"""
    res = dict((r["i"], r) for r in recs)
    out = []
    for si, st in enumerate(steps):
        op = st["op"]
        if op == "ref":
            out.append("R%s = %s(%s)" % (st["slot"], st["form"], slist(frs(st["val"]))) if st["how"] == "new"
                       else "R%s <-in place (%s)- (%s)" % (st["slot"], st.get("via", "slice"), slist(frs(st["val"]))))
        elif op == "pts":
            out.append("P%s = %s(%s)" % (st["slot"], st["form"], spts(frs(p) for p in st["val"])) if st["how"] == "new"
                       else "P%s <-in place (%s)- (%s)" % (st["slot"], st.get("via", "all"), spts(frs(p) for p in st["val"])))
        elif op == "pop":
            out.append("Q%s = population(weights %s, values %s)" % (st["slot"], slist(frs(st["w"])), spts(frs(p) for p in st["vals"]))
                       if st["how"] == "new" else "Q%s: fitness.values <-in place- (%s)" % (st["slot"], spts(frs(p) for p in st["vals"])))
        else:
            if op == "bad":
                t = "malformed call %s(%s, R%s)" % (st["kind"], "Q%s" % st.get("Q") if st["kind"] == "pop-ref-long" else "P%s" % st.get("P"), st["R"])
            elif st["fn"] == "hv":
                t = "hypervolume(P%s, R%s)" % (st["P"], st["R"])
            elif st["fn"] == "pop":
                t = "benchmarks.tools.hypervolume(Q%s%s)" % (st["Q"], "" if st.get("R") is None else ", R%s" % st["R"])
            else:
                t = "tools.hypervolume(Q%s%s)" % (st["Q"], "" if st.get("R") is None else ", ref=R%s" % st["R"])
            r = res.get(si)
            if r is not None:
                t += " -> " + ("raised " + r["exc"] if "exc" in r else str(r.get("val")))
            out.append(t)
    return "; ".join(out)


def eval_hist(d):
    """Clause: every call of a history returns the measure of what its arguments hold at the time of the call (the
    indicator: an index of least loss), and leaves the caller's objects alone; malformed calls in between are not judged."""
    steps, name, plot = d["steps"], d["impl"], d.get("plot", "-")
    if name not in ("py", "c"):
        raise BadCase("backend")
    sim = hist_simulate(steps)
    who = "pyhv-only" if name == "py" else "hv.c"
    tag = "hist/%s/%s" % (name, plot)
    recs, why = hist_server().run(name, steps)
    if recs is None:
        valid = [st for st in steps if st["op"] != "bad"]
        recs2, why2 = hist_server().run(name, valid) if len(valid) < len(steps) else (None, why)
        if recs2 is None:
            return Case(d, [], [], "%s: %s %s during the call history: %s" % (
                who, "the compiled extension" if name == "c" else "pyhv", why2, hist_text(valid)), tag=tag + "/crash")
        # only the malformed calls (outside the property's domain) bring the process down: the valid calls are judged alone
        steps, recs, sim, tag = valid, recs2, hist_simulate(valid), tag + "/crash-on-malformed-call"
    lines, expect, orc, good, bad_before = [], [], None, 0, False
    done = []
    for rec in recs:
        done.append(rec)
        if rec["fn"] == "bad":
            bad_before = True
            continue
        si, fn = rec["i"], rec["fn"]
        ex = sim[si]
        ref = None if rec["ref"] is None else [Fr(x) for x in rec["ref"]]
        if fn == "hv":
            pts = [[Fr(x) for x in p] for p in rec["pts"]]
            seen_ok = pts == ex["pts"] and ref == ex["ref"]
            r, what = ref, "hypervolume of %s w.r.t. %s" % (spts(pts), slist(ref))
        else:
            vals = [[Fr(x) for x in v] for v in rec["vals"]]
            seen_ok = vals == ex["vals"] and ref == ex["ref"]
            w = ex["w"]
            pts = wobj_exact(w, vals)
            r = ref if ref is not None else [max(p[j] for p in pts) + 1 for j in range(len(w))]
            what = "population (weights %s, values %s, ref %s)" % (slist(w), spts(vals), "default" if ref is None else slist(ref))
        if not seen_ok:
            if not bad_before:
                raise AssertionError("history interpreter: call %d sees %r, the description says %r" % (si, rec, ex))
            if any(len(p) != len(r) for p in pts) or any(x > y for p in pts for x, y in zip(p, r)):
                break               # a malformed call left the caller's objects outside the domain: nothing to judge
        total = measure(pts, r)
        here = None
        if "exc" in rec:
            here = "step %d raised %s; the %s is %s" % (si, rec["exc"], what, sfr(total))
        elif fn in ("hv", "pop"):
            got = exact_of_float(rec["val"])
            if got != total:
                here = "step %d: the %s is %s (contents of the arguments at the time of the call), got %s" % (
                    si, what, sfr(total), "non-finite" if got is None else sfr(got))
            if fn == "hv" and name == "c":
                lines.append("C15 chv %s %s" % (slist(r), spts(pts)))
                expect.append("ok %s" % ("non-finite" if got is None else sfr(got)))
            elif fn == "hv" and here is None:
                lines.append("C15 hv %s %s" % (slist(r), spts(pts)))
                expect.append(sfr(got))
            elif fn == "pop" and not (name == "py" and here is not None):
                lines.append("C15 pop %s %s %s" % (slist(w), spts(vals), "none" if ref is None else slist(ref)))
                expect.append("%s %s" % ("non-finite" if got is None else sfr(got), slist(r)))
        else:
            idx, n = rec["val"], len(pts)
            loss = [total - measure(pts[:i] + pts[i + 1:], r) for i in range(n)]
            if not rec.get("integral") or not (0 <= idx < n):
                here = "step %d: the indicator returned %r, not an index into the %s" % (si, idx, what)
            elif loss[idx] != min(loss):
                here = "step %d: the indicator returned index %d whose removal loses %s, removing index %d loses only %s; %s" % (
                    si, idx, sfr(loss[idx]), loss.index(min(loss)), sfr(min(loss)), what)
            if here is None or name != "py":
                lines.append("C15 lootol %s %s %d 0" % (slist(r), spts(pts), idx if isinstance(idx, int) and idx >= 0 else 0))
                expect.append("within")
        if here is None and not rec["unchanged"]:
            here = "step %d modified the caller's objects (%s)" % (si, what)
        if here is not None:
            orc = "%s: call history in one process: %s  ==>  %s" % (who, hist_text(steps[:si + 1], done), here)
            break
        if len(pts) >= 2 and total > 0:
            good += 1
    return Case(d, lines, expect, orc, tag=tag, nontrivial=good >= 2)


# ----------------------------------------------------------------------------------------------
# float regime: random doubles, near-coincident points; exact Rat model on the doubles' exact values
# ----------------------------------------------------------------------------------------------

FTOL = Fr(1, 10 ** 12)


def eval_float(d):
    """d["pts"], d["ref"]: doubles as repr strings.  'fhv': both routines and the population wrapper (weights -1) within
    1e-12 (relative) of the exact measure of the doubles' exact values; 'find': the indicator's index loses at most
    1e-12 * total more than the best index (exact losses)."""
    pf = [[float(x) for x in p] for p in d["pts"]]
    rf = [float(x) for x in d["ref"]]
    if not pf or any(len(p) != len(rf) for p in pf) or any(x > r for p in pf for x, r in zip(p, rf)):
        raise BadCase("malformed case")
    pts, ref = [[Fr(x) for x in p] for p in pf], [Fr(x) for x in rf]
    dim, n = len(rf), len(pf)
    total = measure(pts, ref)
    lines, expect, orc = [], [], None

    def off(v):
        q = exact_of_float(v)
        return q is None or abs(q - total) > FTOL * total

    if d["k"] == "fhv":
        gc = hv_c().hypervolume([list(p) for p in pf], list(rf))
        with warnings.catch_warnings():
            warnings.simplefilter("ignore")
            gp = pyhv.hypervolume(numpy.array(pf, dtype=float), numpy.array(rf, dtype=float))
        from deap.benchmarks import tools as btools
        pop = population([Fr(-1)] * dim, pts)
        with use_backend(btools, d.get("impl", "c")):
            gw = btools.hypervolume(pop, numpy.array(rf, dtype=float))
        bad = [nm for nm, v in (("hv.c", gc), ("pyhv", gp), ("benchmarks.tools.hypervolume", gw)) if off(v)]
        if bad:
            orc = "%s: hypervolume of the doubles %r w.r.t. %r is %r (exact value of the exact inputs), returned: extension %r, pyhv %r, population wrapper %r — off by more than 1e-12 relative" % (
                "+".join(bad), pf, rf, float(total), gc, gp, gw)
        for nm, v in (("c", gc), ("py", gp)):
            q = exact_of_float(v)
            if q is not None:
                lines.append("C15 hvtol %s %s %s %s" % (slist(ref), spts(pts), sfr(q), sfr(FTOL)))
                expect.append("within")
        tag = "fhv/d=%s/n=%s/%s" % (dim if dim <= 3 else "4-6", "1-2" if n <= 2 else ("3-4" if n <= 4 else "5-8"), d.get("mode", "-"))
        return Case(d, lines, expect, orc, tag=tag, nontrivial=(n >= 2 and total > 0))
    # find
    if n < 2:
        raise BadCase("indicator needs two individuals")
    indicator = importlib.import_module("deap.tools.indicator")
    name = d.get("impl", "c")
    pop = population([Fr(-1)] * dim, pts)
    with use_backend(indicator, name):
        got = indicator.hypervolume(pop, ref=numpy.array(rf, dtype=float))
    idx = int(got)
    loss = [total - measure(pts[:i] + pts[i + 1:], ref) for i in range(n)]
    if not (0 <= idx < n):
        orc = "%s: indicator returned %r for %d individuals" % ("pyhv-only" if name == "py" else "hv.c", got, n)
    elif loss[idx] - min(loss) > FTOL * total:
        orc = "%s: indicator returned index %d for the doubles %r w.r.t. %r: removing it loses %r, removing index %d loses only %r (total %r)" % (
            "pyhv-only" if name == "py" else "hv.c", idx, pf, rf, float(loss[idx]), loss.index(min(loss)), float(min(loss)), float(total))
    lines = ["C15 lootol %s %s %d %s" % (slist(ref), spts(pts), idx, sfr(FTOL))]
    expect = ["within"]
    tag = "find/%s/d=%d/%s" % (name, dim, d.get("mode", "-"))
    return Case(d, lines, expect, orc, tag=tag, nontrivial=total > 0)


# ----------------------------------------------------------------------------------------------
# generate
# ----------------------------------------------------------------------------------------------

CORPUS = [
    # F7 (DESIGN section 5): pyhv 270 vs 276
    {"k": "hv", "mode": "corpus", "ref": ["4"] * 5, "pts": [["0", "0", "1", "3", "0"], ["1", "2", "0", "3", "2"], ["1", "2", "0", "0", "3"]]},
    # smallest instance found: d = 4, three points, pyhv 42 vs 54
    {"k": "perm", "mode": "corpus", "ref": ["3"] * 4, "pts": [["1", "0", "0", "2"], ["1", "1", "2", "2"], ["1", "0", "0", "0"]]},
    # no two points share a coordinate, but three lie on the reference boundary: pyhv 2240 vs 1920
    {"k": "hv", "mode": "corpus", "ref": ["5"] * 7, "pts": [["3", "3", "0", "4", "4", "5", "3"], ["1", "5", "3", "0", "0", "1", "0"],
                                                         ["0", "1", "2", "3", "1", "4", "1"], ["5", "2", "5", "2", "3", "2", "4"]]},
    {"k": "hv", "mode": "corpus", "ref": ["3", "3", "3", "3"], "pts": [["2", "0", "1", "1"], ["2", "0", "1", "0"], ["2", "0", "1", "1"],
                                                                      ["0", "1", "2", "2"], ["0", "0", "2", "2"], ["1", "0", "2", "1"]]},
    {"k": "hv", "mode": "corpus", "ref": ["2"], "pts": [["1"], ["1"], ["2"], ["0"]]},
    {"k": "ind", "impl": "c", "w": ["-1", "-1"], "vals": [["1", "4"], ["2", "2"], ["4", "1"], ["2", "2"]], "ref": ["5", "5"]},
]


def _dy(rng, lo, hi, den):
    return sfr(Fr(rng.randint(lo * den, hi * den), den))


def random_pointset(rng, thorough):
    """-> (mode, ref, pts) as strings; every point <= ref componentwise, arithmetic exact."""
    dim = rng.choice([1, 2, 2, 3, 3, 3, 4, 4, 4, 5, 5, 6, 7])
    n = rng.choice([1, 2, 3, 3, 4, 4, 5, 6, 7, 8, 10, 12])
    if dim >= 6 and n > 8 and not thorough and rng.random() < 0.6:
        n = rng.randint(2, 8)
    mode = rng.choice(["general", "ties1", "ties2", "ties3", "mid", "dyadic", "negative", "dup", "dominated",
                       "boundary", "axisref", "front"])
    den, off = 1, 0
    if mode == "general":
        cols = [rng.sample(range(n + 2), n) for _ in range(dim)]
        pts = [[Fr(cols[j][i]) for j in range(dim)] for i in range(n)]
        ref = [Fr(n + 2)] * dim
    elif mode == "front":
        # mutually non-dominated points on an anti-chain: sum of coordinates constant
        s = rng.randint(dim, 3 * dim)
        pts = []
        for _ in range(n):
            cuts = sorted(rng.randint(0, s) for _ in range(dim - 1))
            pts.append([Fr(b - a) for a, b in zip([0] + cuts, cuts + [s])])
        ref = [Fr(s + rng.randint(0, 1))] * dim
    else:
        m = {"ties1": 1, "ties2": 2, "ties3": 3, "mid": 8, "dyadic": 4, "negative": 4, "dup": 3, "dominated": 4,
             "boundary": 3, "axisref": 4}[mode]
        if mode == "dyadic":
            den = rng.choice([2, 4])
        if mode == "negative":
            off = -rng.randint(1, 9)
        pts = [[Fr(rng.randint(0, m * den), den) + off for _ in range(dim)] for _ in range(n)]
        if mode == "axisref":
            ref = [Fr(m + rng.randint(0, 2)) + off for _ in range(dim)]
        else:
            ref = [Fr(m + rng.choice([0, 1, 1])) + off] * dim
        if mode == "boundary":
            ref = [Fr(m) + off] * dim
            for _ in range(rng.randint(1, max(1, n // 2))):
                pts[rng.randrange(n)][rng.randrange(dim)] = ref[0]
        if mode == "dup" and n > 1:
            for _ in range(rng.randint(1, max(1, n // 2))):
                pts[rng.randrange(n)] = list(pts[rng.randrange(n)])
        if mode == "dominated" and n > 1:
            for _ in range(rng.randint(1, max(1, n // 2))):
                src = pts[rng.randrange(n)]
                pts[rng.randrange(n)] = [min(x + Fr(rng.randint(0, 2), den), r) for x, r in zip(src, ref)]
    return mode, [sfr(x) for x in ref], [[sfr(x) for x in p] for p in pts]


WEIGHTS = ["1", "-1", "1", "-1", "2", "-2", "1/2", "-1/2", "-4", "3"]


def random_population(rng):
    m = rng.choice([1, 2, 2, 2, 3, 3, 3, 4, 4, 4, 5])
    n = rng.randint(2, 8)
    w = [rng.choice(WEIGHTS) for _ in range(m)]
    style = rng.choice(["ties", "ties", "mid", "dyadic", "front", "dup", "tiny"])
    if style == "tiny":
        # contributions spanning many orders of magnitude: a staircase over a wide integer range with
        # near-coincident steps (contribution ~1 of a total ~1e6) placed BEFORE a true zero contributor
        # (dominated or duplicated point), so that an approximate "no contribution" test picks the wrong index
        m = 2
        w = [rng.choice(["1", "-1"]) for _ in range(m)]
        big = rng.choice([1000, 4000, 30000])
        n = rng.randint(3, 7)
        xs = sorted(rng.sample(range(0, big), n))
        ys = sorted(rng.sample(range(0, big), n), reverse=True)
        pts = [[xs[i], ys[i]] for i in range(n)]
        j = rng.randrange(n)
        if j + 1 < n:
            pts[j] = [pts[j + 1][0] - 1, pts[j + 1][1] + rng.choice([1, 1, 2])]       # tiny contributor
        r = rng.random()
        if r < 0.45:
            k = rng.randrange(n)
            pts.append([pts[k][0] + rng.randint(0, 50), pts[k][1] + rng.randint(0, 50)])   # dominated: zero
        elif r < 0.8:
            pts.append(list(pts[rng.randrange(n)]))                                         # duplicate: zero
        if rng.random() < 0.3:
            rng.shuffle(pts)
        # wobj = -(value*weight): choose values so that the minimised coordinates are pts
        vals = [[Fr(-c) if Fr(w[i]) > 0 else Fr(c) for i, c in enumerate(p)] for p in pts]
        ref = None
        if rng.random() < 0.5:
            ref = [sfr(max(p[i] for p in pts) + rng.choice([1, 1, 2, 100])) for i in range(m)]
        return w, [[sfr(x) for x in v] for v in vals], ref
    if style == "front":
        s = rng.randint(m, 3 * m)
        vals = []
        for _ in range(n):
            cuts = sorted(rng.randint(0, s) for _ in range(m - 1))
            vals.append([Fr(b - a) for a, b in zip([0] + cuts, cuts + [s])])
    else:
        hi, den = {"ties": (2, 1), "mid": (9, 1), "dyadic": (4, 4), "dup": (3, 1)}[style]
        vals = [[Fr(rng.randint(-hi * den, hi * den), den) for _ in range(m)] for _ in range(n)]
        if style == "dup":
            vals[rng.randrange(n)] = list(vals[rng.randrange(n)])
    ref = None
    if rng.random() < 0.5:
        pts = wobj_exact(frs(w), vals)
        ref = [sfr(max(p[j] for p in pts) + rng.choice([0, 1, 1, 2, Fr(1, 2)])) for j in range(m)]
    return w, [[sfr(x) for x in v] for v in vals], ref


def hash_twin_population(rng):
    """populations whose weighted values are small integers with many -1.0 / -2.0 entries and rows that differ only
    there (CPython: hash(-1.0) == hash(-2.0), so such fitnesses hash alike although they are different points; also
    exact duplicates).  Typically a (dominator, dominated) pair plus a few other individuals, in random order: the
    dominated one is the unique least contributor (loss 0)."""
    m = rng.choice([2, 2, 3, 3, 4])
    n = rng.randint(3, 7)
    w = [rng.choice(["-1", "-1", "1", "-2", "2", "1/2", "-1/2"]) for _ in range(m)]
    ncol = rng.randint(1, min(2, m))
    cols = rng.sample(range(m), ncol)                       # the columns whose (minimised) coordinates are 1 or 2
    hi = rng.choice([3, 5, 6])
    base = []
    while len(base) < max(1, n - rng.randint(1, 2)):
        q = [rng.randint(0, hi) for _ in range(m)]
        for j in cols:
            q[j] = rng.choice([1, 2])
        base.append(q)
    pts = [list(q) for q in base]
    while len(pts) < n:
        q = list(rng.choice(base))
        j = rng.choice(cols)
        q[j] = 3 - q[j]                                     # 1 <-> 2: the twin differs only by -1.0 / -2.0
        pts.insert(rng.randrange(len(pts) + 1), q)
    # wobj = -(value * weight) = pts  =>  value = -pts / weight (exact: weights are +-1, +-2, +-1/2)
    vals = [[-Fr(c) / Fr(w[i]) for i, c in enumerate(q)] for q in pts]
    ref = None
    if rng.random() < 0.5:
        ref = [sfr(max(q[i] for q in pts) + rng.choice([1, 1, 2])) for i in range(m)]
    return w, [[sfr(x) for x in v] for v in vals], ref


def cached_slice_pointset(rng):
    """7-D (some 6-D) point sets with repeated coordinates for the compiled extension (see eval_hv_c_only)"""
    dim = rng.choice([7, 7, 7, 7, 6])
    n = rng.choice([4, 6, 8, 9, 10, 10, 11, 12, 12])
    style = rng.choice(["u3", "u5", "u5", "hi3", "u8", "front", "half"])
    if style == "front":
        sm = rng.randint(dim, 2 * dim)
        pts = []
        for _ in range(n):
            cuts = sorted(rng.randint(0, sm) for _ in range(dim - 1))
            pts.append([b - a for a, b in zip([0] + cuts, cuts + [sm])])
        top = sm + rng.choice([0, 1])
    elif style == "half":
        kk = max(1, n // 2)
        pts = [[rng.randint(0, kk) for _ in range(dim)] for _ in range(n)]
        top = kk + 1
    elif style == "hi3":
        pts = [[rng.choice([0, 1, 2, 3, 3, 3]) for _ in range(dim)] for _ in range(n)]
        top = 4
    else:
        kk = int(style[1:])
        pts = [[rng.randint(0, kk) for _ in range(dim)] for _ in range(n)]
        top = kk + rng.choice([0, 1, 1])
    return "c7-" + style, [str(top)] * dim, [[str(x) for x in q] for q in pts]


SCALES = [-40, -3, 0, 0, 0, 10, 30, 62, 64, 70, 100]


def scaled_pointset(rng):
    """small-integer point sets (ties, duplicates, boundary) whose axes are then expressed in units of 2^e_j,
    e_j in -40..100: objectives of very different magnitudes (1e-12 .. 1e30), all arithmetic still exact"""
    dim = rng.choice([1, 2, 3, 3, 3, 4, 4, 5, 6, 7])
    n = rng.choice([1, 2, 3, 3, 4, 5, 6, 8])
    kk = rng.choice([2, 3, 3, 5, 8])
    if rng.random() < 0.4:
        cols = [rng.sample(range(n + 2), n) for _ in range(dim)]
        pts = [[cols[j][i] for j in range(dim)] for i in range(n)]
        ref = [n + 2] * dim
    else:
        pts = [[rng.randint(0, kk) for _ in range(dim)] for _ in range(n)]
        ref = [kk + rng.choice([0, 1, 1, 2]) for _ in range(dim)]
    if rng.random() < 0.3:
        off = rng.randint(1, 9)                             # negative coordinates / the origin as reference
        pts = [[x - off for x in q] for q in pts]
        ref = [x - off for x in ref]
    exps = [rng.choice(SCALES) for _ in range(dim)]
    return "scaled", [str(x) for x in ref], [[str(x) for x in q] for q in pts], exps


def exhaustive(tier, rng):
    thorough = tier == "thorough"
    for dim in (1, 2, 3):
        grid = [list(map(str, p)) for p in itertools.product(range(4), repeat=dim)]
        for n in (1, 2, 3, 4):
            if n == 4 and not thorough:
                continue
            sets = itertools.combinations_with_replacement(grid, n)
            if n == 4 and dim == 3:
                # C(67,4) = 766480 multisets: seeded sample
                sets = (tuple(rng.choice(grid) for _ in range(4)) for _ in range(150000))
            for s in sets:
                if n == 3 and dim == 3 and not thorough and rng.random() >= 0.05:
                    continue
                for r in ("3", "4"):
                    yield {"k": "hv", "mode": "exh-ref%s" % r, "ref": [r] * dim, "pts": [list(p) for p in s]}


def conv_cases(rng, count):
    """calling conventions: small integer point sets (ties, duplicates, boundary), reference zero (points <= 0) or not"""
    for _ in range(count):
        dim = rng.choice([1, 2, 2, 3, 4, 5])
        n = rng.randint(1, 6)
        kk = rng.choice([2, 3, 9, 40])
        zero = rng.random() < 0.3
        if zero:
            pts = [[-rng.randint(0, kk) for _ in range(dim)] for _ in range(n)]
            ref = [0] * dim
        else:
            off = rng.choice([0, 0, -3])
            pts = [[rng.randint(0, kk) + off for _ in range(dim)] for _ in range(n)]
            ref = [kk + off + rng.choice([0, 1, 2]) for _ in range(dim)]
        if rng.random() < 0.3:      # no ties at all (a permutation per column), still integers
            cols = [rng.sample(range(n + 1), n) for _ in range(dim)]
            pts = [[cols[j][i] - (n + 1 if zero else 0) for j in range(dim)] for i in range(n)]
            ref = [0] * dim if zero else [n + 1] * dim
        base = {"k": "conv", "ref": [str(x) for x in ref], "pts": [[str(x) for x in p] for p in pts]}
        form = rng.choice(FORMS)
        for target in ("py", "c"):
            yield dict(base, form=form, target=target)
        if rng.random() < 0.5:
            w = [rng.choice(["1", "-1"]) for _ in range(dim)]
            form2 = rng.choice(["list", "tuple", "intarray", "floatarray", "int16array"])
            for target in ("pop", "ind"):
                if target == "ind" and n < 2:
                    continue
                yield dict(base, form=form2, target=target, impl=rng.choice(["c", "py"]), w=w)


def float_pointset(rng):
    """random doubles in general position, with near-coincident points (relative distance 1e-7 .. a few ulps)"""
    import math
    dim = rng.choice([1, 2, 2, 3, 3, 4, 5, 6])
    n = rng.choice([1, 2, 3, 3, 4, 5, 6, 8])
    scale = rng.choice([1.0, 1.0, 1.0, 1000.0, 1e-3, 1e-7])
    pts = [[rng.random() * scale for _ in range(dim)] for _ in range(n)]
    mode = rng.choice(["general", "near", "near", "ulp"])
    if mode != "general" and n > 1:
        for _ in range(rng.randint(1, n)):
            src = pts[rng.randrange(n)]
            j = rng.randrange(n)
            if mode == "near":
                eps = rng.choice([2e-7, 1e-7, 1e-9, 1e-12])
                pts[j] = [x * (1 + eps * rng.choice([-1, 1, 3, -2])) for x in src]
            else:
                pts[j] = [math.nextafter(x, rng.choice([0.0, 2 * scale])) if rng.random() < 0.7 else x for x in src]
    if rng.random() < 0.5:
        ref = [max(p[j] for p in pts) * rng.choice([1.0, 1.1, 1.5]) + rng.choice([0.0, 0.1 * scale]) for j in range(dim)]
    else:
        ref = [float(math.ceil(max(p[j] for p in pts) + rng.choice([0, 1]))) for j in range(dim)]
    return mode, [repr(x) for x in ref], [[repr(x) for x in p] for p in pts]


def float_front(rng):
    """a 2..4-objective front with near-ties of the contributions (differences ~1e-7 of the scale)"""
    dim = rng.choice([2, 2, 2, 3, 4])
    n = rng.randint(3, 7)
    if dim == 2:
        xs = sorted(rng.random() for _ in range(n))
        ys = sorted((rng.random() for _ in range(n)), reverse=True)
        pts = [[xs[i], ys[i]] for i in range(n)]
    else:
        pts = [[rng.random() for _ in range(dim)] for _ in range(n)]
    # near-coincident twin: contributes almost nothing
    for _ in range(rng.randint(1, 2)):
        src = pts[rng.randrange(len(pts))]
        eps = rng.choice([2e-7, 1e-7, 3e-8, 1e-9])
        twin = [x + eps * rng.choice([-1, 1, 2, -3]) for x in src]
        pts.insert(rng.randrange(len(pts) + 1), twin)
    ref = [float(int(max(p[j] for p in pts)) + rng.choice([1, 2])) for j in range(dim)]
    mode = "front-near"
    if rng.random() < 0.4:
        # the same front at a tiny scale (total hypervolume 1e-8 .. 1e-28): absolute epsilons become visible
        sc = rng.choice([1e-4, 1e-7])
        pts = [[x * sc for x in p] for p in pts]
        ref = [max(max(p[j] for p in pts) * rng.choice([1.0, 1.25]), r * sc * rng.choice([1.0, 0.5])) for j, r in enumerate(ref)]
        mode = "front-near-tiny"
    return mode, [repr(x) for x in ref], [[repr(x) for x in p] for p in pts]


_HIST_W = {
    # action weights (keep, inplace-new, inplace-old, fresh-old, fresh-same, fresh-new)
    "default": (3, 2, 2, 2, 1, 1),
    "fresh-equal": (1, 1, 1, 1, 7, 1),
}
_HIST_ACTS = ("keep", "inplace-new", "inplace-old", "fresh-old", "fresh-same", "fresh-new")


def history_case(rng, impl, plot):
    """One call history (3..8 valid calls).  Per dimension there are two reference slots, two container slots and one
    population slot; before every call the reference and the container are kept / overwritten in place with a new or an
    EARLIER value / replaced by a fresh object (same slot: the old object is dropped; other slot: it stays alive)
    carrying an earlier, the same or a new value.  All coordinates lie in [off, K+off], all references in
    [K+off, K+off+3], so every container of a dimension is in the domain of every reference of that dimension."""
    dims = [rng.choice([1, 2, 2, 3, 3, 4, 5])]
    if plot == "alt-dims" or rng.random() < 0.25:
        dims.append(rng.choice([x for x in (1, 2, 3, 4, 5) if x != dims[0]]))
    K = rng.choice([2, 3, 4, 8])
    den = rng.choice([1, 1, 1, 2, 4])
    off = rng.choice([0, 0, 0, -K, -3, 5])
    intok = den == 1
    rforms = [f for f in HIST_RFORMS if intok or f not in HIST_INT]
    pforms = [f for f in HIST_PFORMS if intok or f not in HIST_INT]
    steps = []
    S = dict((dim, {"k": k, "R": None, "P": None, "Q": None, "Rs": {}, "Ps": {}, "w": None, "seenR": [], "seenP": [], "seenQ": []})
             for k, dim in enumerate(dims))

    def new_ref(dim):
        if rng.random() < 0.5:
            return [sfr(K + off + rng.randint(0, 3))] * dim
        return [sfr(K + off + rng.randint(0, 3)) for _ in range(dim)]

    def new_pts(dim, n=None, lo=1):
        n = n or rng.randint(lo, 5)
        mode = rng.choice(["rand", "rand", "ties", "dup", "boundary"])
        hi = min(K, 2) if mode == "ties" else K
        pts = [[Fr(rng.randint(0, hi * den), den) + off for _ in range(dim)] for _ in range(n)]
        if mode == "dup" and n > 1:
            pts[rng.randrange(n)] = list(pts[rng.randrange(n)])
        if mode == "boundary":
            pts[rng.randrange(n)][rng.randrange(dim)] = Fr(K + off)
        return [[sfr(x) for x in p] for p in pts]

    def remember(lst, v):
        if v not in lst:
            lst.append(v)

    def pick(plot_):
        return rng.choices(_HIST_ACTS, weights=_HIST_W.get(plot_, _HIST_W["default"]))[0]

    def ref_action(dim, act, forms=None):
        s = S[dim]
        cur = s["R"]
        if cur is None:
            act = "fresh-new"
        elif act.startswith("inplace") and s["Rs"][cur]["form"] not in HIST_RMUT:
            act = "fresh" + act[len("inplace"):]
        if act == "keep":
            return
        curval = None if cur is None else s["Rs"][cur]["val"]
        if act.endswith("-old"):
            cands = [v for v in s["seenR"] if v != curval]
            val = rng.choice(cands) if cands else new_ref(dim)
        elif act.endswith("-same"):
            val = curval
        else:
            val = new_ref(dim)
            for _ in range(5):
                if val != curval:
                    break
                val = new_ref(dim)
        if act.startswith("inplace"):
            steps.append({"op": "ref", "slot": cur, "how": "inplace", "val": val, "via": rng.choice(["slice", "items", "iadd"])})
            s["Rs"][cur]["val"] = val
        else:
            slot = 2 * s["k"] if cur is None else (cur if rng.random() < 0.5 else cur ^ 1)
            form = rng.choice(forms or rforms)
            steps.append({"op": "ref", "slot": slot, "how": "new", "form": form, "val": val})
            s["Rs"][slot] = {"form": form, "val": val}
            s["R"] = slot
        remember(s["seenR"], val)

    def pts_action(dim, act, forms=None):
        s = S[dim]
        cur = s["P"]
        if cur is None:
            act = "fresh-new"
        elif act.startswith("inplace") and s["Ps"][cur]["form"] not in HIST_PMUT:
            act = "fresh" + act[len("inplace"):]
        if act == "keep":
            return
        curval = None if cur is None else s["Ps"][cur]["val"]
        fixed_n = None
        if act.startswith("inplace") and (s["Ps"][cur]["form"] in HIST_PARRAY or rng.random() < 0.5):
            fixed_n = len(curval)
        if act.endswith("-old"):
            cands = [v for v in s["seenP"] if v != curval and (fixed_n is None or len(v) == fixed_n)]
            val = rng.choice(cands) if cands else new_pts(dim, fixed_n)
        elif act.endswith("-same"):
            val = curval
        else:
            val = new_pts(dim, fixed_n)
        if act.startswith("inplace"):
            steps.append({"op": "pts", "slot": cur, "how": "inplace", "val": val, "via": rng.choice(["all", "items", "iadd"])})
            s["Ps"][cur]["val"] = val
        else:
            slot = 2 * s["k"] if cur is None else (cur if rng.random() < 0.5 else cur ^ 1)
            form = rng.choice(forms or pforms)
            steps.append({"op": "pts", "slot": slot, "how": "new", "form": form, "val": val})
            s["Ps"][slot] = {"form": form, "val": val}
            s["P"] = slot
        remember(s["seenP"], val)

    def pop_action(dim, act):
        s = S[dim]
        if s["Q"] is None:
            act = "fresh-new"
        if act == "keep":
            return
        if act.startswith("fresh") or s["w"] is None:
            s["w"] = [rng.choice(["1", "-1", "-1", "2", "-1/2"]) for _ in range(dim)]
        if act.endswith("-old") and s["seenQ"]:
            q = rng.choice(s["seenQ"])
        elif act.endswith("-same") and s["seenQ"]:
            q = s["seenQ"][-1]
        else:
            q = new_pts(dim, lo=2)
        remember(s["seenQ"], q)
        # weighted objective (minimised) = -(value * weight) = q   =>   value = -q / weight
        vals = [[sfr(-Fr(c) / Fr(wj)) for c, wj in zip(p, s["w"])] for p in q]
        if act.startswith("fresh"):
            steps.append({"op": "pop", "slot": s["k"], "how": "new", "w": list(s["w"]), "vals": vals})
            s["Q"] = s["k"]
        else:
            steps.append({"op": "pop", "slot": s["k"], "how": "inplace", "vals": vals})

    def emit_call(dim, fn=None, need_ref=False):
        s = S[dim]
        if fn is None:
            fn = rng.choice(["hv", "pop", "pop", "ind", "ind"] if plot == "wrappers" else ["hv"] * 8 + ["pop", "ind"])
        if fn == "ind" and not 2 <= dim <= 4:
            fn = "pop"
        if s["R"] is None:
            ref_action(dim, "fresh-new")
        if fn == "hv":
            if s["P"] is None:
                pts_action(dim, "fresh-new")
            steps.append({"op": "call", "fn": "hv", "P": s["P"], "R": s["R"]})
        else:
            if s["Q"] is None:
                pop_action(dim, "fresh-new")
            steps.append({"op": "call", "fn": fn, "Q": s["Q"], "R": s["R"] if (need_ref or rng.random() < 0.7) else None})
        return fn

    def emit_bad(dim):
        s = S[dim]
        if s["R"] is None:
            ref_action(dim, "fresh-new")
        kind = rng.choice(BAD_KINDS)
        if kind == "pop-ref-long":
            if s["Q"] is None:
                pop_action(dim, "fresh-new")
            steps.append({"op": "bad", "kind": kind, "Q": s["Q"], "R": s["R"]})
        else:
            if s["P"] is None:
                pts_action(dim, "fresh-new")
            steps.append({"op": "bad", "kind": kind, "P": s["P"], "R": s["R"]})

    ncalls = rng.randint(3, 8)
    made = 0
    first = dims[0]
    if plot == "ref-revisit":
        # a mutable reference is used, overwritten in place, and its EARLIER value comes back in a fresh object
        ref_action(first, "fresh-new", forms=[f for f in rforms if f in HIST_RMUT])
        emit_call(first, fn=rng.choice(["hv", "hv", "hv", "pop", "ind"]), need_ref=True)
        ref_action(first, "inplace-new")
        if rng.random() < 0.6:
            emit_call(first, need_ref=True)
            made += 1
        ref_action(first, "fresh-old")
        emit_call(first, fn=rng.choice(["hv", "hv", "hv", "pop", "ind"]), need_ref=True)
        made += 2
    elif plot == "pts-revisit":
        pts_action(first, "fresh-new", forms=[f for f in pforms if f in HIST_PMUT])
        emit_call(first, fn="hv")
        pts_action(first, "inplace-new")
        if rng.random() < 0.6:
            emit_call(first, fn="hv")
            made += 1
        pts_action(first, "fresh-old")
        emit_call(first, fn="hv")
        made += 2
    while made < ncalls:
        dim = dims[made % len(dims)] if plot == "alt-dims" else rng.choice(dims)
        ref_action(dim, pick(plot))
        pts_action(dim, pick(plot))
        if plot == "wrappers" or rng.random() < 0.2:
            pop_action(dim, pick(plot))
        if rng.random() < (0.6 if plot == "bad-then-valid" else 0.06):
            emit_bad(dim)
        emit_call(dim)
        made += 1
    return {"k": "hist", "impl": impl, "plot": plot, "steps": steps}


def history_cases(rng, rounds):
    """every plot with both backends in every round (what is explored does not depend on the seed)"""
    for _ in range(rounds):
        for plot in HIST_PLOTS:
            for impl in ("py", "c"):
                yield history_case(rng, impl, plot)


def generate(tier, rng, mult):
    thorough = tier == "thorough"
    for c in CORPUS:
        yield c
    # 0. call histories in one process (small stream, carries the clause "every call, whatever was computed before")
    for c in history_cases(rng, (300 if thorough else 22) * mult):
        yield c
    # 1. the exhaustive small domain (the time budget truncates from the end)
    for c in exhaustive(tier, rng):
        yield c
    # 2. the wrappers
    npop = (6000 if thorough else 700) * mult
    for _ in range(npop):
        w, vals, ref = random_population(rng)
        fit = rng.choice(FIT_KINDS)
        for kind in ("pop", "ind"):
            for impl in ("c", "py"):
                dd = {"k": kind, "impl": impl, "w": w, "vals": vals, "ref": ref, "fit": fit}
                if kind == "pop" and ref is not None and rng.random() < 0.5:
                    dd["reflist"] = True
                yield dd
    # 2b. the indicator on populations whose fitnesses hash alike (weighted values -1.0 / -2.0) or are equal
    for _ in range((3000 if thorough else 350) * mult):
        w, vals, ref = hash_twin_population(rng)
        impl = rng.choice(["c", "c", "py"])
        yield {"k": "ind", "impl": impl, "w": w, "vals": vals, "ref": ref, "fit": rng.choice(["plain", "plain", "constrained"]),
               "style": "hash-twins"}
    # 2c. the compiled extension's cached slices: 7-D sets with repeated coordinates, extension only (every 4th
    #     case also runs the transcription Core/HvC.lean)
    for i in range((12000 if thorough else 1000) * mult):
        mode, ref, pts = cached_slice_pointset(rng)
        yield {"k": "hv", "mode": mode, "ref": ref, "pts": pts, "only": "c", "line": i % 4 == 0}
    # 2d. objectives of very different magnitudes: axes in units of 2^-40 .. 2^100
    for _ in range((3000 if thorough else 250) * mult):
        mode, ref, pts, exps = scaled_pointset(rng)
        yield {"k": "hv", "mode": mode, "ref": ref, "pts": pts, "scale": exps}
    # 3. calling conventions (sequences, integer arrays, the same array twice)
    for c in conv_cases(rng, (4000 if thorough else 500) * mult):
        yield c
    # 4. float regime: random doubles / near-coincident points against the exact model of their exact values
    nfl = (8000 if thorough else 800) * mult
    for i in range(nfl):
        mode, ref, pts = float_pointset(rng)
        yield {"k": "fhv", "mode": mode, "ref": ref, "pts": pts, "impl": rng.choice(["c", "py"])}
        if i % 2 == 0:
            mode, ref, pts = float_front(rng) if rng.random() < 0.7 else (mode, ref, pts)
            if len(pts) >= 2:
                for impl in ("c", "py"):
                    yield {"k": "find", "mode": mode, "ref": ref, "pts": pts, "impl": impl}
    # 5. random exact point sets
    nrand = (30000 if thorough else 2600) * mult
    for i in range(nrand):
        mode, ref, pts = random_pointset(rng, thorough)
        kind = "perm" if (len(pts) <= 5 and (len(pts) <= 4 or rng.random() < 0.3)) else "hv"
        yield {"k": kind, "mode": mode, "ref": ref, "pts": pts}
    # 6. deep stream: the caching / `ignore` logic of both sweeps only works in d >= 4 (C: d >= 5) and errs only on ties
    ndeep = (40000 if thorough else 2800) * mult
    for i in range(ndeep):
        dim = rng.choice([4, 5, 5, 6, 6, 7, 7])
        n = rng.choice([2, 3, 4, 4, 5, 6, 7, 8, 9, 10, 12])
        kk = rng.choice([1, 2, 2, 3, 4])
        off = rng.choice([0, 0, -2, 5])
        pts = [[rng.randint(0, kk) + off for _ in range(dim)] for _ in range(n)]
        top = kk + off + rng.choice([0, 1, 1])
        if rng.random() < 0.3:      # a sparse set of larger, untied values among the ties
            for _ in range(rng.randint(1, n)):
                pts[rng.randrange(n)][rng.randrange(dim)] = off - rng.randint(1, 6)
        kind = "perm" if n <= 4 and rng.random() < 0.5 else "hv"
        yield {"k": kind, "mode": "deep-ties", "ref": [str(top)] * dim, "pts": [[str(x) for x in p] for p in pts]}


# ----------------------------------------------------------------------------------------------
# shrink / classify
# ----------------------------------------------------------------------------------------------

def shrink(d):
    if d["k"] == "hist":
        steps = d["steps"]
        for i in range(len(steps) - 1, -1, -1):          # drop a step (invalid histories evaluate to "no failure")
            yield dict(d, steps=steps[:i] + steps[i + 1:])
        for i, st in enumerate(steps):                   # plainer containers
            if st["op"] in ("ref", "pts") and st["how"] == "new":
                plain = "list" if st["op"] == "ref" else "lol"
                if st["form"] != plain:
                    yield dict(d, steps=steps[:i] + [dict(st, form=plain)] + steps[i + 1:])
        return
    if d["k"] in ("conv", "fhv", "find"):
        pts, ref = d["pts"], d["ref"]
        for i in range(len(pts)):
            if len(pts) > (2 if (d["k"] == "find" or d.get("target") == "ind") else 1):
                yield dict(d, pts=pts[:i] + pts[i + 1:])
        for j in range(len(ref)):
            if len(ref) > 1:
                e = dict(d, ref=ref[:j] + ref[j + 1:], pts=[p[:j] + p[j + 1:] for p in pts])
                if "w" in d:
                    e["w"] = d["w"][:j] + d["w"][j + 1:]
                yield e
        return
    if d["k"] in ("hv", "perm"):
        pts, ref = d["pts"], d["ref"]
        if d["k"] == "perm":
            yield dict(d, k="hv")
        if d.get("line") is False:
            yield dict(d, line=True)        # a stored failing input always carries its protocol line
        for i in range(len(pts)):
            if len(pts) > 1:
                yield dict(d, pts=pts[:i] + pts[i + 1:])
        for j in range(len(ref)):
            if len(ref) > 1:
                e = dict(d, ref=ref[:j] + ref[j + 1:], pts=[p[:j] + p[j + 1:] for p in pts])
                if d.get("scale"):
                    e["scale"] = d["scale"][:j] + d["scale"][j + 1:]
                yield e
        if d.get("scale"):
            for j, ej in enumerate(d["scale"]):
                if ej != 0:
                    yield dict(d, scale=d["scale"][:j] + [0] + d["scale"][j + 1:])
        for i, p in enumerate(pts):
            for j, x in enumerate(p):
                for y in ("0", "1", ref[j]):
                    if x != y and Fr(y) <= Fr(ref[j]):
                        yield dict(d, pts=pts[:i] + [p[:j] + [y] + p[j + 1:]] + pts[i + 1:])
    else:
        vals, w = d["vals"], d["w"]
        for i in range(len(vals)):
            if len(vals) > 2:
                yield dict(d, vals=vals[:i] + vals[i + 1:])
        for j in range(len(w)):
            if len(w) > 1:
                yield dict(d, w=w[:j] + w[j + 1:], vals=[v[:j] + v[j + 1:] for v in vals],
                           ref=None if d["ref"] is None else d["ref"][:j] + d["ref"][j + 1:])
        for j, x in enumerate(w):
            for y in ("1", "-1"):
                if x != y and Fr(x) * Fr(y) > 0:
                    yield dict(d, w=w[:j] + [y] + w[j + 1:])
        for i, v in enumerate(vals):
            for j, x in enumerate(v):
                for y in ("0", "1"):
                    if x != y:
                        yield dict(d, vals=vals[:i] + [v[:j] + [y] + v[j + 1:]] + vals[i + 1:])


_F7_MARK = None


def f7_construct_present():
    """F7 is the `ignore` marking by area comparison in pyhv.hvRecursive (`if q.area[d] <= q.prev[d].area[d]:
    q.ignore = d`).  Once that construct is gone from the source (the port of the C rule is applied), a wrong pyhv
    value on tied input is no longer the known finding but a violation."""
    global _F7_MARK
    if _F7_MARK is None:
        import re
        try:
            src = open(os.path.join(lib.REPO, "deap", "tools", "_hypervolume", "pyhv.py")).read()
        except OSError:
            src = ""
        _F7_MARK = bool(re.search(r"[aA]rea\[dimIndex\]\s*<=\s*[\w.\[\]]*area\[dimIndex\]", src))
    return _F7_MARK


def classify(desc, msg, known):
    """Known finding F7: the pure-Python fallback is wrong when coordinates are tied (two points share a value in
    some dimension, or a point shares one with the reference point, i.e. lies on the boundary) in dimension >= 4
    (its `ignore` marks are never consulted below that).  Anything else — in particular any deviation of the compiled
    extension, of pyhv on tie-free input or in d <= 3, or of a pyhv that no longer contains the defective construct —
    is a violation."""
    if not msg.startswith("pyhv-only") or not f7_construct_present() or desc.get("k") == "hist":
        return None
    try:
        if desc["k"] in ("hv", "perm", "conv", "fhv", "find"):
            pts, ref = [frs(p) for p in desc["pts"]], frs(desc["ref"])
        else:
            pts = wobj_exact(frs(desc["w"]), [frs(v) for v in desc["vals"]])
            ref = frs(desc["ref"]) if desc["ref"] is not None else [max(p[j] for p in pts) + 1 for j in range(len(desc["w"]))]
    except Exception:  # noqa
        return None
    if len(ref) >= 4 and has_tie(pts, ref):
        return KNOWN_ID
    return None
