"""C02 — Variation never touches parents and never leaves a stale fitness
(deap/algorithms.py varAnd, varOr).

The real `varAnd` / `varOr` run on real individuals (list, array('d'), numpy.ndarray, gp.PrimitiveTree)
with library operators; `random` is recorded with harness/tape.py and `toolbox.clone/mate/mutate` are
wrapped to record the call trace.  The Lean model replays the recorded decisions (IEEE comparison of the
recorded `random()` doubles with cxpb / cxpb+mutpb) with a scripted operator that reproduces the genomes the
real operators produced, and must arrive at the same offspring oids, identity classes, genomes, fitness
validity, parents and call trace.  The oracle evaluates the property statement on the real objects.

Composed stream (`composed`: protocol ops `andc` / `orc`): the same real run is replayed by the COMPOSED model — model
varAnd / varOr with the model operators of Core/VariationOps.lean (C09 / C10 operator models lifted to heap transformers,
gp.staticLimit as a heap-level wrapper); the decision draws and the operators' own draws are both replayed from the
tape, the operators compute the offspring genomes themselves, and genomes (real gene values), fitness validity, object
names (input / j-th clone / allocated by an operator), parents and the call log must agree."""
import array
import copy
import random

import numpy

from lib import Case, fbits
import tape as tapemod
from deap import algorithms, base, creator, gp, tools

ANCHORS = [("deap/algorithms.py", ["varAnd", "varOr"]),
           ("deap/base.py", ["Toolbox", "Fitness.__deepcopy__", "Fitness.delValues", "Fitness.valid"]),
           ("deap/creator.py", []),
           ("deap/gp.py", ["PrimitiveTree.__deepcopy__"]),
           ("deap/tools/support.py", ["History"])]
LEVEL = "proof"
RULE = ("histories: 1-4 generations of varAnd/varOr with operators decorated by one tools.History() (every representation x mate / mutate / both decorated x "
        "1,2,3 generations x with / without individuals carrying an index of another history; functional and staticLimit wrappers; getGenealogy queries with and "
        "without depth bound); call histories on ONE class whose genes change structure (flat / nested lists / mixed / empty nested, 8 fixed orders x 2 crossovers "
        "+ random), one toolbox reused; fitness with INTEGER weights and exact integer objectives beyond 2**53 (every representation x varAnd, varOr x probabilities "
        "leaving clones untouched); functional operators: every representation x all 8 combinations of returned-object identity x mutation in place / on a copy x varAnd, varOr; "
        "structured: every representation x every (mate, mutate) pair x (cxpb, mutpb) in the extremes "
        "{(0,0),(1,0),(0,1),(1,1),(1/2,1/2)} x population sizes 0..4 for varAnd and varOr; random: sizes 0..8 "
        "(distinct / repeated / one object repeated; evaluated / unevaluated / mixed; duplicate genomes; bystander "
        "objects; extra mutable attributes), cxpb, mutpb in {0, 1, dyadics, 0.1-style decimals} with boundary draws "
        "forced onto cxpb, cxpb+mutpb, 0 and 1-2^-53, lambda 0..10; every structured pair whose operators have a model is also replayed end to end "
        "through the composed model (plain and decorated with gp.staticLimit on len / sum / height), as is about a third of the random cases. Non-trivial = distinct case that returns at least one offspring")
EXHAUSTIVE = {"quick": False, "thorough": False}
TIME_BUDGET = {"quick": 60, "thorough": 900}
TRUSTED = ["library operators: OpContract is PROVED for every operator model of C09/C10/C11 lifted in place and for gp.staticLimit around them "
           "(C02.library_ops_meet_contract); that those models compute what deap.tools / deap.gp compute is the correspondence of C09/C10/C11 and of "
           "the composed stream (model varAnd/varOr with the model operators, decision and operator tapes replayed, genomes compared)",
           "other registered operators (user wrappers): operator contract — a registered mate/mutate returns its arguments or objects it created itself and "
           "writes no other object (checked on every recorded call: identity of the returned objects, snapshots of all other known "
           "objects); copy-and-return wrappers with every combination of returned-object identity, swapped-return wrappers and operators that assign the "
           "fitness of what they produce (memetic / local-search) are all exercised",
           "toolbox.clone = copy.deepcopy produces an object with equal genome and fitness (checked by the oracle on "
           "every untouched offspring; C16 covers creator classes)",
           "IEEE-754 `<` and `+` of Lean `Float` equal CPython's (the recorded random() doubles are compared again)",
           "translator tie: the rendering rules in the docstring of harness/py2lean_c02.py (toolbox-loop sub-language: toolbox.clone/mate/mutate as the "
           "model's parameters, random.random/sample(.,2)/choice as reads of the draw tape, del .fitness.values, the three for-loop shapes in "
           "state-passing style) and its prelude lean/DeapModel/Core/GenPreludeC02.lean; the parameter types assumed in harness/props/c02_translate.py "
           "(population = list of individuals, cxpb/mutpb = float, lambda_ = non-negative count).  deap/algorithms.py varAnd and varOr are regenerated "
           "from $DEAP_REPO's current source on every run and kernel-checked equal to Core/Variation.lean composed with decodeAnd / decodeOr "
           "(lean/DeapModel/GenEq/C02.lean.tmpl: Gen.varAnd_eq_canon/_eq_model, Gen.varOr_eq_canon/_eq_model; lemmas Lemmas/C02Gen.lean)"]
ASSUMPTIONS = ["population of size >= 2 whenever varOr can take the crossover branch (cxpb > 0) and size >= 1 whenever "
               "lambda > 0: random.sample / random.choice raise otherwise, before any offspring exists",
               "nodes of a gp.PrimitiveTree (Primitive / Terminal objects of the primitive set) are immutable symbols: "
               "deepcopy of a tree shares them by design, they are not counted as mutable state"]
EXPLANATION = ("tools.History (Core/History.lean) is part of the model: a History-decorated operator pair meets OpContract "
               "(C02.history_decorator_meets_contract), so every clause holds with it (C02.varAnd_history_ops / varOr_history_ops); what update / getGenealogy "
               "build is proved (history_entries_fresh, history_index_monotone, genealogy_tree_parents, getGenealogy_*) and replayed on real multi-generation "
               "histories (protocol op `hist`). Theorems C02.* hold for every population (repeats included), every decision tape and every operator pair "
               "meeting OpContract; C02.library_ops_meet_contract proves OpContract for every library operator model (C09, "
               "C10, C11 operators lifted in place, gp.staticLimit as a wrapper), so C02.varAnd_library_ops / varOr_library_ops "
               "carry no operator hypothesis. The correspondence ties Core/Variation.lean to deap.algorithms.varAnd/varOr by "
               "replaying recorded runs (oids, call trace, genomes, fitness validity, parents), once with scripted operators "
               "(every representation and wrapper) and once end to end through the composed model (list / permutation / "
               "float / ES individuals with the C09 and C10 operators, plain or decorated with gp.staticLimit).")

def translate(repo):
    """translator tie (lib._translated_obligations): Lean definitions of varAnd / varOr regenerated from `repo`'s current
    deap/algorithms.py (harness/py2lean_c02.py) + the committed theorems `Gen.<f>` = model of lean/DeapModel/GenEq/C02.lean.tmpl"""
    import json
    import os
    import lib
    from props import c02_translate
    tr = c02_translate.translate(repo)
    try:
        os.makedirs(os.path.join(lib.OUT, "evidence"), exist_ok=True)
        with open(os.path.join(lib.OUT, "evidence", "C02.translated.json"), "w") as fh:
            json.dump({"definitions": len(tr["definitions"]), "theorems": len(tr["theorems"]), "refused": len(tr["refused"]),
                       "problems": tr["problems"],
                       "functions": [dict(file=f, name=n, status=st, detail=d) for f, n, st, d in tr["table"]],
                       "theorem_names": tr["theorems"]}, fh, indent=1)
            fh.write("\n")
    except OSError:
        pass
    return tr


REPS = ["list", "array", "numpy", "tree", "es", "perm"]
OPS = {
    "list": (["cxOnePoint", "cxTwoPoint", "cxUniform", "cxMessyOnePoint"],
             ["mutFlipBit", "mutShuffleIndexes", "mutUniformInt", "mutInversion"]),
    "array": (["cxOnePoint", "cxTwoPoint", "cxBlend", "cxUniform", "cxMessyOnePoint", "cxSimulatedBinary",
               "cxSimulatedBinaryBounded"], ["mutGaussian", "mutShuffleIndexes", "mutPolynomialBounded", "mutInversion"]),
    "numpy": (["cxTwoPointCopy", "cxUniform", "cxBlend", "cxSimulatedBinary", "cxSimulatedBinaryBounded"],
              ["mutGaussian", "mutFlipBit", "mutShuffleIndexes", "mutPolynomialBounded"]),
    "perm": (["cxPartialyMatched", "cxUniformPartialyMatched", "cxOrdered"], ["mutShuffleIndexes", "mutInversion"]),
    "es": (["cxESBlend", "cxESTwoPoint"], ["mutESLogNormal"]),
    "tree": (["gp.cxOnePoint", "gp.cxOnePointLeafBiased"],
             ["gp.mutUniform", "gp.mutNodeReplacement", "gp.mutShrink", "gp.mutInsert", "gp.mutEphemeral"]),
}


# ------------------------------------------------------------------------------------------
# classes, primitive set, operators
# ------------------------------------------------------------------------------------------

def c02_eph():
    return random.randint(-1, 1)      # looked up at call time: goes through the recorded `random`


def _protected_div(a, b):
    return a / b if b else 1


def _setup():
    import operator
    pset = gp.PrimitiveSet("C02MAIN", 2)
    pset.addPrimitive(operator.add, 2)
    pset.addPrimitive(operator.sub, 2)
    pset.addPrimitive(operator.mul, 2)
    pset.addPrimitive(operator.neg, 1)
    pset.addTerminal(1)
    pset.addTerminal(0)
    pset.addEphemeralConstant("c02_eph", c02_eph)
    if not hasattr(creator, "C02FitMax"):
        creator.create("C02FitMax", base.Fitness, weights=(1.0,))
        creator.create("C02FitMO", base.Fitness, weights=(-1.0, 1.0))
    if not hasattr(creator, "C02FitCons"):
        creator.create("C02FitCons", base.ConstrainedFitness, weights=(1.0,))
    if not hasattr(creator, "C02FitIntW"):
        # INTEGER weights: with exact integer objectives beyond 2**53 the weighted values are Python ints that no double holds,
        # so a clone's fitness is the parent's only if it is copied, not recomputed through float arithmetic (seeded C02-r7m2)
        creator.create("C02FitIntW", base.Fitness, weights=(1, -1))
    cls = {}
    for fk, fc in (("max", creator.C02FitMax), ("mo", creator.C02FitMO), ("cmax", creator.C02FitCons),
                   ("intw", creator.C02FitIntW)):
        for rep, b, kw in (("list", list, {}), ("array", array.array, {"typecode": "d"}),
                           ("numpy", numpy.ndarray, {}), ("tree", gp.PrimitiveTree, {}), ("es", list, {}),
                           ("perm", list, {})):
            name = "C02_%s_%s" % (rep, fk)
            if not hasattr(creator, name):
                creator.create(name, b, fitness=fc, **kw)
            cls[rep, fk] = getattr(creator, name)
    return pset, cls


PSET, CLS = _setup()


def cxTwoPointCopy(ind1, ind2):
    """The copy-based two-point crossover of the numpy tutorial (slices of ndarrays are views)."""
    size = min(len(ind1), len(ind2))
    cxpoint1 = random.randint(1, size)
    cxpoint2 = random.randint(1, size - 1)
    if cxpoint2 >= cxpoint1:
        cxpoint2 += 1
    else:
        cxpoint1, cxpoint2 = cxpoint2, cxpoint1
    ind1[cxpoint1:cxpoint2], ind2[cxpoint1:cxpoint2] = ind2[cxpoint1:cxpoint2].copy(), ind1[cxpoint1:cxpoint2].copy()
    return ind1, ind2


def _expr_mut(pset, type_):
    return gp.genFull(pset, 0, 2, type_)


def operator_pair(mate, mutate, indpb):
    m = {
        "cxOnePoint": tools.cxOnePoint, "cxTwoPoint": tools.cxTwoPoint,
        "cxUniform": lambda a, b: tools.cxUniform(a, b, indpb),
        "cxBlend": lambda a, b: tools.cxBlend(a, b, 0.5),
        "cxTwoPointCopy": cxTwoPointCopy,
        "cxMessyOnePoint": tools.cxMessyOnePoint,
        "cxSimulatedBinary": lambda a, b: tools.cxSimulatedBinary(a, b, 2.0),
        "cxSimulatedBinaryBounded": lambda a, b: tools.cxSimulatedBinaryBounded(a, b, 2.0, -10.0, 10.0),
        "cxPartialyMatched": tools.cxPartialyMatched,
        "cxUniformPartialyMatched": lambda a, b: tools.cxUniformPartialyMatched(a, b, indpb),
        "cxOrdered": tools.cxOrdered,
        "cxESBlend": lambda a, b: tools.cxESBlend(a, b, 0.5),
        "cxESTwoPoint": tools.cxESTwoPoint,
        "gp.cxOnePoint": gp.cxOnePoint,
        "gp.cxOnePointLeafBiased": lambda a, b: gp.cxOnePointLeafBiased(a, b, 0.1),
    }[mate]
    u = {
        "mutFlipBit": lambda a: tools.mutFlipBit(a, indpb),
        "mutShuffleIndexes": lambda a: tools.mutShuffleIndexes(a, indpb),
        "mutUniformInt": lambda a: tools.mutUniformInt(a, 0, 3, indpb),
        "mutGaussian": lambda a: tools.mutGaussian(a, 0.0, 1.0, indpb),
        "mutESLogNormal": lambda a: tools.mutESLogNormal(a, 1.0, indpb),
        "mutPolynomialBounded": lambda a: tools.mutPolynomialBounded(a, 2.0, -10.0, 10.0, indpb),
        "mutInversion": tools.mutInversion,
        "gp.mutUniform": lambda a: gp.mutUniform(a, _expr_mut, PSET),
        "gp.mutNodeReplacement": lambda a: gp.mutNodeReplacement(a, PSET),
        "gp.mutShrink": gp.mutShrink,
        "gp.mutInsert": lambda a: gp.mutInsert(a, PSET),
        "gp.mutEphemeral": lambda a: gp.mutEphemeral(a, "all"),
    }[mutate]
    return m, u


def tree_nodes(tokens):
    """tokens: names of the primitive set, or [ephemeral name, value]"""
    out = []
    for t in tokens:
        if isinstance(t, (list, tuple)):
            cls = PSET.mapping[t[0]]
            e = cls.__new__(cls)          # not cls(): that would draw a value from `random`
            e.value = t[1]
            out.append(e)
        else:
            out.append(PSET.mapping[t])
    return out


def tree_tokens(tree):
    return [[n.name, n.value] if isinstance(type(n), gp.MetaEphemeral) else n.name for n in tree]


def _isum(ind):
    return sum(int(x) for x in ind)


def wrap_ops(m, u, mwrap, uwrap, limit):
    """operators that do NOT return the objects they were given: `pure` = work on deep copies and return the copies
    (the arguments stay as they are, the children are new objects still carrying the parents' fitness), `swap` =
    in place but returned in the other order, `limit` = stock gp.staticLimit(height <= limit), which returns a copy of
    a parent made before the operator ran whenever the child is too high"""
    import operator
    m0, u0 = m, u
    if mwrap == "pure":
        m = lambda a, b: m0(copy.deepcopy(a), copy.deepcopy(b))
    elif mwrap == "swap":
        m = lambda a, b: tuple(reversed(m0(a, b)))
    elif mwrap == "pureswap":
        m = lambda a, b: tuple(reversed(m0(copy.deepcopy(a), copy.deepcopy(b))))
    elif mwrap == "half":
        def m(a, b):          # first child in place, second child a new object
            x, y = m0(a, copy.deepcopy(b))
            return x, y
    elif mwrap == "limit":
        m = gp.staticLimit(key=operator.attrgetter("height"), max_value=limit)(m0)
    elif mwrap in ("fitset", "purefit"):
        def m(a, b):          # memetic crossover: the operator (re)evaluates what it produces and assigns the fitness itself
            x, y = m0(copy.deepcopy(a), copy.deepcopy(b)) if mwrap == "purefit" else m0(a, b)
            for k, z in enumerate((x, y)):
                z.fitness.values = tuple(float(7 + k + j) for j in range(len(z.fitness.weights)))
            return x, y
    elif mwrap == "id":
        # "functional" crossover: the children are built from the arguments or from clones of them and every combination of
        # returned-object identity occurs: code bit 0 = first slot works on a clone, bit 1 = second slot works on a clone,
        # bit 2 = returned in the other order  ->  (a,b) (n,b) (a,n) (n,n') (b,a) (b,n) (n,a) (n',n)
        def m(a, b, code=limit):
            x, y = m0(copy.deepcopy(a) if code & 1 else a, copy.deepcopy(b) if code & 2 else b)
            return (y, x) if code & 4 else (x, y)
    elif mwrap in ("limlen", "limsum"):
        m = gp.staticLimit(key=len if mwrap == "limlen" else _isum, max_value=limit)(m0)
    if uwrap in ("limlen", "limsum"):
        u = gp.staticLimit(key=len if uwrap == "limlen" else _isum, max_value=limit)(u0)
    elif uwrap in ("fitset", "purefit"):
        def u(a):             # local-search mutation: assigns the fitness of its result
            z, = u0(copy.deepcopy(a)) if uwrap == "purefit" else u0(a)
            z.fitness.values = tuple(float(9 + j) for j in range(len(z.fitness.weights)))
            return z,
    elif uwrap == "pure":
        u = lambda a: u0(copy.deepcopy(a))
    elif uwrap == "limit":
        u = gp.staticLimit(key=operator.attrgetter("height"), max_value=limit)(u0)
    return m, u


class Gene(object):
    """a mutable gene object: numpy individuals of dtype=object hold references to such objects, so a clone that copies
    the buffer only one level shares them with its parent (seeded change C02-r6m3 / finding F29)"""
    __slots__ = ("v",)

    def __init__(self, v):
        self.v = [float(v)]

    def __float__(self):
        return self.v[0]

    def __repr__(self):
        return "Gene(%r)" % self.v[0]

    def __deepcopy__(self, memo):
        g = Gene(self.v[0])
        memo[id(self)] = g
        return g


def build(rep, fk, spec):
    c = CLS[rep, fk]
    if rep == "tree":
        ind = c(tree_nodes(spec["g"]))
    elif rep in ("list", "perm"):
        ind = c(int(x) for x in spec["g"])
    elif rep == "es":
        ind = c(float(x) for x in spec["g"])
        ind.strategy = [float(x) for x in spec["strategy"]]     # mutable state outside the gene sequence
        ind.info = {"tags": [1, [2]]}
    elif spec.get("objgenes"):
        ind = c([Gene(x) for x in spec["g"]])              # numpy individual of dtype=object with mutable genes
    else:
        ind = c([float(x) for x in spec["g"]])
    if spec["fit"] is not None:
        ind.fitness.values = tuple(int(v) for v in spec["fit"]) if fk == "intw" else tuple(float(v) for v in spec["fit"])
    if spec.get("cv") is not None:
        ind.fitness.constraint_violation = [bool(x) for x in spec["cv"]]
    if spec.get("extra"):
        ind.history = [spec["extra"], [1, 2]]
        ind.meta = {"k": [0]}
        if rep == "numpy":
            ind.aux = numpy.array([1.0, 2.0])
    return ind


# ------------------------------------------------------------------------------------------
# observation of real objects
# ------------------------------------------------------------------------------------------

def gene_keys(ind):
    if isinstance(ind, gp.PrimitiveTree):
        return [("n", n.name, n.arity, repr(getattr(n, "value", None))) for n in ind]
    if isinstance(ind, numpy.ndarray):
        return [("x", repr(float(x))) for x in ind]
    if hasattr(ind, "strategy"):       # evolution-strategy individual: genes and strategy vector are its genotype
        return [("x", repr(x)) for x in ind] + [("|",)] + [("x", repr(x)) for x in ind.strategy]
    return [("x", repr(x)) for x in ind]


ATOMS = (int, float, complex, str, bytes, bool, type(None), type, numpy.generic, gp.Primitive, gp.Terminal)


def _plain(x):
    """structural value of an attribute (for the before/after snapshot)"""
    if isinstance(x, numpy.ndarray):
        return ("nd", str(x.dtype), x.shape, x.tobytes(), _plain(getattr(x, "__dict__", {})))
    if isinstance(x, base.Fitness):
        return ("fit", type(x).__name__, tuple(repr(v) for v in x.wvalues), _plain({k: v for k, v in vars(x).items() if k != "wvalues"}))
    if isinstance(x, dict):
        return ("dict", tuple(sorted((repr(k), _plain(v)) for k, v in x.items())))
    if isinstance(x, (list, tuple, array.array)):
        return (type(x).__name__, tuple(_plain(v) for v in x), _plain(getattr(x, "__dict__", {})))
    if isinstance(x, (set, frozenset)):
        return ("set", tuple(sorted(repr(v) for v in x)))
    if isinstance(x, (gp.Primitive, gp.Terminal)):
        return ("node", type(x).__name__, x.name, x.arity, repr(getattr(x, "value", None)))
    return ("atom", repr(x))


def snap(ind):
    """deep structural snapshot of an individual: class, genotype, fitness, every attribute"""
    return (type(ind).__name__, tuple(gene_keys(ind)), _plain(ind))


def mutable_parts(obj):
    """all mutable objects reachable from `obj` (the object itself, attribute dictionaries, containers, arrays,
    fitness objects …); returns (dict id -> object, list of ndarrays)"""
    seen, arrays, todo = {}, [], [obj]
    while todo:
        x = todo.pop()
        if isinstance(x, ATOMS) or id(x) in seen:
            continue
        if isinstance(x, tuple):
            todo.extend(x)
            continue
        seen[id(x)] = x
        if isinstance(x, numpy.ndarray):
            arrays.append(x)
            if x.base is not None:
                todo.append(x.base)
            if x.dtype == object:
                todo.extend(x.ravel().tolist())
        elif isinstance(x, dict):
            todo.extend(x.keys())
            todo.extend(x.values())
        elif isinstance(x, (list, set, frozenset)):
            todo.extend(x)
        d = getattr(x, "__dict__", None)
        if isinstance(d, dict):
            todo.append(d)
        for s in getattr(type(x), "__slots__", ()):
            if isinstance(s, str) and hasattr(x, s):
                todo.append(getattr(x, s))
    return seen, arrays


class Recorder(object):
    def __init__(self, tp, inds):
        self.tp = tp
        self.oid, self.keep = {}, []
        for o in inds:
            self.new(o)
        self.n0 = len(self.keep)
        self.events, self.calls, self.ranges = [], [], []
        self.rets = []           # per event: the oids the call returned
        self.touched = set()
        self.contract = None
        self.dupret = False
        self.intern = {}

    def new(self, o):
        self.oid[id(o)] = len(self.keep)
        self.keep.append(o)
        return self.oid[id(o)]

    def of(self, o):
        k = self.oid.get(id(o))
        if k is None:
            self.contract = self.contract or "an operator returned / received an object unknown to the trace"
            k = self.new(o)
        return k

    def ret(self, o, args, what):
        """oid of an object an operator returned: one of its arguments, or an object it allocated itself (unknown so
        far: it gets the next oid); anything else breaks the operator contract"""
        k = self.oid.get(id(o))
        if k is None:
            return self.new(o)
        if k >= self.known0:          # allocated by this very call (the same new object handed back twice)
            return k
        if not any(o is a for a in args) and self.contract is None:
            self.contract = "%s returned object #%d, which is neither an argument nor a new object" % (what, k)
        return k

    def genome(self, ind):
        out = []
        for k in gene_keys(ind):
            if k not in self.intern:
                self.intern[k] = len(self.intern)
            out.append(self.intern[k])
        return out

    def gtok(self, ind):
        g = self.genome(ind)
        return ",".join(str(x) for x in g) if g else "-"

    def obj(self, ind):
        f = ind.fitness
        ft = ",".join(str(int(v)) for v in f.values) if f.valid else "none"
        return "%s|%s" % (self.gtok(ind), ft)

    check_frame = True

    def _others(self, args):
        if not self.check_frame:
            return []
        ids = set(id(a) for a in args)
        return [(o, snap(o)) for o in self.keep if id(o) not in ids]

    def _check_frame(self, before, what):
        for o, s in before:
            if snap(o) != s and self.contract is None:
                self.contract = "%s modified object #%d which is not one of its arguments" % (what, self.oid[id(o)])

    def wrap(self, toolbox):
        clone0, mate0, mutate0 = toolbox.clone, toolbox.mate, toolbox.mutate

        def clone(x):
            y = clone0(x)
            src = self.of(x)
            self.events.append("c%d>%d" % (src, self.new(y)))
            self.rets.append((self.oid[id(y)],))
            return y

        def mate(a, b):
            ia, ib = self.of(a), self.of(b)
            self.known0 = len(self.keep)
            before = self._others((a, b))
            start = len(self.tp.draws)
            ra, rb = mate0(a, b)
            self.ranges.append((start, len(self.tp.draws)))
            self._check_frame(before, "mate")
            ja, jb = self.ret(ra, (a, b), "mate"), self.ret(rb, (a, b), "mate")
            if ja == jb:
                self.dupret = True        # e.g. gp.staticLimit handing back the same kept copy twice
            self.events.append("m%d&%d" % (ia, ib))
            self.rets.append((ja, jb))
            self.calls.append("M/%d/%d/%d/%d/%s/%s/%s/%s" % (ia, ib, ja, jb, self.obj(a), self.obj(b),
                                                            self.obj(ra), self.obj(rb)))
            # "went through a crossover": the objects passed in AND the objects handed back
            self.touched.update((id(a), id(b), id(ra), id(rb)))
            return ra, rb

        def mutate(a):
            ia = self.of(a)
            self.known0 = len(self.keep)
            before = self._others((a,))
            start = len(self.tp.draws)
            res = mutate0(a)
            self.ranges.append((start, len(self.tp.draws)))
            self._check_frame(before, "mutate")
            ra, = res
            ja = self.ret(ra, (a,), "mutate")
            self.events.append("u%d" % ia)
            self.rets.append((ja,))
            self.calls.append("U/%d/%d/%s/%s" % (ia, ja, self.obj(a), self.obj(ra)))
            self.touched.update((id(a), id(ra)))
            return res

        toolbox.clone, toolbox.mate, toolbox.mutate = clone, mate, mutate

    def var_draws(self):
        inside = set()
        for a, b in self.ranges:
            inside.update(range(a, b))
        return [d for i, d in enumerate(self.tp.draws) if i not in inside]


# ------------------------------------------------------------------------------------------
# the composed stream: protocol line and canonical answer
# ------------------------------------------------------------------------------------------

COMPOSED_FMT = {"list": "i", "perm": "i", "array": "f", "numpy": "f", "es": "e", "tree": "t"}
COMPOSED_MUT = {"list": ["mutFlipBit", "mutShuffleIndexes", "mutUniformInt", "mutInversion"],
                "perm": ["mutShuffleIndexes", "mutInversion"],
                "array": ["mutGaussian", "mutShuffleIndexes", "mutPolynomialBounded", "mutInversion"],
                "numpy": ["mutGaussian", "mutShuffleIndexes", "mutPolynomialBounded"],      # not mutFlipBit on floats
                "es": ["mutESLogNormal"],
                "tree": ["gp.mutUniform", "gp.mutNodeReplacement", "gp.mutShrink", "gp.mutInsert", "gp.mutEphemeral"]}


def composable(d):
    """can the composed model replay this case?  (operators with a model in Core/VariationOps.lean, wrappers none / gp.staticLimit
    on len / sum)"""
    if d["rep"] not in COMPOSED_FMT or d["mutate"] not in COMPOSED_MUT[d["rep"]]:
        return False
    for key in ("mwrap", "uwrap"):
        if d["rep"] == "tree":
            if d.get(key) not in (None, "limit"):
                return False
            continue
        if d.get(key) not in (None, "limlen", "limsum"):
            return False
        if d.get(key) == "limsum" and COMPOSED_FMT[d["rep"]] != "i":
            return False
        if d.get(key) and d["rep"] == "es":
            return False      # len() of an ES individual is not the length of its one-genome coding

    return True


def _sb(x):
    return "s" + fbits(x)


def composed_specs(d):
    ip = fbits(d.get("indpb", 0.5))
    mate = {"cxOnePoint": "cxOnePoint", "cxTwoPoint": "cxTwoPoint", "cxTwoPointCopy": "cxTwoPoint",
            "cxUniform": "cxUniform/" + ip, "cxMessyOnePoint": "cxMessyOnePoint",
            "cxBlend": "cxBlend/" + fbits(0.5), "cxSimulatedBinary": "cxSimulatedBinary/" + fbits(2.0),
            "cxSimulatedBinaryBounded": "cxSimulatedBinaryBounded/%s/%s/%s" % (fbits(2.0), _sb(-10.0), _sb(10.0)),
            "cxPartialyMatched": "cxPartialyMatched", "cxUniformPartialyMatched": "cxUniformPartialyMatched/" + ip,
            "cxOrdered": "cxOrdered", "cxESBlend": "cxESBlend/" + fbits(0.5), "cxESTwoPoint": "cxESTwoPoint",
            "gp.cxOnePoint": "gp.cxOnePoint", "gp.cxOnePointLeafBiased": "gp.cxOnePointLeafBiased/" + fbits(0.1)}[d["mate"]]
    mut = {"mutFlipBit": "mutFlipBit/" + ip, "mutShuffleIndexes": "mutShuffleIndexes/" + ip,
           "mutUniformInt": "mutUniformInt/s0/s3/" + ip, "mutInversion": "mutInversion",
           "mutGaussian": "mutGaussian/%s/%s/%s" % (_sb(0.0), _sb(1.0), ip),
           "mutPolynomialBounded": "mutPolynomialBounded/%s/%s/%s/%s" % (fbits(2.0), _sb(-10.0), _sb(10.0), ip),
           "mutESLogNormal": "mutESLogNormal/%s/%s" % (fbits(1.0), ip),
           "gp.mutUniform": "gp.mutUniform/full/0/2", "gp.mutNodeReplacement": "gp.mutNodeReplacement",
           "gp.mutShrink": "gp.mutShrink", "gp.mutInsert": "gp.mutInsert", "gp.mutEphemeral": "gp.mutEphemeral/all"}[d["mutate"]]

    def lim(w):
        return "-" if not w else "%s/%d" % ({"limlen": "len", "limsum": "sum", "limit": "height"}[w], d.get("limit", 1))
    return mate, lim(d.get("mwrap")), mut, lim(d.get("uwrap"))


def node_tok(n):
    """a node of the (loosely typed: every type is `object` = type id 0) primitive set, as in the C11 protocol"""
    if isinstance(n, gp.Primitive):
        return "%s:0:%s:p:" % (n.name, ".".join("0" for _ in n.args))
    if type(n) is gp.MetaEphemeral:          # the class, inside a pool
        return "%s:0::e:" % n.name
    if type(type(n)) is gp.MetaEphemeral:    # an instance
        return "%s:0::e:%s" % (n.name, n.format())
    return "%s:0::t:%s" % (n.name, n.format())


def pset_tok():
    def pool(dd):
        return ";".join("0=%s" % ",".join(node_tok(x) for x in l) for t, l in dd.items() if t is object) or "-"
    return "0.0 %s %s 0 %d %d" % (pool(PSET.primitives), pool(PSET.terminals), PSET.terms_count, PSET.prims_count)


def gp_tape(rec):
    """the operators' draws as a GP tape of the C11 protocol (arguments included: the model checks them)"""
    inside = set()
    for a, b in rec.ranges:
        inside.update(range(a, b))
    out, err = [], None
    for i, x in enumerate(rec.tp.draws):
        if i not in inside:
            continue
        if x[0] == "random":
            out.append("r" + fbits(x[1])[2:])
        elif x[0] == "randint":
            out.append("i%d.%d.%d" % (x[1], x[2], x[3]))
        elif x[0] == "randrange":
            a = x[1]
            lo, hi = (0, a[0]) if len(a) == 1 else (a[0], a[1])
            out.append("g%d.%d.%d" % (lo, hi, x[2]))
        elif x[0] == "choice":
            out.append("c%d.%d" % (x[1], x[2]))
        else:
            err = "a GP operator made a random call the composed model does not know: %r" % (x[:1],)
    return out, err


def cgenes(fmt, ind):
    if fmt == "t":
        g = [node_tok(n) for n in ind]
    elif fmt == "i":
        g = [str(int(x)) for x in ind]
    elif fmt == "f":
        g = [fbits(x) for x in ind]
    else:
        g = [str(len(ind))] + [fbits(x) for x in ind] + [fbits(x) for x in ind.strategy]
    return ",".join(g) if g else "-"


def cfit(ind):
    f = ind.fitness
    return ",".join(str(int(v)) for v in f.values) if f.valid else "none"


def op_tape(rec):
    """the draws made inside the operator calls (gp.staticLimit's random.choice included), in call order"""
    inside = set()
    for a, b in rec.ranges:
        inside.update(range(a, b))
    toks, err = [], None
    for i, x in enumerate(rec.tp.draws):
        if i not in inside:
            continue
        if x[0] == "random":
            toks.append("r:" + fbits(x[1]))
        elif x[0] == "randint":
            toks.append("i:%d" % x[3])
        elif x[0] == "randrange":
            toks.append("i:%d" % x[2])
        elif x[0] == "sample":
            toks.extend("i:%d" % j for j in x[3])
        elif x[0] == "choice":
            toks.append("i:%d" % x[2])
        elif x[0] == "gauss":
            toks.append("g:" + fbits(x[3]))
        else:
            err = "an operator made a random call the composed model does not know: %r" % (x[:1],)
    return toks, err


def composed_case(d, rec, inds, heap0, out, dec_tokens, cxpb, mutpb, lam):
    """protocol line for `andc` / `orc` and the implementation's canonical answer"""
    fmt = COMPOSED_FMT[d["rep"]]
    clones = {}
    for e in rec.events:
        if e[0] == "c":
            clones[int(e.split(">")[1])] = len(clones)

    def name(k):
        return "p%d" % k if k < rec.n0 else ("k%d" % clones[k] if k in clones else "x")

    def ev(e):
        if e[0] == "c":
            return "c" + name(int(e[1:].split(">")[0]))
        if e[0] == "m":
            a, b = e[1:].split("&")
            return "m%s&%s" % (name(int(a)), name(int(b)))
        return "u" + name(int(e[1:]))
    heap_tok = ";".join("%s|%s" % gf for gf in heap0) if heap0 else "-"
    ot, err = gp_tape(rec) if fmt == "t" else op_tape(rec)
    mate, mlim, mut, ulim = composed_specs(d)
    head = "C02 andc %s %s %s %s %s" if d["fn"] == "and" else "C02 orc %s %s %s " + str(lam) + " %s %s"
    line = (head + " %s %s %s %s %s %s") % (fmt, sl(d["pop"]), heap_tok, fbits(cxpb), fbits(mutpb), sl(dec_tokens),
                                           mate, mlim, mut, ulim, sl(ot))
    if fmt == "t":
        line += " " + pset_tok()
    ids = [id(o) for o in out]
    ans = "off=%s dup=%d objs=%s par=%s log=%s rest=0" % (
        sl(name(rec.of(o)) for o in out), 0 if len(set(ids)) == len(ids) else 1,
        "".join(" o %s %s" % (cgenes(fmt, o), cfit(o)) for o in out),
        "".join(" o %s %s" % (cgenes(fmt, x), cfit(x)) for x in inds), sl(ev(e) for e in rec.events))
    return line, ans, err


class BiasedRandom(object):
    """random.Random whose random() sometimes lands exactly on a branch boundary"""

    def __init__(self, seed, specials):
        self._r = random.Random(seed)
        self._s = [x for x in specials if 0.0 <= x < 1.0]

    def random(self):
        if self._s and self._r.random() < 0.3:
            return self._r.choice(self._s)
        return self._r.random()

    def __getattr__(self, n):
        return getattr(self._r, n)


def sl(xs):
    xs = list(xs)
    return ",".join(str(x) for x in xs) if xs else "-"


def excluded(d):
    n = len(d["pop"])
    if d["mate"] == "cxMessyOnePoint" and d["mutate"] == "mutShuffleIndexes":
        return True       # the messy crossover produces individuals of size < 2, which mutShuffleIndexes cannot handle
    if d["mate"] == "cxSimulatedBinary" and d["mutate"] == "mutPolynomialBounded":
        return True       # unbounded SBX can push a gene outside the bounds the polynomial mutation requires
    if d["fn"] == "or":
        if n < 2 and d["cxpb"] > 0:
            return True
        if n == 0 and d["lam"] > 0:
            return True
    return False


def statement_oracle(fn, pop, pop_ids, npop, inds, before, before_pop, out, want, touched):
    """the property statement on the real objects of ONE varAnd / varOr call: `pop` the list that was passed (`pop_ids` the ids of
    its elements and `npop` its length before the call), `inds` every individual known before the call with its snapshot `before`
    (`before_pop`: the snapshots of the population's elements), `out` what the call returned, `want` the requested number of offspring,
    `touched` the ids of the objects that were passed to or handed back by a crossover / mutation"""
    # ---- oracle: the statement, on the real objects -----------------------------------------
    orc = None
    # (1) never modify any individual of the population given (nor the list itself)
    if [id(x) for x in pop] != pop_ids or len(pop) != npop:
        orc = "the population list itself was modified"
    for i, x in enumerate(inds):
        if orc is None and snap(x) != before[i]:
            orc = "input individual #%d was modified by %s" % (i, "varAnd" if fn == "and" else "varOr")
    # (2) exactly the requested number of offspring
    if orc is None and len(out) != want:
        orc = "returned %d offspring instead of %d" % (len(out), want)
    # (3) each offspring independent of (shares no mutable state with) every input
    if orc is None:
        in_parts = [mutable_parts(x) for x in inds]
        for k, o in enumerate(out):
            if any(o is x for x in inds):
                orc = "offspring %d is the input object #%d itself" % (k, [j for j, x in enumerate(inds) if x is o][0])
                break
            parts, arrs = mutable_parts(o)
            for j, (pp, pa) in enumerate(in_parts):
                common = set(parts) & set(pp)
                if common:
                    orc = "offspring %d shares a mutable %s with input #%d" % (k, type(parts[common.pop()]).__name__, j)
                    break
                if any(numpy.shares_memory(a, b) for a in arrs for b in pa):
                    orc = "offspring %d shares array memory with input #%d" % (k, j)
                    break
            if orc:
                break
    # (4) went through crossover or mutation  =>  invalid fitness
    if orc is None:
        for k, o in enumerate(out):
            if id(o) in touched and o.fitness.valid:
                orc = "offspring %d went through mate/mutate but has the valid fitness %r" % (k, o.fitness.values)
                break
    # (4b) "invalid (empty) fitness": nothing of the old fitness is left behind
    if orc is None:
        for k, o in enumerate(out):
            if not o.fitness.valid and (tuple(o.fitness.values) != () or tuple(o.fitness.wvalues) != ()):
                orc = "offspring %d has an invalid fitness that is not empty: values=%r wvalues=%r" % (
                    k, o.fitness.values, o.fitness.wvalues)
                break
    # (4c) … "invalid (EMPTY)": after a crossover / mutation nothing of the parent's fitness state is left — the fitness
    # is indistinguishable from a freshly created one of its class (e.g. no constraint_violation record of a
    # ConstrainedFitness inherited from the parent)
    if orc is None:
        for k, o in enumerate(out):
            if id(o) in touched and not o.fitness.valid:
                fresh = type(o.fitness)()
                # public state only (values, and every public attribute such as constraint_violation) — not how the
                # class stores it internally
                names = sorted(a for a in set(vars(o.fitness)) | set(vars(fresh)) if not a.startswith("_") and a != "wvalues")
                left = {a: getattr(o.fitness, a, None) for a in names
                        if _plain(getattr(o.fitness, a, None)) != _plain(getattr(fresh, a, None))}
                if left:
                    orc = "offspring %d went through mate/mutate and its invalid fitness is not empty: it still carries %r" % (k, left)
                    break
    # (5) valid fitness  =>  exactly the genotype and the fitness of an input individual
    if orc is None:
        par = set((s[1], _plain(x.fitness)) for s, x in zip(before_pop, pop))
        for k, o in enumerate(out):
            if o.fitness.valid and (tuple(gene_keys(o)), _plain(o.fitness)) not in par:
                orc = "offspring %d has a valid fitness %r but no input has this genotype with this fitness" % (k, o.fitness.values)
                break

    return orc


def evaluate(d):
    if d.get("fn") == "hist":
        from props import c02_hist
        return c02_hist.evaluate(d)
    if d.get("fn") == "seq":
        from props import c02_seq
        return c02_seq.evaluate(d)
    fn, rep, fk = d["fn"], d["rep"], d["fk"]
    if excluded(d):
        return Case(d, [], [], None, tag="excluded-domain", nontrivial=False)
    inds = [build(rep, fk, s) for s in d["inds"]]
    pop = [inds[i] for i in d["pop"]]
    pop_ids = [id(x) for x in pop]
    cxpb, mutpb = float(d["cxpb"]), float(d["mutpb"])
    lam = d.get("lam", 0)
    tb = base.Toolbox()
    m, u = operator_pair(d["mate"], d["mutate"], d.get("indpb", 0.5))
    m, u = wrap_ops(m, u, d.get("mwrap"), d.get("uwrap"), d.get("limit", 1))
    tb.register("mate", m)
    tb.register("mutate", u)
    if d.get("bias"):
        import math
        sp = [0.0, cxpb, mutpb, cxpb + mutpb, 1.0 - 2.0 ** -53]
        sp += [math.nextafter(x, 0.0) for x in (cxpb, cxpb + mutpb) if x > 0]
        rng = BiasedRandom(d["seed"], sp)
    else:
        rng = random.Random(d["seed"])
    before = [snap(x) for x in inds]
    before_pop = [snap(x) for x in pop]
    composed = bool(d.get("composed")) and composable(d)
    heap0 = [(cgenes(COMPOSED_FMT[rep], x), cfit(x)) for x in inds] if composed else None
    with tapemod.Tape(rng=rng) as tp:
        rec = Recorder(tp, inds)
        heap_tok = ";".join(rec.obj(x) for x in inds) if inds else "-"
        rec.wrap(tb)
        asserted = False
        import warnings
        try:
            with warnings.catch_warnings():
                warnings.simplefilter("ignore")      # e.g. polynomial mutation of a gene pushed out of its bounds
                if fn == "and":
                    out = algorithms.varAnd(pop, tb, cxpb, mutpb)
                else:
                    out = algorithms.varOr(pop, tb, lam, cxpb, mutpb)
        except AssertionError:
            asserted = True
    pops = sl(d["pop"])
    draws = rec.var_draws()
    script = ";".join(rec.calls) if rec.calls else "-"
    tape_err = None
    if fn == "and":
        if any(x[0] != "random" for x in draws):
            tape_err = "varAnd made a random call the model does not know: %r" % ([x for x in draws if x[0] != "random"][:3],)
            draws = [x for x in draws if x[0] == "random"]
        line = "C02 and %s %s %s %s %s %s" % (pops, heap_tok, fbits(cxpb), fbits(mutpb),
                                             sl(fbits(x[1]) for x in draws), script)
    else:
        toks = []
        for x in draws:
            if x[0] == "random":
                toks.append("r:" + fbits(x[1]))
            elif x[0] == "sample":
                toks.append("s:%d:%d" % tuple(x[3]))
            elif x[0] == "choice":
                toks.append("c:%d" % x[2])
            else:
                tape_err = "varOr made a random call the model does not know: %r" % (x,)
        line = "C02 or %s %s %d %s %s %s %s" % (pops, heap_tok, lam, fbits(cxpb), fbits(mutpb), sl(toks), script)
    if composed:
        dec = [fbits(x[1]) for x in draws] if fn == "and" else toks
        line, cans, cerr = composed_case(d, rec, inds, heap0, out if not asserted else [], dec, cxpb, mutpb, lam)
        tape_err = tape_err or cerr
    if asserted:
        inside = cxpb + mutpb <= 1.0
        return Case(d, [line], ["assert"], "AssertionError although cxpb + mutpb <= 1" if inside else None,
                    tag="or/assert", nontrivial=False)

    # ---- the implementation's canonical answer -------------------------------------------
    def cls_of(o):
        for k, p in enumerate(pop):
            if p is o:
                return "i%d" % k
        if any(o is x for x in inds):
            return "i%d" % len(pop)
        return "f"
    ans = "off=%s cls=%s objs=%s par=%s log=%s" % (
        sl(rec.of(o) for o in out), sl(cls_of(o) for o in out),
        ";".join(rec.obj(o) for o in out) if out else "-",
        ";".join(rec.obj(x) for x in inds) if inds else "-", sl(rec.events))
    if rec.contract:
        ans = "operator-contract-violated: " + rec.contract
    elif composed:
        ans = cans

    orc = statement_oracle(fn, pop, pop_ids, len(d["pop"]), inds, before, before_pop, out,
                           len(pop) if fn == "and" else lam, rec.touched)

    br = ""
    if fn == "and":
        br = ("M" if any(e[0] == "m" for e in rec.events) else "") + ("U" if any(e[0] == "u" for e in rec.events) else "")
        br += "R" if any(id(o) not in rec.touched for o in out) else ""
    else:
        nm = sum(1 for e in rec.events if e[0] == "m")
        nu = sum(1 for e in rec.events if e[0] == "u")
        br = ("C" if nm else "") + ("M" if nu else "") + ("R" if len(out) > nm + nu else "")
    if tape_err is not None:
        # the recorded tape does not fit the model's replay: a break of the correspondence, unless the oracle already
        # names a violated clause (CONTRIBUTING, later conventions)
        # (reported as a protocol line the model cannot answer rather than as a `TAPE:` oracle text, so that lib's
        # shrinker, which accepts any oracle text, cannot drift from a real violation to a mere tape mismatch)
        return Case(d, ["C02 tape-error"], ["TAPE: " + tape_err], orc, tag="%s/%s/tape-error" % (fn, rep), nontrivial=False)
    rpt = "/rpt" if len(set(d["pop"])) < len(d["pop"]) else ""
    wr = "/%s-%s" % (d.get("mwrap") or "inplace", d.get("uwrap") or "inplace") if (d.get("mwrap") or d.get("uwrap")) else ""
    tag = "%s%s/%s/%s%s%s%s" % (fn, "-composed" if composed else "", rep, br or "none", rpt, wr, "/dupret" if rec.dupret else "")
    return Case(d, [line], [ans], orc, tag=tag, nontrivial=len(out) > 0,
                tol=1e-9 if composed and COMPOSED_FMT[rep] != "i" else None)


# ------------------------------------------------------------------------------------------
# generation
# ------------------------------------------------------------------------------------------

def mk_genome(rng, rep):
    n = rng.randint(2, 6)
    if rep == "list":
        return [rng.randint(0, 1) if rng.random() < 0.7 else rng.randint(0, 3) for _ in range(n)]
    if rep in ("array", "numpy", "es"):
        if rng.random() < 0.3:
            return [float(rng.randint(0, 1)) for _ in range(n)]
        return [rng.randint(-8, 8) / 4.0 for _ in range(n)]
    with tapemod.Tape(rng=rng):
        t = gp.PrimitiveTree(gp.genHalfAndHalf(PSET, 0, 3))
    return tree_tokens(t)


def mk_fit(rng, fk):
    if fk == "intw":
        # exact integer objectives, most of them not representable as a double (odd, beyond 2**53)
        big = rng.choice([2 ** 60, 2 ** 53, -(2 ** 62), 2 ** 70]) + 2 * rng.randint(0, 500) + 1
        return [big if rng.random() < 0.8 else rng.randint(-3, 3), rng.randint(-3, 3)]
    return [rng.randint(-3, 3) for _ in range(2 if fk == "mo" else 1)]


def mk_case(rng, fn=None, rep=None, n=None, probs=None, mate=None, mutate=None, lam=None, wrap=None, composed=None, fk=None):
    fn = fn or rng.choice(["and", "or"])
    rep = rep or rng.choice(REPS)
    fk = fk or rng.choice(["max", "max", "mo", "cmax", "intw"])
    n = rng.randint(0, 8) if n is None else n
    kind = rng.choice(["distinct", "distinct", "repeat", "same"])
    m = n if kind == "distinct" else (min(n, 1) if kind == "same" else (rng.randint(1, n) if n else 0))
    by = rng.choice([0, 0, 0, 1, 2])
    ek = rng.choice(["all", "none", "mixed", "mixed"])
    inds = []
    plen = rng.randint(3, 6)
    for i in range(m + by):
        if inds and rng.random() < 0.25:
            g = rng.choice(inds)["g"]          # duplicate genotype carried by a different object
        elif rep == "perm":
            g = list(range(plen))
            rng.shuffle(g)
        else:
            g = mk_genome(rng, rep)
        ev = ek == "all" or (ek == "mixed" and rng.random() < 0.5)
        spec = {"g": g, "fit": mk_fit(rng, fk) if ev else None}
        if rep == "es":
            spec["strategy"] = [rng.randint(1, 8) / 4.0 for _ in g]
        if fk == "cmax":
            spec["cv"] = rng.choice([None, None, [False], [True, False]])
        if rng.random() < 0.3:
            spec["extra"] = i + 1
        inds.append(spec)
    if kind == "distinct":
        pop = list(range(m))
        if rng.random() < 0.3:
            rng.shuffle(pop)
    else:
        pop = [rng.randrange(m) for _ in range(n)] if m else []
    if probs is None:
        def p():
            r = rng.random()
            return 0.0 if r < 0.2 else 1.0 if r < 0.4 else rng.randint(0, 16) / 16.0 if r < 0.85 else rng.choice([0.1, 0.2, 0.3, 0.7, 0.9])
        cxpb = p()
        if fn == "and":
            mutpb = p()
        else:
            r = rng.random()
            if r < 0.3:
                mutpb = 1.0 - cxpb
            elif r < 0.5:
                mutpb = 0.0
            elif r < 0.97:
                mutpb = rng.randint(0, 16) / 16.0 * (1.0 - cxpb)
            else:
                mutpb = min(1.0, 1.0 - cxpb + rng.choice([2.0 ** -52, 0.25, 1.0]))   # assertion domain
    else:
        cxpb, mutpb = probs
    if fn == "or" and len(pop) < 2:
        cxpb = 0.0
    mates, muts = OPS[rep]
    if rep == "numpy" and mate is None and mutate is None and composed is None and rng.random() < 0.25:
        # dtype=object individuals holding mutable gene objects; element-wise operators that only move genes
        for spec in inds:
            spec["objgenes"] = True
        mates, muts = ["cxUniform"], ["mutShuffleIndexes"]
        composed = False
    d = {"fn": fn, "rep": rep, "fk": fk, "inds": inds, "pop": pop, "cxpb": cxpb, "mutpb": mutpb,
         "mate": mate or rng.choice(mates), "mutate": mutate or rng.choice(muts),
         "indpb": rng.choice([0.0, 0.5, 0.5, 1.0]), "seed": rng.getrandbits(32), "bias": rng.random() < 0.35}
    if wrap is None:
        r = rng.random()
        wrap = True if r < 0.3 else ("lim" if r < 0.45 and rep not in ("tree", "es") else False)
    if wrap == "treelim":
        d["mwrap"], d["uwrap"] = rng.choice([("limit", None), (None, "limit"), ("limit", "limit")])
        d["limit"] = rng.choice([0, 1, 1, 2])
    elif wrap == "lim":
        # gp.staticLimit on a list-like individual (key = len, or sum for integer genes)
        keys = ["limlen"] + (["limsum"] if rep in ("list", "perm") else [])
        d["mwrap"], d["uwrap"] = rng.choice([(rng.choice(keys), None), (None, rng.choice(keys)), (rng.choice(keys),) * 2])
        d["limit"] = rng.randint(1, 6) if "limlen" in (d["mwrap"], d["uwrap"]) else rng.randint(0, 12)
    elif wrap:
        d["mwrap"] = rng.choice([None, "pure", "pure", "swap", "pureswap", "half", "fitset", "purefit", "id"] +
                                (["limit", "limit"] if rep == "tree" else []))
        d["uwrap"] = rng.choice([None, "pure", "pure", "fitset", "fitset", "purefit"] + (["limit", "limit"] if rep == "tree" else []))
        if d["mwrap"] == "id":
            d["limit"] = rng.randrange(8)
            if d["uwrap"] == "limit":
                d["uwrap"] = "pure"
        elif "limit" in (d["mwrap"], d["uwrap"]):
            d["limit"] = rng.choice([0, 1, 1, 2])
    if composed is None:
        composed = rng.random() < 0.5
    if composed and composable(d):
        d["composed"] = True
    if fn == "or":
        d["lam"] = (rng.randint(0, 10) if lam is None else lam) if pop else 0
    return d


def generate(tier, rng, mult):
    thorough = tier == "thorough"
    # stream 0: histories of varAnd / varOr calls with operators decorated by one tools.History() (props/c02_hist.py)
    from props import c02_hist
    for d in c02_hist.generate(tier, rng, mult):
        yield d
    # stream 0a: call histories on ONE class whose gene structure changes (atomic -> nested -> atomic ...), one toolbox reused
    from props import c02_seq
    for d in c02_seq.generate(tier, rng, mult):
        yield d
    extremes = [(0.0, 0.0), (1.0, 0.0), (0.0, 1.0), (1.0, 1.0), (0.5, 0.5)]
    # stream 0b: fitness classes with INTEGER weights and exact integer objectives beyond 2**53 — "every offspring that comes back with a
    # valid fitness has exactly the ... fitness of one of the input individuals": probabilities that leave clones untouched
    for rep in REPS:
        for fn in ("and", "or"):
            for pr in ((0.0, 0.0), (0.3, 0.2), (0.5, 0.5)):
                for n in (3, 5):
                    d = mk_case(rng, fn, rep, n, pr, wrap=False, composed=False, lam=rng.choice([3, 5, 8]), fk="intw")
                    for sp in d["inds"]:
                        if sp["fit"] is None and rng.random() < 0.7:
                            sp["fit"] = mk_fit(rng, "intw")
                    yield d
    # stream 1: "functional" operators — children built from the arguments or from clones of them, with EVERY combination
    # of returned-object identity ((a,b) (n,b) (a,n) (n,n') and the four swapped orders) x mutation in place / on a copy
    for rep in REPS:
        for code in range(8):
            for uw in (None, "pure"):
                for fn, prs in (("and", [(1.0, 1.0), (0.5, 0.5)]), ("or", [(1.0, 0.0), (0.5, 0.5)])):
                    for pr in prs:
                        d = mk_case(rng, fn, rep, rng.choice([2, 3, 4, 5]), pr, wrap=False, composed=False,
                                    lam=rng.choice([2, 3, 5]))
                        d["mwrap"], d["uwrap"], d["limit"] = "id", uw, code
                        yield d
    # stream 2: every representation x every operator pair x the extreme probabilities x small sizes: the trace replay
    # (scripted operators) and, where the operators have a model, the composed replay (model operators), plain and
    # decorated with gp.staticLimit
    for rep in REPS:
        mates, muts = OPS[rep]
        for mate in mates:
            for mutate in muts:
                for pr in extremes:
                    for n in range(0, 5 if thorough else 4):
                        yield mk_case(rng, "and", rep, n, pr, mate, mutate, wrap=False, composed=False)
                        if n >= 1 and pr != (0.0, 0.0):
                            yield mk_case(rng, "and", rep, n, pr, mate, mutate, wrap=True, composed=False)
                        if pr != (1.0, 1.0) or n == 2:
                            yield mk_case(rng, "or", rep, n, pr, mate, mutate, lam=rng.choice([1, 2, 3, 5]),
                                          wrap=(n >= 2 and rng.random() < 0.5), composed=False)
                        if n >= 2 and pr != (0.0, 0.0) and rep in COMPOSED_FMT and mutate in COMPOSED_MUT[rep]:
                            lim = ("treelim" if rep == "tree" else "lim") if rep != "es" and n == 3 else False
                            yield mk_case(rng, "and", rep, n, pr, mate, mutate, wrap=lim, composed=True)
                            if pr != (1.0, 1.0):
                                yield mk_case(rng, "or", rep, n, pr, mate, mutate, lam=rng.choice([2, 3, 5]), wrap=lim,
                                              composed=True)
    for _ in range((150000 if thorough else 5000) * mult):
        yield mk_case(rng)


def shrink(d):
    if d.get("fn") in ("hist", "seq"):
        from props import c02_hist, c02_seq
        for e in (c02_hist if d["fn"] == "hist" else c02_seq).shrink(d):
            yield e
        return

    def ok(e):
        return not excluded(e)
    # drop one population position
    for i in range(len(d["pop"])):
        e = dict(d)
        e["pop"] = d["pop"][:i] + d["pop"][i + 1:]
        if ok(e):
            yield e
    # drop objects that are not in the population (re-index)
    used = sorted(set(d["pop"]))
    if len(used) < len(d["inds"]):
        ren = {o: k for k, o in enumerate(used)}
        e = dict(d)
        e["inds"] = [d["inds"][o] for o in used]
        e["pop"] = [ren[o] for o in d["pop"]]
        yield e
    if d.get("lam", 0) > 1:
        e = dict(d)
        e["lam"] = d["lam"] - 1
        yield e
    if d.get("bias"):
        e = dict(d)
        e["bias"] = False
        yield e
    for key in ("mwrap", "uwrap"):
        if d.get(key):
            e = dict(d)
            e[key] = None
            yield e
    for i, s in enumerate(d["inds"]):
        if s.get("extra"):
            e = dict(d)
            e["inds"] = [dict(x) for x in d["inds"]]
            del e["inds"][i]["extra"]
            yield e
    for key in ("cxpb", "mutpb"):
        for v in (0.0, 1.0):
            if d[key] != v:
                e = dict(d)
                e[key] = v
                if e["fn"] == "or" and e["cxpb"] + e["mutpb"] > 1.0:
                    continue
                if ok(e):
                    yield e


def classify(desc, msg, known):
    return None
