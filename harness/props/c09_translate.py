"""C09 — the translator tie: `translate(repo)` for harness/lib.py::_translated_obligations.

Reads deap/tools/crossover.py and deap/tools/mutation.py of `repo` AS THEY ARE NOW, renders every target function of
C09 that the sub-language of harness/py2lean_c09.py reaches as a Lean definition `Gen.<name>` (state passing over an
explicit tape) and appends the committed theorems of lean/DeapModel/GenEq/C09.lean.tmpl
(`Gen.<name> … tape = if <…Ok guard> then some (CrossMut.<name> … draws, rest of the tape) else none`).
A function that has a theorem block in the template but is no longer translatable is a PROBLEM (the tie is broken), a
function without a block is only listed."""
import os
import re
import subprocess
import tempfile

import py2lean
import py2lean_c09
from py2lean import I, L, Refuse
from py2lean_c09 import ES, G, R

HERE = os.path.dirname(os.path.abspath(__file__))
LEAN_DIR = os.path.normpath(os.path.join(HERE, "..", "..", "lean"))
TEMPLATE = os.path.join(LEAN_DIR, "DeapModel", "GenEq", "C09.lean.tmpl")

# parameter types: an assumption of the tie (individuals are lists of opaque genes, index individuals lists of ints,
# ES individuals a list with a `.strategy` list, indpb a probability compared with random())
LG2 = {"ind1": L(G), "ind2": L(G)}
LI2 = {"ind1": L(I), "ind2": L(I)}
MODULES = [
    ("deap/tools/crossover.py", {
        "cxOnePoint": LG2, "cxTwoPoint": LG2, "cxTwoPoints": LG2, "cxMessyOnePoint": LG2,
        "cxUniform": dict(LG2, indpb=R),
        "cxPartialyMatched": LI2, "cxUniformPartialyMatched": dict(LI2, indpb=R), "cxOrdered": LI2,
        "cxESTwoPoint": {"ind1": ES, "ind2": ES}, "cxESTwoPoints": {"ind1": ES, "ind2": ES},
    }),
    ("deap/tools/mutation.py", {
        "mutShuffleIndexes": {"individual": L(G), "indpb": R},
        "mutFlipBit": {"individual": L(G), "indpb": R},
        "mutUniformInt": {"individual": L(I), "low": I, "up": I, "indpb": R},
        "mutInversion": {"individual": L(G)},
    }),
]

HEADER = """import DeapModel.Lemmas.C09Gen

set_option linter.unusedVariables false
set_option linter.unusedSimpArgs false
set_option linter.unusedTactic false
set_option linter.unreachableTactic false
set_option linter.unusedSectionVars false

namespace Gen
variable {γ σ ρ : Type} [LT ρ] [DecidableLT ρ]

"""


def template_blocks():
    src = open(TEMPLATE).read()
    blocks, pre, cur, buf = {}, [], None, []
    for line in src.splitlines():
        m = re.match(r"^--! begin (\S+)\s*$", line)
        if m:
            cur, buf = m.group(1), []
            continue
        if re.match(r"^--! end\s*$", line):
            blocks[cur] = "\n".join(buf)
            cur = None
            continue
        (buf if cur is not None else pre).append(line)
    return "\n".join(pre), blocks


def theorem_names(text):
    return re.findall(r"^theorem\s+([\w.']+)", text, re.M)


def translate(repo, diagnose=True):
    problems, defs, refused, table = [], [], [], []
    pre, blocks = template_blocks()
    out = [HEADER]
    done, lost = [], []
    for rel, sigs in MODULES:
        path = os.path.join(repo, rel)
        try:
            mod = py2lean.Module(path)
        except (OSError, SyntaxError) as e:
            problems.append("%s unreadable: %s" % (rel, e))
            continue
        for name, sig in sigs.items():
            full = "Gen." + name
            if name not in mod.functions:
                table.append((rel, name, "absent", ""))
                if full in blocks:
                    lost.append(full)
                    problems.append("%s:%s no longer exists; its theorems %s cannot be checked" % (rel, name, theorem_names(blocks[full])))
                continue
            try:
                text, rty = py2lean_c09.translate_function(mod, name, sig, name)
            except Refuse as e:
                refused.append("%s:%s (%s)" % (rel, name, e))
                table.append((rel, name, "refused", str(e)))
                if full in blocks:
                    lost.append(full)
                    problems.append("%s:%s has left the translated sub-language (%s); its theorems %s cannot be checked"
                                    % (rel, name, e, theorem_names(blocks[full])))
                continue
            out.append("/-- `%s:%s` (line %d), regenerated from the source -/" % (rel, name, mod.functions[name].lineno))
            out.append(text)
            out.append("")
            defs.append(full)
            done.append(full)
            table.append((rel, name, "translated", "theorem" if full in blocks else "no theorem"))
    out.append("end Gen\n")
    out.append(pre)
    theorems = []
    for full in done:
        if full in blocks:
            out.append(blocks[full])
            theorems += theorem_names(blocks[full])
    source = "\n".join(out)
    return {"problems": problems, "source": source, "theorems": theorems, "definitions": defs, "refused": refused,
            "table": table}


def failing_theorems(source):
    """names of the theorems of `source` in whose text Lean reports an error (diagnostics only)"""
    d = tempfile.mkdtemp(prefix="deapverif-gendiag-")
    try:
        f = os.path.join(d, "GenEqDiag.lean")
        with open(f, "w") as fh:
            fh.write(source + "\n")
        p = subprocess.run(["lake", "env", "lean", f], cwd=LEAN_DIR, stdout=subprocess.PIPE, stderr=subprocess.STDOUT,
                           text=True, timeout=3000)
    finally:
        import shutil
        shutil.rmtree(d, ignore_errors=True)
    lines = source.split("\n")
    starts = [(k + 1, m.group(1)) for k, l in enumerate(lines) for m in [re.match(r"^(?:theorem|def|example)\s+([\w.']+)?", l)] if m]
    bad = []
    for m in re.finditer(r":(\d+):\d+: error", p.stdout):
        ln = int(m.group(1))
        owner = None
        for k, nm in starts:
            if k <= ln:
                owner = nm or "example"
        if owner and owner not in bad:
            bad.append(owner)
    return bad, p.stdout


def prelude_selftest():
    """differential test of Core/GenPreludeC09.lean (trusted base) against CPython: slice assignment and item
    assignment of lists at every bound in -7..7 / omitted, `[c] * n` (run by hand: `c09_translate.py --prelude-test`)"""
    base = [10, 11, 12, 13, 14]
    vals = [None] + list(range(-7, 8))
    opt = lambda v: "none" if v is None else "(some (%d))" % v
    lines, exp = ["import DeapModel.Core.GenPreludeC09", "def L : List Int := %s" % base], []
    for r in ([], [1, 2], [1, 2, 3, 4, 5, 6, 7]):
        for lo in vals:
            for hi in vals:
                lines.append("#eval GenC.sliceSet L %s %s %s" % (opt(lo), opt(hi), r))
                x = list(base)
                x[lo:hi] = r
                exp.append(str(x))
    for i in range(-7, 8):
        lines.append("#eval GenC.setIndex L (%d) 99" % i)
        x = list(base)
        try:
            x[i] = 99
            exp.append("some %s" % x)
        except IndexError:
            exp.append("none")
    for n in range(-2, 4):
        lines.append("#eval GenC.replicate (%d) (7 : Int)" % n)
        exp.append(str([7] * n))
    with tempfile.TemporaryDirectory() as d:
        f = os.path.join(d, "Pre.lean")
        open(f, "w").write("\n".join(lines) + "\n")
        out = subprocess.run(["lake", "env", "lean", f], cwd=LEAN_DIR, capture_output=True, text=True).stdout.strip().split("\n")
    bad = [(l, a, b) for l, a, b in zip(lines[2:], out, exp) if a.replace(" ", "") != b.replace(" ", "")]
    return len(exp), len(out), bad


if __name__ == "__main__":
    import sys
    if "--prelude-test" in sys.argv:
        n, m, bad = prelude_selftest()
        print("prelude self-test: %d cases, %d answers, %d differences %s" % (n, m, len(bad), bad[:5]))
        sys.exit(1 if bad or n != m else 0)
    r = translate(sys.argv[1] if len(sys.argv) > 1 else os.environ.get("DEAP_REPO", "/repo"))
    if len(sys.argv) > 2:
        open(sys.argv[2], "w").write(r["source"] + "\n" + "".join("#print axioms %s\n" % n for n in r["theorems"]))
    for row in r["table"]:
        print("%-28s %-26s %-10s %s" % row)
    print("problems:", r["problems"])
    print(len(r["definitions"]), "definitions,", len(r["theorems"]), "theorems,", len(r["refused"]), "refused")
    if "--check" in sys.argv:
        bad, out = failing_theorems(r["source"])
        print("failing:", bad)
        print(out[-3000:])
