#!/venv/bin/python
"""import_benign.py <srcdir> — store behaviour-preserving rewrites written by a sub-agent as /verif/benign/<id>/.

<srcdir>/Cxx-b<i>/{patch.diff, notes.md}.  A rewrite is kept when it applies to /repo's HEAD (checked in a scratch
worktree by pseedtest --benign later); meta.json names the property whose check must stay silent on it."""
import json
import os
import re
import shutil
import sys

VERIF = os.path.dirname(os.path.dirname(os.path.abspath(__file__)))


def main():
    src = sys.argv[1]
    for m in sorted(os.listdir(src)):
        mm = re.match(r"(C\d\d)-b\d+$", m)
        d = os.path.join(src, m)
        if not mm or not os.path.exists(os.path.join(d, "patch.diff")):
            continue
        dst = os.path.join(VERIF, "benign", m)
        os.makedirs(dst, exist_ok=True)
        shutil.copy(os.path.join(d, "patch.diff"), os.path.join(dst, "patch.diff"))
        notes = ""
        if os.path.exists(os.path.join(d, "notes.md")):
            shutil.copy(os.path.join(d, "notes.md"), os.path.join(dst, "notes.md"))
            notes = open(os.path.join(d, "notes.md")).read()
        json.dump({"property": mm.group(1),
                   "origin": "independent sub-agent asked for a behaviour-preserving rewrite of the anchored code "
                             "(same results, same mutations, same exceptions, same random draws)",
                   "what": notes.strip().split("\n")[0][:300]}, open(os.path.join(dst, "meta.json"), "w"), indent=1)
        print("imported", m)
    return 0


if __name__ == "__main__":
    sys.exit(main())
