"""Recording / forcing of the random draws DEAP makes (no hook in /repo: the module attributes of
`random` are replaced inside the harness process only, for the duration of a `with` block).

A *tape* is the list of draws in call order, each a tuple:
    ("random", x)                 x = result (float)
    ("uniform", a, b, x)
    ("randint", a, b, x)          inclusive bounds, x = result
    ("randrange", args, x)
    ("choice", n, i)              n = len(seq), i = index of the chosen element
    ("sample", n, k, [i...])      indices of the sampled elements, in order
    ("shuffle", n, [p...])        new_seq[j] = old_seq[p[j]]
    ("gauss", mu, sigma, x)
    ("np.standard_normal"/"np.randn"/"np.rand", shape, flat list of results)
Recording mode draws from `rng` (a random.Random); forcing mode pops the given draws instead and
raises TapeExhausted when none is left / TapeMismatch when the code asks for another kind."""
import random as _random


class TapeExhausted(Exception):
    pass


class TapeMismatch(Exception):
    pass


class Tape(object):
    NAMES = ("random", "uniform", "randint", "randrange", "choice", "sample", "shuffle", "gauss")

    def __init__(self, rng=None, forced=None, numpy_too=False):
        self.rng = rng or _random.Random(0)
        self.forced = list(forced) if forced is not None else None
        self.draws = []
        self.numpy_too = numpy_too
        self._saved = {}

    # -- plumbing -------------------------------------------------------------------------
    def _next(self, kind):
        if self.forced is None:
            return None
        if not self.forced:
            raise TapeExhausted(kind)
        d = self.forced.pop(0)
        if d[0] != kind:
            raise TapeMismatch("code asked for %s, tape has %s" % (kind, d[0]))
        return d

    def __enter__(self):
        for n in self.NAMES:
            self._saved[n] = getattr(_random, n)
            setattr(_random, n, getattr(self, "_" + n))
        if self.numpy_too:
            import numpy
            for n in ("standard_normal", "randn", "rand"):
                self._saved["np." + n] = getattr(numpy.random, n)
                setattr(numpy.random, n, getattr(self, "_np_" + n))
        return self

    def __exit__(self, *a):
        for n in self.NAMES:
            setattr(_random, n, self._saved[n])
        if self.numpy_too:
            import numpy
            for n in ("standard_normal", "randn", "rand"):
                setattr(numpy.random, n, self._saved["np." + n])
        return False

    # -- the replaced functions -----------------------------------------------------------
    def _random(self):
        d = self._next("random")
        x = d[1] if d else self.rng.random()
        self.draws.append(("random", x))
        return x

    def _uniform(self, a, b):
        d = self._next("uniform")
        x = d[3] if d else a + (b - a) * self.rng.random()
        self.draws.append(("uniform", a, b, x))
        return x

    def _randint(self, a, b):
        d = self._next("randint")
        x = d[3] if d else self.rng.randint(a, b)
        if d and not (a <= x <= b):
            raise TapeMismatch("forced randint %r outside [%r,%r]" % (x, a, b))
        self.draws.append(("randint", a, b, x))
        return x

    def _randrange(self, *args):
        d = self._next("randrange")
        x = d[2] if d else self.rng.randrange(*args)
        self.draws.append(("randrange", list(args), x))
        return x

    def _choice(self, seq):
        n = len(seq)
        d = self._next("choice")
        if n == 0:
            raise IndexError("Cannot choose from an empty sequence")
        i = d[2] if d else self.rng.randrange(n)
        if d and not (0 <= i < n):
            raise TapeMismatch("forced choice index out of range")
        self.draws.append(("choice", n, i))
        return seq[i]

    def _sample(self, population, k):
        population = list(population) if not hasattr(population, "__getitem__") else population
        n = len(population)
        d = self._next("sample")
        if k > n or k < 0:
            raise ValueError("Sample larger than population or is negative")
        idx = list(d[3]) if d else self.rng.sample(range(n), k)
        self.draws.append(("sample", n, k, idx))
        return [population[i] for i in idx]

    def _shuffle(self, x):
        n = len(x)
        d = self._next("shuffle")
        if d:
            perm = list(d[2])
        else:
            perm = list(range(n))
            self.rng.shuffle(perm)
        old = [x[i] for i in range(n)]
        for j in range(n):
            x[j] = old[perm[j]]
        self.draws.append(("shuffle", n, perm))

    def _gauss(self, mu, sigma):
        d = self._next("gauss")
        x = d[3] if d else self.rng.gauss(mu, sigma)
        self.draws.append(("gauss", mu, sigma, x))
        return x

    # -- numpy ------------------------------------------------------------------------------
    def _np_draw(self, kind, shape, gen):
        import numpy
        d = self._next(kind)
        size = 1
        for s in shape:
            size *= s
        flat = list(d[2]) if d else [gen() for _ in range(size)]
        self.draws.append((kind, list(shape), flat))
        arr = numpy.array(flat, dtype=float).reshape(shape) if shape else float(flat[0])
        return arr

    def _np_standard_normal(self, size=None):
        shape = () if size is None else ((size,) if isinstance(size, int) else tuple(size))
        return self._np_draw("np.standard_normal", shape, lambda: self.rng.gauss(0.0, 1.0))

    def _np_randn(self, *shape):
        return self._np_draw("np.randn", tuple(shape), lambda: self.rng.gauss(0.0, 1.0))

    def _np_rand(self, *shape):
        return self._np_draw("np.rand", tuple(shape), self.rng.random)


def float_bits(x):
    """64-bit pattern of a double as a decimal string (Lean side: Float.ofBits)."""
    import struct
    return str(struct.unpack("<Q", struct.pack("<d", float(x)))[0])
