"""py2lean_c02 — translator of the TOOLBOX-LOOP sub-language of Python (deap/algorithms.py varAnd / varOr and helpers written
in their style) to Lean 4 definitions `Gen.<f>`, used by the C02 check as the TRANSLATOR TIE: the function bodies are re-read
from $DEAP_REPO's current source on every run, rendered, and the committed theorems of lean/DeapModel/GenEq/C02.lean.tmpl
(`Gen.<f>` = the hand-written model of lean/DeapModel/Core/Variation.lean composed with its own draw decoders) are re-checked by
the Lean kernel.

THIS DOCSTRING IS THE TRANSLATOR'S TRUSTED BASE: the sub-language and the rendering rules.  Everything not listed is REFUSED
(`py2lean.Refuse`), never guessed.  The Lean helpers the rendering uses are lean/DeapModel/Core/GenPreludeC02.lean (`GenV.*`).

What a translated function is.  A state-passing action `GenV.M σ R = GSt σ → Option (R × GSt σ)`: it reads and writes the
operators' private state, the heap of individuals with the fresh-oid counter and the call log (`Variation.St`), and the list of
not yet consumed results of the `random` module (`Variation.Draw`, in call order); `none` = the Python code raises (or the
recorded draws do not fit the calls made).  Statements are sequenced with `GenV.bind` in source order; sub-expressions with an
effect are evaluated in Python's order (operands left to right, arguments before the call) and bound to fresh temporaries.

Value types        individual (a reference) -> oid `Nat`      list of individuals -> `List Nat`      float -> `Float` (IEEE, Lean's)
                   lambda_-like count -> `Nat` (assumed non-negative)     condition -> decidable Prop
Parameter types    come from the caller-supplied signature table (population: list of individuals, cxpb/mutpb: float,
                   lambda_: count, toolbox: the toolbox); for a helper of the same module: from the arguments of its first call.
The toolbox        the parameter `toolbox` is rendered as `ops : Variation.Ops σ` — the registered operators are abstract
                   parameters exactly as in the model:
  toolbox.clone(x)            `GenV.clone x`   = the model's `Variation.clone` (copy.deepcopy: a fresh oid with equal content)
  a, b = toolbox.mate(x, y)   `GenV.mate ops x y` (the operator's heap transformer, logged) — only as the value of a
                              two-target assignment (the operator returns a pair, as `MateRes` of the model)
  a, = toolbox.mutate(x)      `GenV.mutate ops x` — only as the value of a one-target assignment
  (toolbox.select / evaluate / map and everything else of the toolbox: refused here)
Randomness         a call of the module `random` (the module must `import random`, the name must not be rebound) reads the next
                   entry of the draw tape as `Core/Variation.lean` records it:
  random.random()             `GenV.random`        next draw must be `Draw.rnd x`; the float x
  random.sample(pop, 2)       `GenV.sample2 pop`   next draw `Draw.sample i j`, i ≠ j, both inside pop; the list [pop[i], pop[j]]
  random.choice(pop)          `GenV.choice pop`    next draw `Draw.choice i`, inside pop; pop[i]
  (randint / shuffle / uniform / gauss / sample with another k: refused — the target functions do not call them)
Expressions        names (parameters, locals); float literal written `digits.digits` with at most 15 significant digits ->
                   the same Lean literal; `a + b`, `a - b` on floats; ONE comparison `< <= > >=` on floats (`a > b` is `b < a`);
                   `not c`; `len(x)` -> `x.length`; `[]`; `[E for v in seq]` (one `for`, no `if`, seq a list of
                   individuals, E of type individual, may have effects) -> `GenV.mapM (fun v => E) seq` (in order);
                   a call `f(args…)` of a function of the same module that is itself translatable -> the action `Gen.f args…`.
`del x.fitness.values`  `GenV.delFit x` = the model's invalidate; several targets in one `del`: left to right.
Statements         docstring; `assert c[, msg]` -> `if c then … else GenV.fail`; `v = e`; `a, b = e` / `a, = e` (targets: names or
                   the loop cells below; the value a mate / mutate call as above, or a list of individuals -> `GenV.unpack2` /
                   `GenV.unpack1`, ValueError = none); `lst.append(e)` -> `lst ++ [e]`; `return e`;
                   `if / elif / else` (the rest of the block is duplicated into both branches); `continue` (loop bodies).
In-place mutation  of a LIST argument/local is rendered in state-passing style — the loop yields the new content of the cells it
                   assigns (list semantics; numpy views are outside this rendering, the Buffer model of C09 covers them):
  for i in range(1, len(X), 2): BODY     BODY may reach X only as `X[i - 1]` and `X[i]` (read, or assigned: alone, or as the
                                         targets of ONE tuple assignment `X[i - 1], X[i] = …`, Python's RHS-first order) and
                                         may use `i` only there -> `GenV.forPairs (fun c_m1 c_0 => BODY) X`: BODY runs on
                                         each adjacent pair in order and yields the two cells; a trailing element is untouched.
                                         = the model's pairwise update.
  for i in range(len(X)): BODY           BODY reaches X only as `X[i]` -> `GenV.forEach (fun c_0 => BODY) X`.
  for _ in range(n): BODY                n a count or `len(x)`; the loop variable is not used; on EVERY path BODY ends with
                                         exactly one `L.append(e)` to one list L defined before the loop and does not reach L
                                         otherwise -> `L ++ (GenV.repeatM BODY n)`.
                   In all three a BODY must not assign a variable defined outside the loop, `return` or `break`.
REFUSED, e.g.      while, try, with, classes, nested defs, lambda, global/nonlocal, *args/**kwargs, keyword arguments, default
                   values that are used, attribute access other than the ones listed, strings (outside docstring / assert
                   message), None, `is`, `in`, chained comparisons, and/or, conditional expressions, slices, any index
                   expression other than the loop cells, enumerate / zip, any call not listed, recursion.
"""
import ast
import re

from py2lean import Refuse

O, LO, F, N, B, TB, PAIR, SINGLE = "O", "LO", "F", "N", "B", "TB", "PAIR", "SINGLE"
LEAN_TY = {O: "Nat", LO: "List Nat", F: "Float", N: "Nat"}


class Module:
    def __init__(self, path):
        self.path = path
        self.src = open(path).read()
        self.tree = ast.parse(self.src)
        self.functions = {n.name: n for n in self.tree.body if isinstance(n, ast.FunctionDef)}
        self.imports_random = any(isinstance(n, ast.Import) and any(a.name == "random" and a.asname is None for a in n.names)
                                  for n in self.tree.body)
        self.done = {}          # name -> (text, ret type, [param types])
        self.order = []         # names in emission order (helpers before their callers)
        self.active = []


def _is_name(node, name=None):
    return isinstance(node, ast.Name) and (name is None or node.id == name)


class FnT:
    def __init__(self, mod, name, sig):
        self.mod, self.name, self.fn = mod, name, mod.functions[name]
        self.sig = sig
        self.k = 0
        self.ret_ty = None

    def fresh(self):
        self.k += 1
        return "t%d" % self.k

    # ---------------------------------------------------------------- function
    def run(self):
        fn = self.fn
        a = fn.args
        if a.vararg or a.kwarg or a.kwonlyargs or a.posonlyargs or fn.decorator_list:
            raise Refuse("signature outside the sub-language")
        if a.defaults:
            raise Refuse("default parameter values")
        env, params = {}, []
        for p in a.args:
            if p.arg not in self.sig:
                raise Refuse("no type for parameter %r" % p.arg)
            ty = self.sig[p.arg]
            if ty == TB:
                env[p.arg] = ("ops", TB)
                params.append("(ops : Ops σ)")
            else:
                env[p.arg] = ("v_" + p.arg, ty)
                params.append("(v_%s : %s)" % (p.arg, LEAN_TY[ty]))
        if "random" in env or self._assigns("random"):
            raise Refuse("the name `random` is rebound")
        body = self.block(list(fn.body), env, {"mode": "fn"}, 1)
        if self.ret_ty is None:
            raise Refuse("no return")
        head = "def %s {σ : Type} %s : GenV.M σ (%s) :=" % (self.name, " ".join(params), LEAN_TY[self.ret_ty])
        return head + "\n" + body, self.ret_ty

    def _assigns(self, name):
        for n in ast.walk(self.fn):
            if isinstance(n, ast.Name) and n.id == name and isinstance(n.ctx, (ast.Store, ast.Del)):
                return True
        return False

    # ---------------------------------------------------------------- blocks
    def ind(self, d):
        return "  " * d

    def emit_binds(self, binds, d):
        return "".join("%sGenV.bind (%s) fun %s =>\n" % (self.ind(d), m, v) for v, m in binds)

    def tail(self, env, ctx, d):
        """what a path yields when it falls off the end of its block"""
        mode = ctx["mode"]
        if mode == "fn":
            raise Refuse("a path ends without `return`")
        if mode == "repeat":
            raise Refuse("a path of the loop body does not end with the one `append`")
        cells = ctx["cells"]
        if mode == "pairs":
            return "%sGenV.pure (%s, %s)" % (self.ind(d), cells[0], cells[1])
        return "%sGenV.pure %s" % (self.ind(d), cells[0])

    def block(self, stmts, env, ctx, d):
        if not stmts:
            return self.tail(env, ctx, d)
        s, rest = stmts[0], stmts[1:]
        I = self.ind(d)
        if isinstance(s, ast.Expr) and isinstance(s.value, ast.Constant) and isinstance(s.value.value, str):
            return self.block(rest, env, ctx, d)                      # docstring
        if isinstance(s, ast.Assert):
            binds, c, ty = self.expr(s.test, env, ctx)
            if ty != B:
                raise Refuse("assert of a non-condition")
            if s.msg is not None and not (isinstance(s.msg, ast.Constant) and isinstance(s.msg.value, str)):
                raise Refuse("assert message with an effect")
            return (self.emit_binds(binds, d) + "%sif %s then\n%s\n%selse GenV.fail" % (I, c, self.block(rest, env, ctx, d + 1), I))
        if isinstance(s, ast.Return):
            if ctx["mode"] != "fn":
                raise Refuse("return inside a loop")
            if s.value is None:
                raise Refuse("return without a value")
            binds, t, ty = self.expr(s.value, env, ctx)
            if ty not in (O, LO):
                raise Refuse("return of a value that is no individual / list of individuals")
            if self.ret_ty not in (None, ty):
                raise Refuse("returns of different types")
            self.ret_ty = ty
            return self.emit_binds(binds, d) + "%sGenV.pure %s" % (I, t)
        if isinstance(s, ast.Continue):
            if ctx["mode"] not in ("pairs", "each"):
                raise Refuse("continue outside a cell loop")
            return self.tail(env, ctx, d)
        if isinstance(s, ast.If):
            binds, c, ty = self.expr(s.test, env, ctx)
            if ty != B:
                raise Refuse("if on a non-condition")
            return (self.emit_binds(binds, d) + "%sif %s then\n%s\n%selse\n%s" % (
                I, c, self.block(list(s.body) + rest, dict(env), ctx, d + 1), I,
                self.block(list(s.orelse) + rest, dict(env), ctx, d + 1)))
        if isinstance(s, ast.Delete):
            out = ""
            for tg in s.targets:
                if not (isinstance(tg, ast.Attribute) and tg.attr == "values" and isinstance(tg.value, ast.Attribute)
                        and tg.value.attr == "fitness"):
                    raise Refuse("del of something other than <individual>.fitness.values")
                binds, t, ty = self.expr(tg.value.value, env, ctx)
                if ty != O:
                    raise Refuse("del .fitness.values of a non-individual")
                out += self.emit_binds(binds, d) + "%sGenV.bind (GenV.delFit %s) fun _ =>\n" % (I, t)
            return out + self.block(rest, env, ctx, d)
        if isinstance(s, ast.Expr) and isinstance(s.value, ast.Call) and isinstance(s.value.func, ast.Attribute) \
                and s.value.func.attr == "append" and _is_name(s.value.func.value):
            lst = s.value.func.value.id
            if len(s.value.args) != 1 or s.value.keywords:
                raise Refuse("append with other than one argument")
            if ctx["mode"] == "repeat" and lst in ctx["outer"]:
                if rest:
                    raise Refuse("statements after the loop body's append")
                if ctx["outer"][lst][1] != LO:
                    raise Refuse("append to a non-list")
                if ctx.get("target") not in (None, lst):
                    raise Refuse("the loop body appends to two lists")
                ctx["target"] = lst
                binds, t, ty = self.expr(s.value.args[0], env, ctx)
                if ty != O:
                    raise Refuse("append of a non-individual")
                return self.emit_binds(binds, d) + "%sGenV.pure %s" % (I, t)
            self.check_store(lst, ctx)
            if lst not in env or env[lst][1] != LO:
                raise Refuse("append to %r which is no list of individuals" % lst)
            binds, t, ty = self.expr(s.value.args[0], env, ctx)
            if ty != O:
                raise Refuse("append of a non-individual")
            ln = env[lst][0]
            env[lst] = (ln, LO)
            return self.emit_binds(binds, d) + "%slet %s := %s ++ [%s]\n" % (I, ln, ln, t) + self.block(rest, env, ctx, d)
        if isinstance(s, ast.Assign):
            if len(s.targets) != 1:
                raise Refuse("chained assignment")
            return self.assign(s.targets[0], s.value, env, ctx, d) + self.block(rest, env, ctx, d)
        if isinstance(s, ast.For):
            return self.loop(s, rest, env, ctx, d)
        raise Refuse("statement %s" % type(s).__name__)

    def check_store(self, name, ctx):
        if ctx["mode"] != "fn" and name in ctx["outer"]:
            raise Refuse("the loop body assigns %r, defined outside the loop" % name)
        if ctx["mode"] != "fn" and name in (ctx.get("loopvar"), ctx.get("X")):
            raise Refuse("the loop body assigns %r" % name)

    # ---------------------------------------------------------------- assignment
    def lvalue(self, tg, env, ctx):
        """Lean variable an assignment target denotes; registers it"""
        if isinstance(tg, ast.Name):
            self.check_store(tg.id, ctx)
            return ("name", tg.id)
        if isinstance(tg, ast.Subscript):
            c = self.cell(tg, ctx)
            if c is not None:
                return ("cell", c)
        raise Refuse("assignment target outside the sub-language")

    def store(self, lv, term, ty, env, ctx, d):
        I = self.ind(d)
        if lv[0] == "cell":
            if ty != O:
                raise Refuse("a list cell is assigned a non-individual")
            return "%slet %s := %s\n" % (I, ctx["cells"][lv[1]], term)
        if ty not in (O, LO, F, N):
            raise Refuse("assignment of a value of type %s" % ty)
        ln = "v_" + lv[1]
        env[lv[1]] = (ln, ty)
        if ty == LO and term == "[]":
            return "%slet %s : List Nat := []\n" % (I, ln)
        return "%slet %s := %s\n" % (I, ln, term)

    def assign(self, tg, value, env, ctx, d):
        I = self.ind(d)
        if isinstance(tg, (ast.Tuple, ast.List)):
            lvs = [self.lvalue(e, env, ctx) for e in tg.elts]
            if len(set(lvs)) != len(lvs):
                raise Refuse("one target twice in a tuple assignment")
            binds, t, ty = self.expr(value, env, ctx, unpack=len(lvs))
            out = self.emit_binds(binds, d)
            if len(lvs) == 2:
                if ty == LO:
                    u = self.fresh()
                    out += "%sGenV.bind (GenV.unpack2 %s) fun %s =>\n" % (I, t, u)
                    t = u
                elif ty != PAIR:
                    raise Refuse("two targets for a value that is no pair")
                # RHS first, then the targets left to right: both components are read from the temporary
                return out + self.store(lvs[0], t + ".1", O, env, ctx, d) + self.store(lvs[1], t + ".2", O, env, ctx, d)
            if len(lvs) == 1:
                if ty == LO:
                    u = self.fresh()
                    out += "%sGenV.bind (GenV.unpack1 %s) fun %s =>\n" % (I, t, u)
                    t = u
                elif ty != SINGLE:
                    raise Refuse("one-target unpacking of a value that is no 1-tuple")
                return out + self.store(lvs[0], t, O, env, ctx, d)
            raise Refuse("unpacking into %d targets" % len(lvs))
        lv = self.lvalue(tg, env, ctx)
        binds, t, ty = self.expr(value, env, ctx)
        return self.emit_binds(binds, d) + self.store(lv, t, ty, env, ctx, d)

    # ---------------------------------------------------------------- loops
    def cell(self, node, ctx):
        """index of the loop cell `X[i - 1]` / `X[i]` denotes, None if it is not one"""
        if ctx["mode"] not in ("pairs", "each") or not _is_name(node.value, ctx["X"]):
            return None
        ix = node.slice
        if _is_name(ix, ctx["loopvar"]):
            return 1 if ctx["mode"] == "pairs" else 0
        if ctx["mode"] == "pairs" and isinstance(ix, ast.BinOp) and isinstance(ix.op, ast.Sub) and _is_name(ix.left, ctx["loopvar"]) \
                and isinstance(ix.right, ast.Constant) and ix.right.value == 1 and type(ix.right.value) is int:
            return 0
        return None

    def loop(self, s, rest, env, ctx, d):
        I = self.ind(d)
        if ctx["mode"] != "fn":
            raise Refuse("nested loop")
        if s.orelse or not _is_name(s.target):
            raise Refuse("for/else or a structured loop variable")
        it = s.iter
        if not (isinstance(it, ast.Call) and _is_name(it.func, "range") and not it.keywords) or "range" in env:
            raise Refuse("for over something other than range(…)")
        var = s.target.id
        if var in env:
            raise Refuse("the loop variable re-uses the name %r" % var)
        for st in rest:                 # the value the variable keeps after the loop is not rendered
            rebinds = isinstance(st, ast.For) and _is_name(st.target, var)
            scan = [st.iter] if rebinds else [st]
            if any(isinstance(n, ast.Name) and n.id == var for x in scan for n in ast.walk(x)):
                raise Refuse("the loop variable is used after its loop")
            if rebinds:
                break

        def len_of(node):
            if isinstance(node, ast.Call) and _is_name(node.func, "len") and len(node.args) == 1 and not node.keywords \
                    and _is_name(node.args[0]) and "len" not in env:
                nm = node.args[0].id
                if nm in env and env[nm][1] == LO:
                    return nm
            return None

        def const(node, v):
            return isinstance(node, ast.Constant) and type(node.value) is int and node.value == v

        a = it.args
        shape = None
        if len(a) == 3 and const(a[0], 1) and const(a[2], 2) and len_of(a[1]):
            shape, X = "pairs", len_of(a[1])
        elif len(a) == 1 and len_of(a[0]) and self.uses_cells(s.body, len_of(a[0]), var):
            shape, X = "each", len_of(a[0])
        elif len(a) == 1:
            shape, X = "repeat", None
        else:
            raise Refuse("range(…) of a shape that is not rendered")
        if shape in ("pairs", "each"):
            ln = env[X][0]
            cells = ["c_%s_m1" % X, "c_%s_0" % X] if shape == "pairs" else ["c_%s_0" % X]
            bctx = {"mode": shape, "X": X, "loopvar": var, "cells": cells, "outer": dict(env)}
            benv = dict(env)
            body = self.block(list(s.body), benv, bctx, d + 2)
            comb = "GenV.forPairs" if shape == "pairs" else "GenV.forEach"
            out = "%sGenV.bind (%s (fun %s =>\n%s) %s) fun %s =>\n" % (I, comb, " ".join(cells), body, ln, ln)
            return out + self.block(rest, env, ctx, d)
        # repeat
        if len_of(a[0]):
            n = "%s.length" % env[len_of(a[0])][0]
        else:
            binds, n, ty = self.expr(a[0], env, ctx)
            if binds or ty != N:
                raise Refuse("range(n) with n that is no count")
        bctx = {"mode": "repeat", "X": None, "loopvar": var, "outer": dict(env), "target": None}
        body = self.block(list(s.body), dict(env), bctx, d + 2)
        lst = bctx["target"]
        if lst is None:
            raise Refuse("the loop body never appends")
        ln = env[lst][0]
        t = self.fresh()
        out = "%sGenV.bind (GenV.repeatM (\n%s) %s) fun %s =>\n%slet %s := %s ++ %s\n" % (I, body, n, t, I, ln, ln, t)
        return out + self.block(rest, env, ctx, d)

    def uses_cells(self, body, X, var):
        return any(isinstance(n, ast.Subscript) and _is_name(n.value, X) for st in body for n in ast.walk(st))

    # ---------------------------------------------------------------- expressions
    def expr(self, node, env, ctx, unpack=None):
        """-> (binds [(lean var, action)], pure Lean term, type)"""
        if isinstance(node, ast.Name):
            if ctx["mode"] != "fn":
                if node.id == ctx.get("loopvar"):
                    raise Refuse("the loop variable is used outside the cell subscripts")
                if node.id == ctx.get("X") or (ctx["mode"] == "repeat" and node.id == ctx.get("target")):
                    raise Refuse("the loop body reaches %r other than through its cells" % node.id)
            if node.id not in env:
                raise Refuse("unknown name %r" % node.id)
            return [], env[node.id][0], env[node.id][1]
        if isinstance(node, ast.Constant):
            if type(node.value) is float:
                txt = ast.get_source_segment(self.mod.src, node) or ""
                if not re.fullmatch(r"\d+\.\d+", txt) or len(txt.replace(".", "").lstrip("0")) > 15 or float(txt) != node.value:
                    raise Refuse("float literal %r" % txt)
                return [], "(%s : Float)" % txt, F
            raise Refuse("constant %r" % (node.value,))
        if isinstance(node, ast.List) and not node.elts:
            return [], "[]", LO
        if isinstance(node, ast.Subscript):
            c = self.cell(node, ctx)
            if c is None:
                raise Refuse("index expression other than a loop cell")
            return [], ctx["cells"][c], O
        if isinstance(node, ast.BinOp) and isinstance(node.op, (ast.Add, ast.Sub)):
            b1, t1, ty1 = self.expr(node.left, env, ctx)
            b2, t2, ty2 = self.expr(node.right, env, ctx)
            if ty1 != F or ty2 != F:
                raise Refuse("+ / - on non-floats")
            return b1 + b2, "(%s %s %s)" % (t1, "+" if isinstance(node.op, ast.Add) else "-", t2), F
        if isinstance(node, ast.UnaryOp) and isinstance(node.op, ast.Not):
            b1, t1, ty1 = self.expr(node.operand, env, ctx)
            if ty1 != B:
                raise Refuse("not of a non-condition")
            return b1, "(¬ %s)" % t1, B
        if isinstance(node, ast.Compare):
            if len(node.ops) != 1:
                raise Refuse("chained comparison")
            b1, t1, ty1 = self.expr(node.left, env, ctx)
            b2, t2, ty2 = self.expr(node.comparators[0], env, ctx)
            if ty1 != F or ty2 != F:
                raise Refuse("comparison of non-floats")
            op = node.ops[0]
            if isinstance(op, ast.Lt):
                c = "%s < %s" % (t1, t2)
            elif isinstance(op, ast.LtE):
                c = "%s <= %s" % (t1, t2)
            elif isinstance(op, ast.Gt):
                c = "%s < %s" % (t2, t1)
            elif isinstance(op, ast.GtE):
                c = "%s <= %s" % (t2, t1)
            else:
                raise Refuse("comparison %s" % type(op).__name__)
            return b1 + b2, "(%s)" % c, B
        if isinstance(node, ast.ListComp):
            if len(node.generators) != 1:
                raise Refuse("nested comprehension")
            g = node.generators[0]
            if g.ifs or g.is_async or not _is_name(g.target):
                raise Refuse("comprehension with if / structured target")
            bs, seq, sty = self.expr(g.iter, env, ctx)
            if sty != LO:
                raise Refuse("comprehension over something that is no list of individuals")
            v = g.target.id
            if v in env:
                raise Refuse("the comprehension variable re-uses the name %r" % v)
            e2 = dict(env)
            e2[v] = ("v_" + v, O)
            be, te, tye = self.expr(node.elt, e2, ctx)
            if tye != O:
                raise Refuse("comprehension element that is no individual")
            inner = "".join("GenV.bind (%s) fun %s => " % (m, x) for x, m in be) + "GenV.pure %s" % te
            t = self.fresh()
            return bs + [(t, "GenV.mapM (fun v_%s => %s) %s" % (v, inner, seq))], t, LO
        if isinstance(node, ast.Call):
            return self.call(node, env, ctx, unpack)
        raise Refuse("expression %s" % type(node).__name__)

    def args(self, nodes, env, ctx, types):
        if len(nodes) != len(types):
            raise Refuse("wrong number of arguments")
        binds, terms = [], []
        for n, ty in zip(nodes, types):
            b, t, ty1 = self.expr(n, env, ctx)
            if ty1 != ty:
                raise Refuse("argument of type %s where %s is expected" % (ty1, ty))
            binds += b
            terms.append(t)
        return binds, terms

    def call(self, node, env, ctx, unpack):
        if node.keywords or any(isinstance(a, ast.Starred) for a in node.args):
            raise Refuse("keyword / starred arguments")
        f = node.func
        if isinstance(f, ast.Attribute) and _is_name(f.value):
            base = f.value.id
            if base in env and env[base][1] == TB:
                if f.attr == "clone":
                    b, ts = self.args(node.args, env, ctx, [O])
                    t = self.fresh()
                    return b + [(t, "GenV.clone %s" % ts[0])], t, O
                if f.attr == "mate":
                    if unpack != 2:
                        raise Refuse("toolbox.mate(…) not unpacked into two targets")
                    b, ts = self.args(node.args, env, ctx, [O, O])
                    t = self.fresh()
                    return b + [(t, "GenV.mate ops %s %s" % (ts[0], ts[1]))], t, PAIR
                if f.attr == "mutate":
                    if unpack != 1:
                        raise Refuse("toolbox.mutate(…) not unpacked into one target")
                    b, ts = self.args(node.args, env, ctx, [O])
                    t = self.fresh()
                    return b + [(t, "GenV.mutate ops %s" % ts[0])], t, SINGLE
                raise Refuse("toolbox.%s" % f.attr)
            if base == "random" and base not in env:
                if not self.mod.imports_random:
                    raise Refuse("`random` is not the imported module")
                t = self.fresh()
                if f.attr == "random" and not node.args:
                    return [(t, "GenV.random")], t, F
                if f.attr == "choice":
                    b, ts = self.args(node.args, env, ctx, [LO])
                    return b + [(t, "GenV.choice %s" % ts[0])], t, O
                if f.attr == "sample" and len(node.args) == 2 and isinstance(node.args[1], ast.Constant) \
                        and type(node.args[1].value) is int and node.args[1].value == 2:
                    b, ts = self.args(node.args[:1], env, ctx, [LO])
                    return b + [(t, "GenV.sample2 %s" % ts[0])], t, LO
                raise Refuse("random.%s(…)" % f.attr)
            raise Refuse("call of %s.%s" % (base, f.attr))
        if _is_name(f):
            if f.id in env:
                raise Refuse("call of a local")
            if f.id == "len":
                b, ts = self.args(node.args, env, ctx, [LO])
                return b, "%s.length" % ts[0], N
            if f.id in self.mod.functions:
                binds, terms, tys = [], [], []
                for a in node.args:
                    b, t, ty = self.expr(a, env, ctx)
                    if ty not in (O, LO, F, N, TB):
                        raise Refuse("argument of type %s" % ty)
                    binds += b
                    terms.append(t)
                    tys.append(ty)
                rty = translate_function(self.mod, f.id, None, tys)
                t = self.fresh()
                return binds + [(t, "%s %s" % ("Gen." + f.id, " ".join(terms)))], t, rty
        raise Refuse("call outside the sub-language")


def translate_function(mod, name, sig=None, arg_types=None):
    """renders `name` of `mod` (memoised in mod.done / mod.order); returns its result type"""
    if name in mod.done:
        text, rty, ptys = mod.done[name]
        if arg_types is not None and list(arg_types) != ptys:
            raise Refuse("%s is called with arguments of different types" % name)
        return rty
    if name in mod.active:
        raise Refuse("recursion through %s" % name)
    fn = mod.functions[name]
    if sig is None:
        if len(arg_types) != len(fn.args.args):
            raise Refuse("%s: wrong number of arguments" % name)
        sig = {p.arg: ty for p, ty in zip(fn.args.args, arg_types)}
    mod.active.append(name)
    try:
        text, rty = FnT(mod, name, sig).run()
    finally:
        mod.active.pop()
    mod.done[name] = (text, rty, [sig[p.arg] for p in fn.args.args])
    mod.order.append(name)
    return rty

