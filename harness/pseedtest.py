#!/venv/bin/python
"""pseedtest.py [-j N] [id ...] — parallel variant of seedtest.py.

Each worker owns a scratch git worktree of /repo's HEAD under /tmp (removed at the end) and a private
output directory (VERIF_OUT), applies one seeded patch there, runs the property's quick check with
DEAP_REPO pointing at the worktree, and reverts.  /repo itself and /verif/evidence are never touched, so
this can run while other work goes on.  The registered checks are the same code (harness/vcheck.py); only
the tree they look at differs.  Merges into seeded/RESULTS.json like seedtest.py."""
import json
import os
import shutil
import subprocess
import sys
import tempfile
import time
from concurrent.futures import ThreadPoolExecutor
import queue

VERIF = os.path.dirname(os.path.dirname(os.path.abspath(__file__)))
REPO = "/repo"


def sh(cmd, **kw):
    return subprocess.run(cmd, stdout=subprocess.PIPE, stderr=subprocess.STDOUT, text=True, **kw)


SUBDIR = "seeded"        # "benign" with --benign: behaviour-preserving rewrites, the checks must stay silent


def run_one(sid, wt, out):
    d = os.path.join(VERIF, SUBDIR, sid)
    meta = json.load(open(os.path.join(d, "meta.json")))
    props = meta.get("run_checks") or [meta["property"]]
    sh(["git", "-C", wt, "checkout", "--", "."])
    sh(["git", "-C", wt, "clean", "-fdq"])
    r = sh(["git", "-C", wt, "apply", os.path.join(d, "patch.diff")])
    if r.returncode != 0:
        return sid, {"error": "patch does not apply: " + r.stdout[-300:]}
    res = {}
    try:
        for pid in props:
            t0 = time.time()
            r = sh(["/venv/bin/python", os.path.join(VERIF, "harness", "vcheck.py"), pid, "--tier", "quick"],
                   cwd=VERIF, env=dict(os.environ, DEAP_REPO=wt, VERIF_OUT=out))
            vl = [l for l in r.stdout.splitlines() if l.startswith("VIOLATION")]
            res[pid] = {"exit": r.returncode, "violation_line": vl[0] if vl else None,
                        "wall_s": round(time.time() - t0, 1)}
            if vl and "replay=" in vl[0]:
                replay = vl[0].split("replay=")[1].split()[0]
                try:
                    data = json.load(open(replay))
                    res[pid]["replay_kind"] = data.get("kind")
                    res[pid]["replay_failure"] = str(data.get("failure", ""))[:300]
                except (OSError, ValueError):
                    pass
            print("%-28s %s exit=%d %s" % (sid, pid, r.returncode,
                                           (vl[0] if vl else r.stdout.strip().splitlines()[-1:] or "")), flush=True)
    finally:
        sh(["git", "-C", wt, "checkout", "--", "."])
        sh(["git", "-C", wt, "clean", "-fdq"])
    return sid, {"property": meta["property"], "checks": res,
                 "caught": any(v["exit"] == 1 and v["violation_line"] for v in res.values())}


def main():
    global SUBDIR
    args = sys.argv[1:]
    if args[:1] == ["--benign"]:
        SUBDIR = "benign"
        args = args[1:]
    jobs = 4
    if args[:1] == ["-j"]:
        jobs = int(args[1])
        args = args[2:]
    sd = os.path.join(VERIF, SUBDIR)
    ids = args or sorted(d for d in os.listdir(sd) if os.path.exists(os.path.join(sd, d, "patch.diff")))
    results = {}
    try:
        results = json.load(open(os.path.join(sd, "RESULTS.json")))
    except (OSError, ValueError):
        pass
    base = tempfile.mkdtemp(prefix="deapverif-pseed-")
    pool = queue.Queue()
    wts = []
    for k in range(jobs):
        wt = os.path.join(base, "wt%d" % k)
        r = sh(["git", "-C", REPO, "worktree", "add", "--detach", "-f", wt, "HEAD"])
        if r.returncode != 0:
            print(r.stdout)
            return 2
        out = os.path.join(base, "out%d" % k)
        os.makedirs(out)
        wts.append(wt)
        pool.put((wt, out))

    def task(sid):
        wt, out = pool.get()
        try:
            return run_one(sid, wt, out)
        finally:
            pool.put((wt, out))

    try:
        with ThreadPoolExecutor(jobs) as ex:
            for sid, res in ex.map(task, ids):
                results[sid] = res
    finally:
        for wt in wts:
            sh(["git", "-C", REPO, "worktree", "remove", "--force", wt])
        sh(["git", "-C", REPO, "worktree", "prune"])
        shutil.rmtree(base, ignore_errors=True)
    import fcntl
    with open(os.path.join(sd, ".results.lock"), "w") as lk:      # several pseedtest runs may finish together
        fcntl.flock(lk, fcntl.LOCK_EX)
        mine = dict((k, results[k]) for k in ids if k in results)
        try:
            results = json.load(open(os.path.join(sd, "RESULTS.json")))
        except (OSError, ValueError):
            results = {}
        results.update(mine)
        json.dump(results, open(os.path.join(sd, "RESULTS.json"), "w"), indent=1, sort_keys=True)
    if SUBDIR == "benign":
        loud = [k for k in ids if results[k].get("caught") or any(v.get("exit") for v in results[k].get("checks", {}).values())]
        print("benign rewrites: %d run, %d raised an alarm or failed: %s" % (len(ids), len(loud), loud))
        return 0
    missed = [k for k in ids if not results[k].get("caught")]
    print("this run: caught %d / %d; missed: %s" % (len(ids) - len(missed), len(ids), missed))
    allmissed = [k for k, v in results.items() if not v.get("caught")]
    print("overall: caught %d / %d; missed: %s" % (len(results) - len(allmissed), len(results), allmissed))
    return 0


if __name__ == "__main__":
    sys.exit(main())
