"""py2lean_c09 — translator of the IMPERATIVE, RANDOMISED list operators of deap/tools/crossover.py and
deap/tools/mutation.py (property C09) to Lean 4 definitions `Gen.<f>`, built on the expression compiler of
harness/py2lean.py (imported, not edited).

Used by the C09 check as the TRANSLATOR TIE: the bodies of the discrete crossovers / mutations are re-read from
$DEAP_REPO's current source on every run, rendered in STATE-PASSING style over an explicit random TAPE, and the
committed theorems `Gen.<f> … tape = <guard> ? some (CrossMut.<f> … draws, rest of the tape) : none`
(lean/DeapModel/GenEq/C09.lean.tmpl) are re-checked by the Lean kernel.

THIS DOCSTRING (with the one of harness/py2lean.py for the inherited int expressions) IS THE TRANSLATOR'S TRUSTED
BASE.  Everything not listed is REFUSED (`Refuse`), never guessed.  Lean helpers: lean/DeapModel/Core/GenPrelude.lean
(`Gen.slice / index / range / bound / nz`) and lean/DeapModel/Core/GenPreludeC09.lean (`GenC.*`).

Value types        int -> Int;  a result of random.random() and the parameter `indpb` -> ρ (any type with a decidable `<`);
                   a gene -> γ (opaque: genes are only moved; `Int` for the index individuals of PMX / UPMX / OX, from the
                   signature table); an element of `.strategy` -> σ;  bool only as a condition;  list -> List.
                   An exception (IndexError, ValueError of randint / randrange / sample on an empty range) and a draw the
                   random function cannot return -> `none`.
Objects            Every list is an OBJECT CELL; a Python name is bound to a cell (lists) or to a value (ints, floats).
                   `v = <name or x.strategy>` binds v to the SAME cell (aliasing is kept); a slice `x[a:b]`, `x[::-1]`,
                   `[c] * n`, `a + b` creates a NEW cell (copy semantics of `list` / `array.array` slices — numpy views are
                   OUTSIDE this rendering; the Buffer model + correspondence covers them).  The list parameters are
                   assumed to be pairwise different objects; an ES individual (signature type ES) is two cells, the
                   genes and `.strategy`.
State passing      the generated definition takes the contents of the list parameters and a tape, and returns
                   `some ((contents of the returned objects …), rest of the tape)`.  `return` must name parameter objects
                   (`return ind1, ind2`, `return individual,`, `return (individual,)`), pairwise different, and every
                   parameter object that was mutated must be among them — otherwise refused, so no effect is dropped.
Randomness         module `random` only (`import random`):  random.random() -> `GenC.random tp` (next element of
                   tape.rnd); random.randint(a, b) -> `GenC.randint tp a b` (next element v of tape.ints, `none` unless
                   a <= v <= b); random.randrange(n) -> `GenC.randrange tp n` (0 <= v < n);
                   `a, b = random.sample(range(n), 2)` -> `GenC.sample2 tp n` (two ints, different, both in [0, n)).
                   Each call binds the value and the NEXT tape; the tape is threaded in evaluation order.  This is the
                   interface of the `…R` models of Core/CrossMut.lean (`rs` = random() results, `vs` = integer draws).
Expressions        ints: literals, + - * // % (floor semantics, guarded), unary -, comparisons, and / or / not
                   (inherited from py2lean);  min(a, b) / max(a, b) on ints;  len(x) -> `(x.length : Int)`;
                   `r < indpb` on ρ;  x[i] -> `Gen.index x i` (negative i counts from the end; `none` = IndexError);
                   x[a:b] (step 1, any bound omitted) -> `Gen.slice x lo hi` (CPython's bound adjustment);  x[::-1] on a
                   list value -> `List.reverse`;  `[c] * n` -> `GenC.replicate n c`;  range(a) / range(a, b) -> `Gen.range`;
                   chain(l1, l2) (itertools) -> `l1 ++ l2`;  `type(E)(not E)` with the same subscript expression E twice
                   -> `GenC.typeNot E` (= `CrossMut.PyNot.pyNot`, bool(not x) / int(not x)); a local bound to `type(E)`
                   may stand for it.  Sub-expressions are evaluated left to right.
Statements         docstring, `pass`;  `v = e`, `v op= e` (+ - *);
                   `T1, …, Tn = E1, …, En`: ALL right-hand sides are evaluated first, left to right (slices are copied
                   at that moment), then the targets are assigned left to right, each target's subscript expressions
                   being evaluated when its turn comes (CPython's order);
                   targets: a name; `x[i] = v` -> `GenC.setIndex x i v` (IndexError = none); `x[a:b] = r` ->
                   `GenC.sliceSet x lo hi r` (the segment is replaced, bounds adjusted as CPython's list_ass_slice does);
                   `if / elif / else` (the rest of the block is duplicated into both branches);
                   `for i in <int list>: body` -> `GenC.forM list state (fun state i => body)` where the state is the
                   tuple of everything the body changes (re-bound outer variables, mutated cells, the tape; found by a
                   first rendering pass), `continue` allowed, `break` / `return` / `else` refused; a name first bound
                   inside the body, and the loop variable, may not be used after the loop;
                   `return` (above);  `warnings.warn(<literals / names>)` -> no effect on the state;
                   a call of a function of the same module, as a statement, as the whole right-hand side of an
                   assignment or as the whole `return` value: INLINED (arguments are passed as Python does: list
                   arguments alias the caller's cells; every `return` of the callee continues with the caller's rest).
REFUSED, e.g.      while, try, raise, with, classes, decorators, global, *args, keyword arguments, isinstance, repeat, zip,
                   enumerate, comprehensions, lambdas, float arithmetic, attribute access other than `.strategy` on an ES
                   parameter, string values, `is`, `in`, chained comparisons, stepped slices other than `[::-1]`,
                   slice assignment with a step, `del`, list methods (append / insert / pop / …), any call not listed,
                   recursion, re-binding the loop variable.
"""
import ast

import py2lean
from py2lean import B, I, L, Refuse, Scope, Val

R = ("R",)        # random() result / probability
G = ("G",)        # opaque gene
S = ("S",)        # opaque strategy element
ES = ("ES",)      # an individual with a `.strategy` list (parameter type only)


def lean_type(t):
    if t == I:
        return "Int"
    if t == R:
        return "ρ"
    if t == G:
        return "γ"
    if t == S:
        return "σ"
    if t[0] == "L":
        s = lean_type(t[1])
        return "List %s" % (s if " " not in s else "(%s)" % s)
    raise Refuse("no Lean type for %r" % (t,))


class Ref:
    """a Python name bound to a list object"""
    def __init__(self, cell):
        self.cell = cell


class CEnv:
    """names -> Val | Ref ; store: cell -> Val (current contents), '#tape' -> Val.  Forked (copied) at every branch."""
    def __init__(self, names=None, store=None):
        self.names = {} if names is None else names
        self.store = {} if store is None else store

    def fork(self):
        return CEnv(dict(self.names), dict(self.store))

    def raw(self, k):
        return self.names.get(k)

    def get(self, k):
        v = self.names.get(k)
        if isinstance(v, Ref):
            return self.store[v.cell]
        return v

    def set(self, k, v):
        self.names[k] = v


class Translator(py2lean.FunctionTranslator):
    def __init__(self, module, fn, sig):
        py2lean.FunctionTranslator.__init__(self, module, fn, sig)
        self.cells = 0
        self.param_cells = {}      # cell -> (python name, type)
        self.mutated = set()
        self.uses_pynot = False
        self.type_alias = {}       # local name -> ast.dump of E for `t = type(E)`

    # -- infrastructure ----------------------------------------------------------------------
    def bind(self, sc, optterm, ty, base="t"):
        n = self.fresh(base)
        sc.entries.append(("bind", n, optterm))
        return Val(n, ty)

    def let(self, sc, term, ty, base="u"):
        n = self.fresh(base)
        sc.entries.append(("let", n, term))
        return Val(n, ty)

    def new_cell(self, env, val):
        self.cells += 1
        env.store[self.cells] = val
        return Ref(self.cells)

    def tape(self, env):
        return env.store["#tape"].term

    def draw(self, env, sc, call, ty, base):
        p = self.fresh("d")
        sc.entries.append(("bind", p, call))
        v = self.let(sc, "%s.1" % p, ty, "v_" + base + "_")
        t = self.let(sc, "%s.2" % p, None, "tp")
        env.store["#tape"] = t
        return v

    def is_random(self, f, env):
        """random.<name> through `import random`"""
        if isinstance(f, ast.Attribute) and isinstance(f.value, ast.Name) and env.raw(f.value.id) is None \
                and self.global_name(f.value.id) == ("other", "random", None):
            return f.attr
        return None

    # -- expressions ---------------------------------------------------------------------------
    def e_Name(self, e, env, sc):
        b = env.get(e.id)
        if b is py2lean.LEAKED:
            raise Refuse("use of the loop-local name %s after its loop" % e.id)
        if isinstance(b, Val):
            return b
        raise Refuse("name %s (line %d)" % (e.id, e.lineno))

    def obj_ref(self, e, env):
        """the cell an expression DENOTES without copying (a name bound to a list, `x.strategy`), else None"""
        if isinstance(e, ast.Name):
            r = env.raw(e.id)
            return r if isinstance(r, Ref) else None
        if isinstance(e, ast.Attribute) and isinstance(e.value, ast.Name) and e.attr == "strategy":
            r = env.raw(e.value.id + ".strategy")
            return r if isinstance(r, Ref) else None
        return None

    def e_Attribute(self, e, env, sc):
        r = self.obj_ref(e, env)
        if r is not None:
            return env.store[r.cell]
        raise Refuse("attribute .%s (line %d)" % (e.attr, e.lineno))

    def e_Compare(self, e, env, sc):
        if len(e.ops) != 1:
            raise Refuse("chained comparison")
        a = self.expr(e.left, env, sc)
        b = self.expr(e.comparators[0], env, sc)
        if a.ty == R and b.ty == R:
            if isinstance(e.ops[0], ast.Lt):
                return Val("(%s < %s)" % (a.term, b.term), B)
            if isinstance(e.ops[0], ast.Gt):
                return Val("(%s < %s)" % (b.term, a.term), B)
            raise Refuse("comparison %s on random() results" % type(e.ops[0]).__name__)
        if a.ty != I or b.ty != I:
            raise Refuse("comparison of %r, %r (line %d)" % (a.ty, b.ty, e.lineno))
        op = e.ops[0]
        if isinstance(op, ast.Lt):
            return Val("(%s < %s)" % (a.term, b.term), B)
        if isinstance(op, ast.Gt):
            return Val("(%s < %s)" % (b.term, a.term), B)
        if isinstance(op, ast.LtE):
            return Val("(%s ≤ %s)" % (a.term, b.term), B)
        if isinstance(op, ast.GtE):
            return Val("(%s ≤ %s)" % (b.term, a.term), B)
        if isinstance(op, ast.Eq):
            return Val("(%s = %s)" % (a.term, b.term), B)
        if isinstance(op, ast.NotEq):
            return Val("(%s ≠ %s)" % (a.term, b.term), B)
        raise Refuse("comparison %s" % type(op).__name__)

    def e_BinOp(self, e, env, sc):
        if isinstance(e.op, ast.Mult) and isinstance(e.left, ast.List) and len(e.left.elts) == 1:
            c = self.expr(e.left.elts[0], env, sc)
            n = self.expr(e.right, env, sc)
            if n.ty != I or c.ty not in (I, G, S):
                raise Refuse("[c] * n with c : %r, n : %r" % (c.ty, n.ty))
            return Val("(GenC.replicate %s %s)" % (n.term, c.term), L(c.ty))
        a = self.expr(e.left, env, sc)
        b = self.expr(e.right, env, sc)
        if isinstance(e.op, ast.Add) and a.ty[0] == "L" and a.ty == b.ty:
            return Val("(%s ++ %s)" % (a.term, b.term), a.ty)
        if a.ty != I or b.ty != I:
            raise Refuse("arithmetic on %r, %r (line %d)" % (a.ty, b.ty, e.lineno))
        if isinstance(e.op, (ast.Add, ast.Sub, ast.Mult)):
            sym = {ast.Add: "+", ast.Sub: "-", ast.Mult: "*"}[type(e.op)]
            return Val("(%s %s %s)" % (a.term, sym, b.term), I)
        if isinstance(e.op, (ast.FloorDiv, ast.Mod)):
            d = self.bind(sc, "Gen.nz %s" % b.term, I, "d")
            f = "Int.fdiv" if isinstance(e.op, ast.FloorDiv) else "Int.fmod"
            return Val("(%s %s %s)" % (f, a.term, d.term), I)
        raise Refuse("operator %s" % type(e.op).__name__)

    def e_Subscript(self, e, env, sc):
        v = self.expr(e.value, env, sc)
        if v.ty is None or v.ty[0] != "L":
            raise Refuse("subscript of %r" % (v.ty,))
        s = e.slice
        if isinstance(s, ast.Slice):
            if s.step is not None:
                st = s.step
                if s.lower is None and s.upper is None and isinstance(st, ast.UnaryOp) and isinstance(st.op, ast.USub) \
                        and isinstance(st.operand, ast.Constant) and st.operand.value == 1 \
                        and not isinstance(st.operand.value, bool):
                    return Val("(List.reverse %s)" % v.term, v.ty)
                raise Refuse("slice with a step")
            lo, hi = self.slice_bounds(s, env, sc)
            return Val("(Gen.slice %s %s %s)" % (v.term, lo, hi), v.ty)
        i = self.expr(s, env, sc)
        if i.ty != I:
            raise Refuse("index of type %r (line %d)" % (i.ty, e.lineno))
        return self.bind(sc, "Gen.index %s %s" % (v.term, i.term), v.ty[1])

    def slice_bounds(self, s, env, sc):
        out = []
        for x in (s.lower, s.upper):
            if x is None:
                out.append("none")
            else:
                b = self.expr(x, env, sc)
                if b.ty != I:
                    raise Refuse("slice bound of type %r" % (b.ty,))
                out.append("(some %s)" % b.term)
        return out

    def comprehension(self, e, env, sc):
        raise Refuse("comprehension")

    e_GeneratorExp = comprehension
    e_ListComp = comprehension

    def e_List(self, e, env, sc):
        raise Refuse("list display")

    def e_Tuple(self, e, env, sc):
        raise Refuse("tuple used as a value")

    def e_IfExp(self, e, env, sc):
        raise Refuse("conditional expression")

    def e_Constant(self, e, env, sc):
        v = e.value
        if isinstance(v, int) and not isinstance(v, bool):
            return Val("(%d : Int)" % v, I, lit=v)
        raise Refuse("constant %r" % (v,))

    def e_Call(self, e, env, sc):
        if e.keywords or any(isinstance(a, ast.Starred) for a in e.args):
            raise Refuse("keyword / starred arguments (line %d)" % e.lineno)
        f, n = e.func, len(e.args)
        rnd = self.is_random(f, env)
        if rnd is not None:
            if rnd == "random" and n == 0:
                return self.draw(env, sc, "GenC.random %s" % self.tape(env), R, "r")
            if rnd == "randint" and n == 2:
                a = self.expr(e.args[0], env, sc)
                b = self.expr(e.args[1], env, sc)
                if a.ty != I or b.ty != I:
                    raise Refuse("randint of non-ints")
                return self.draw(env, sc, "GenC.randint %s %s %s" % (self.tape(env), a.term, b.term), I, "k")
            if rnd == "randrange" and n == 1:
                a = self.expr(e.args[0], env, sc)
                if a.ty != I:
                    raise Refuse("randrange of a non-int")
                return self.draw(env, sc, "GenC.randrange %s %s" % (self.tape(env), a.term), I, "k")
            raise Refuse("random.%s/%d (line %d)" % (rnd, n, e.lineno))
        # type(E)(not E)
        if n == 1 and isinstance(e.args[0], ast.UnaryOp) and isinstance(e.args[0].op, ast.Not):
            inner = e.args[0].operand
            te = None
            if isinstance(f, ast.Call) and isinstance(f.func, ast.Name) and f.func.id == "type" and env.raw("type") is None \
                    and self.global_name("type") is None and len(f.args) == 1 and not f.keywords:
                x1 = self.expr(f.args[0], env, sc)          # evaluated first, as Python does
                te = ast.dump(f.args[0])
            elif isinstance(f, ast.Name) and f.id in self.type_alias and env.raw(f.id) == "TYPE":
                te = self.type_alias[f.id]
            if te is not None:
                if te != ast.dump(inner) or not isinstance(inner, ast.Subscript):
                    raise Refuse("type(E)(not E') with different expressions")
                x = self.expr(inner, env, sc)
                if x.ty != G:
                    raise Refuse("type(E)(not E) on %r" % (x.ty,))
                self.uses_pynot = True
                return Val("(GenC.typeNot %s)" % x.term, G)
        if isinstance(f, ast.Name) and env.raw(f.id) is None:
            g = self.global_name(f.id)
            if g is None:
                name = f.id
                if name in ("min", "max") and n == 2:
                    a = self.expr(e.args[0], env, sc)
                    b = self.expr(e.args[1], env, sc)
                    if a.ty != I or b.ty != I:
                        raise Refuse("%s of non-ints" % name)
                    return Val("(%s %s %s)" % (name, a.term, b.term), I)
                if name == "len" and n == 1:
                    a = self.expr(e.args[0], env, sc)
                    if a.ty is None or a.ty[0] != "L":
                        raise Refuse("len of %r" % (a.ty,))
                    return Val("(%s.length : Int)" % a.term, I)
                if name == "range" and n in (1, 2):
                    args = [self.expr(a, env, sc) for a in e.args]
                    if any(a.ty != I for a in args):
                        raise Refuse("range of non-ints")
                    if n == 1:
                        return Val("(Gen.range (0 : Int) %s)" % args[0].term, L(I))
                    return Val("(Gen.range %s %s)" % (args[0].term, args[1].term), L(I))
                raise Refuse("call of %s/%d (line %d)" % (name, n, e.lineno))
            if g == ("other", "itertools", "chain") and n == 2:
                a = self.expr(e.args[0], env, sc)
                b = self.expr(e.args[1], env, sc)
                if a.ty != L(I) or b.ty != L(I):
                    raise Refuse("chain of %r, %r" % (a.ty, b.ty))
                return Val("(%s ++ %s)" % (a.term, b.term), L(I))
            if g[0] == "func":
                raise Refuse("call of %s inside an expression (line %d)" % (f.id, e.lineno))
        raise Refuse("call (line %d)" % e.lineno)

    # -- objects and assignment ----------------------------------------------------------------
    def eval_obj(self, e, env, sc):
        """Ref (the expression denotes an existing list object) or Val"""
        r = self.obj_ref(e, env)
        if r is not None:
            return r
        return self.expr(e, env, sc)

    def bind_name(self, name, obj, env, sc):
        if env.raw(name) == "LOOPVAR":
            raise Refuse("re-binding the loop variable %s" % name)
        if isinstance(obj, Ref):
            env.set(name, obj)
            return
        if obj.ty == B or obj.ty is None:
            raise Refuse("condition stored in a variable")
        v = self.let(sc, obj.term, obj.ty, "v_%s_" % name)
        v.lit = None
        if obj.ty[0] == "L":
            env.set(name, self.new_cell(env, v))
        else:
            env.set(name, v)

    def assign_target(self, t, obj, env, sc):
        if isinstance(t, ast.Name):
            self.bind_name(t.id, obj, env, sc)
            return
        if isinstance(t, ast.Subscript):
            r = self.obj_ref(t.value, env)
            if r is None:
                raise Refuse("item assignment to something that is not a list object (line %d)" % t.lineno)
            cur = env.store[r.cell]
            val = env.store[obj.cell] if isinstance(obj, Ref) else obj
            if isinstance(t.slice, ast.Slice):
                if t.slice.step is not None:
                    raise Refuse("slice assignment with a step")
                lo, hi = self.slice_bounds(t.slice, env, sc)
                if val.ty != cur.ty:
                    raise Refuse("slice assignment of %r into %r" % (val.ty, cur.ty))
                new = self.let(sc, "GenC.sliceSet %s %s %s %s" % (cur.term, lo, hi, val.term), cur.ty, "c%d_" % r.cell)
            else:
                i = self.expr(t.slice, env, sc)
                if i.ty != I:
                    raise Refuse("index of type %r" % (i.ty,))
                if val.ty != cur.ty[1]:
                    raise Refuse("item assignment of %r into %r (line %d)" % (val.ty, cur.ty, t.lineno))
                cur = env.store[r.cell]
                new = self.bind(sc, "GenC.setIndex %s %s %s" % (cur.term, i.term, val.term), cur.ty, "c%d_" % r.cell)
            env.store[r.cell] = new
            self.mutated.add(r.cell)
            return
        raise Refuse("assignment target %s (line %d)" % (type(t).__name__, t.lineno))

    def module_call(self, e, env):
        if isinstance(e, ast.Call) and isinstance(e.func, ast.Name) and env.raw(e.func.id) is None:
            g = self.global_name(e.func.id)
            if g is not None and g[0] == "func":
                return g[1]
        return None

    def is_warn(self, e, env):
        if isinstance(e, ast.Call) and isinstance(e.func, ast.Attribute) and isinstance(e.func.value, ast.Name) \
                and e.func.attr == "warn" and env.raw(e.func.value.id) is None \
                and self.global_name(e.func.value.id) == ("other", "warnings", None):
            return all(isinstance(a, (ast.Constant, ast.Name)) for a in e.args) and not e.keywords
        return False

    # -- statements (continuation style) -------------------------------------------------------
    def run(self, body, env, sc, k_end, k_ret, in_loop=False):
        body = list(body)
        for idx, st in enumerate(body):
            rest = body[idx + 1:]
            if isinstance(st, ast.Pass):
                continue
            if isinstance(st, ast.Expr) and isinstance(st.value, ast.Constant) and isinstance(st.value.value, str):
                continue
            if isinstance(st, ast.Expr) and self.is_warn(st.value, env):
                continue
            if isinstance(st, ast.Return):
                if in_loop:
                    raise Refuse("return inside a loop")
                if st.value is None:
                    raise Refuse("bare return")
                fd = self.module_call(st.value, env)
                if fd is not None:
                    return self.inline(fd, st.value, env, sc, lambda objs, cenv, csc: k_ret(objs, cenv, csc), None)
                elts = st.value.elts if isinstance(st.value, ast.Tuple) else [st.value]
                objs = [self.eval_obj(x, env, sc) for x in elts]
                final = k_ret(objs, env, sc)
                return self.wrap(sc, final)
            if isinstance(st, ast.If):
                c = self.expr(st.test, env, sc)
                if c.ty != B:
                    raise Refuse("condition is not a comparison (line %d)" % st.lineno)
                a = self.run(list(st.body) + rest, env.fork(), Scope(), k_end, k_ret, in_loop)
                b = self.run(list(st.orelse) + rest, env.fork(), Scope(), k_end, k_ret, in_loop)
                return self.wrap(sc, "(if %s then %s else %s)" % (c.term, a, b))
            if isinstance(st, ast.Continue):
                if not in_loop:
                    raise Refuse("continue outside a loop")
                break
            if isinstance(st, ast.For):
                self.loop(st, env, sc)
                continue
            if isinstance(st, ast.Expr):
                fd = self.module_call(st.value, env)
                if fd is None:
                    raise Refuse("expression statement (line %d)" % st.lineno)

                def k_after(objs, cenv, csc, rest=rest, env=env):
                    env2 = CEnv(dict(env.names), cenv.store)
                    return self.run(rest, env2, Scope(), k_end, k_ret, in_loop)
                return self.inline(fd, st.value, env, sc, k_after, k_after)
            if isinstance(st, ast.AugAssign):
                if not isinstance(st.target, ast.Name) or not isinstance(st.op, (ast.Add, ast.Sub, ast.Mult)):
                    raise Refuse("augmented assignment (line %d)" % st.lineno)
                fake = ast.BinOp(left=ast.Name(id=st.target.id, ctx=ast.Load(), lineno=st.lineno, col_offset=0), op=st.op,
                                 right=st.value, lineno=st.lineno, col_offset=0)
                v = self.expr(fake, env, sc)
                if v.ty != I:
                    raise Refuse("augmented assignment on %r" % (v.ty,))
                self.bind_name(st.target.id, v, env, sc)
                continue
            if isinstance(st, ast.Assign):
                if len(st.targets) != 1:
                    raise Refuse("chained assignment")
                tg = st.targets[0]
                fd = self.module_call(st.value, env)
                if fd is not None:
                    tgs = list(tg.elts) if isinstance(tg, ast.Tuple) else [tg]

                    def k_bind(objs, cenv, csc, rest=rest, env=env, tgs=tgs):
                        if len(objs) != len(tgs):
                            raise Refuse("unpacking %d values into %d targets" % (len(objs), len(tgs)))
                        env2 = CEnv(dict(env.names), cenv.store)
                        sc2 = Scope()
                        for t, o in zip(tgs, objs):
                            self.assign_target(t, o, env2, sc2)
                        return self.run(rest, env2, sc2, k_end, k_ret, in_loop)
                    return self.inline(fd, st.value, env, sc, k_bind, None)
                # a, b = random.sample(range(n), 2)
                if isinstance(tg, ast.Tuple) and len(tg.elts) == 2 and isinstance(st.value, ast.Call) \
                        and self.is_random(st.value.func, env) == "sample":
                    c = st.value
                    if len(c.args) == 2 and not c.keywords and isinstance(c.args[1], ast.Constant) and c.args[1].value == 2 \
                            and isinstance(c.args[0], ast.Call) and isinstance(c.args[0].func, ast.Name) \
                            and c.args[0].func.id == "range" and env.raw("range") is None and len(c.args[0].args) == 1 \
                            and all(isinstance(x, ast.Name) for x in tg.elts):
                        nn = self.expr(c.args[0].args[0], env, sc)
                        if nn.ty != I:
                            raise Refuse("sample(range(non-int))")
                        pr = self.draw(env, sc, "GenC.sample2 %s %s" % (self.tape(env), nn.term), None, "ab")
                        self.bind_name(tg.elts[0].id, Val("%s.1" % pr.term, I), env, sc)
                        self.bind_name(tg.elts[1].id, Val("%s.2" % pr.term, I), env, sc)
                        continue
                    raise Refuse("random.sample other than `a, b = random.sample(range(n), 2)`")
                # t = type(E)
                if isinstance(tg, ast.Name) and isinstance(st.value, ast.Call) and isinstance(st.value.func, ast.Name) \
                        and st.value.func.id == "type" and env.raw("type") is None and self.global_name("type") is None \
                        and len(st.value.args) == 1 and not st.value.keywords and isinstance(st.value.args[0], ast.Subscript):
                    self.expr(st.value.args[0], env, sc)           # the read happens (and may raise) here
                    self.type_alias[tg.id] = ast.dump(st.value.args[0])
                    env.set(tg.id, "TYPE")
                    continue
                if isinstance(tg, ast.Tuple):
                    if not isinstance(st.value, ast.Tuple) or len(st.value.elts) != len(tg.elts):
                        raise Refuse("tuple assignment from a non-display (line %d)" % st.lineno)
                    if any(isinstance(x, ast.Starred) for x in list(tg.elts) + list(st.value.elts)):
                        raise Refuse("starred assignment")
                    objs = [self.eval_obj(x, env, sc) for x in st.value.elts]
                    # a Ref on the right-hand side of a subscript target is read NOW (x[i] = y stores y's contents
                    # element-wise only for slices; for names it stays an alias)
                    for t, o in zip(tg.elts, objs):
                        self.assign_target(t, o, env, sc)
                    continue
                obj = self.eval_obj(st.value, env, sc)
                self.assign_target(tg, obj, env, sc)
                continue
            raise Refuse("statement %s (line %d)" % (type(st).__name__, st.lineno))
        final = k_end(env, sc)
        return self.wrap(sc, final)

    def inline(self, fd, call, env, sc, k_ret, k_end):
        """the body of the module function `fd`, continuing with k_ret(objs, env, sc) at every `return`
        (k_end: falling off the end; None = refused)"""
        if fd.name in self.inline_stack or fd.name == self.fn.name:
            raise Refuse("recursion through %s" % fd.name)
        if fd.decorator_list:
            raise Refuse("call of the decorated function %s" % fd.name)
        if call.keywords or any(isinstance(a, ast.Starred) for a in call.args):
            raise Refuse("keyword / starred arguments")
        params = self.params_of(fd.args)
        if fd.args.defaults or len(params) != len(call.args):
            raise Refuse("call of %s with %d arguments" % (fd.name, len(call.args)))
        objs = [self.eval_obj(a, env, sc) for a in call.args]
        cenv = CEnv({}, env.store)
        for p, o in zip(params, objs):
            if isinstance(o, Ref):
                cenv.set(p, o)
                a = call.args[params.index(p)]
                if isinstance(a, ast.Name) and isinstance(env.raw(a.id + ".strategy"), Ref):   # an ES argument brings its strategy along
                    cenv.set(p + ".strategy", env.raw(a.id + ".strategy"))
            else:
                if o.ty == B or o.ty is None:
                    raise Refuse("condition passed as an argument")
                cenv.set(p, Val(o.term, o.ty))
        self.inline_stack.append(fd.name)
        try:
            def end(e2, s2):
                if k_end is None:
                    raise Refuse("%s can fall off its end but its value is used" % fd.name)
                self.inline_stack.pop()
                try:
                    return k_end([], e2, s2)
                finally:
                    self.inline_stack.append(fd.name)

            def ret(objs2, e2, s2):
                self.inline_stack.pop()
                try:
                    return k_ret(objs2, e2, s2)
                finally:
                    self.inline_stack.append(fd.name)
            return self.run(fd.body, cenv, sc, end, ret)
        finally:
            self.inline_stack.pop()

    def loop(self, st, env, sc):
        if st.orelse:
            raise Refuse("for/else")
        if not isinstance(st.target, ast.Name):
            raise Refuse("loop target (line %d)" % st.lineno)
        for node in ast.walk(st):
            if isinstance(node, (ast.Break, ast.While)):
                raise Refuse("%s inside a loop" % type(node).__name__)
        src = self.expr(st.iter, env, sc)
        if src.ty != L(I):
            raise Refuse("iteration over %r (line %d)" % (src.ty, st.lineno))
        tname = st.target.id
        if env.raw(tname) is not None and env.raw(tname) is not py2lean.LEAKED:      # an earlier loop's variable may be re-used
            raise Refuse("loop variable %s re-uses a name" % tname)
        lv = self.fresh("i")

        def refuse_ret(objs, e2, s2):
            raise Refuse("return inside a loop")

        def body_env(base):
            e = base.fork()
            e.set(tname, Val(lv, I))
            return e
        # pass 1: what does the body change?
        changed = []
        saved = (self.counter, self.cells, set(self.mutated), dict(self.type_alias))

        def k_probe(e2, s2):
            for cell, v in env.store.items():
                if e2.store[cell].term != v.term and ("cell", cell) not in changed:
                    changed.append(("cell", cell))
            for nm, v in env.names.items():
                if isinstance(v, Val) and nm != tname:
                    w = e2.names.get(nm)
                    if not (isinstance(w, Val) and w.term == v.term) and ("name", nm) not in changed:
                        changed.append(("name", nm))
                elif isinstance(v, Ref):
                    w = e2.names.get(nm)
                    if not (isinstance(w, Ref) and w.cell == v.cell):
                        raise Refuse("loop body re-binds the list name %s" % nm)
            return "none"
        probe_env = body_env(env)
        probe_env.set(tname, Val(lv, I))
        self.run(st.body, probe_env, Scope(), k_probe, refuse_ret, in_loop=True)
        self.counter, self.cells, _, self.type_alias = saved
        if not changed:
            raise Refuse("loop without effect (line %d)" % st.lineno)
        changed.sort(key=lambda c: (0, c[1]) if c[0] == "cell" and c[1] != "#tape" else (1, c[1]) if c[0] == "name" else (2, ""))
        for c in changed:
            if c[0] == "name" and env.names[c[1]].ty != I:
                raise Refuse("loop re-binds the non-int variable %s" % c[1])
        # pass 2
        s = self.fresh("s")

        def proj(var, k, n):
            if n == 1:
                return var
            return "%s%s" % (var, ".2" * k + (".1" if k < n - 1 else ""))
        benv = body_env(env)
        bsc = Scope()
        outer_names = set(env.names)
        for k, c in enumerate(changed):
            if c[0] == "cell":
                old = env.store[c[1]]
                benv.store[c[1]] = self.let(bsc, proj(s, k, len(changed)), old.ty, "tp" if c[1] == "#tape" else "c%s_" % c[1])
            else:
                old = env.names[c[1]]
                benv.names[c[1]] = self.let(bsc, proj(s, k, len(changed)), old.ty, "v_%s_" % c[1])

        def cur(e2, c):
            return e2.store[c[1]].term if c[0] == "cell" else e2.names[c[1]].term

        def k_body(e2, s2):
            return "some (%s)" % ", ".join(cur(e2, c) for c in changed)
        # the loop variable must not be re-bound: checked syntactically
        for node in ast.walk(ast.Module(body=st.body, type_ignores=[])):
            if isinstance(node, ast.Name) and node.id == tname and isinstance(node.ctx, ast.Store):
                raise Refuse("re-binding the loop variable %s" % tname)
        body = self.run(st.body, benv, bsc, k_body, refuse_ret, in_loop=True)
        init = "(%s)" % ", ".join(cur(env, c) for c in changed)
        res = self.fresh("s")
        sc.entries.append(("bind", res, "GenC.forM %s %s (fun %s (%s : Int) => %s)" % (src.term, init, s, lv, body)))
        for k, c in enumerate(changed):
            if c[0] == "cell":
                old = env.store[c[1]]
                env.store[c[1]] = self.let(sc, proj(res, k, len(changed)), old.ty, "tp" if c[1] == "#tape" else "c%s_" % c[1])
                if c[1] != "#tape":
                    self.mutated.add(c[1])
            else:
                old = env.names[c[1]]
                env.names[c[1]] = self.let(sc, proj(res, k, len(changed)), old.ty, "v_%s_" % c[1])
        # names first bound inside the body (and the loop variable) are not available afterwards
        env.set(tname, py2lean.LEAKED)
        self._body_names = [n.id for n in ast.walk(ast.Module(body=st.body, type_ignores=[]))
                            if isinstance(n, ast.Name) and isinstance(n.ctx, ast.Store)]
        for nm in self._body_names:
            if nm not in outer_names:
                env.set(nm, py2lean.LEAKED)

    # -- the function --------------------------------------------------------------------------
    def translate(self, lean_name):
        fn = self.fn
        if fn.decorator_list:
            raise Refuse("decorated function")
        params = self.params_of(fn.args)
        if fn.args.defaults:
            raise Refuse("default values")
        env = CEnv()
        binders = []
        ret_types = {}
        for p in params:
            if p not in self.sig:
                raise Refuse("no declared type for parameter %s" % p)
            t = self.sig[p]
            n = "v_" + p
            if t == ES:
                r1 = self.new_cell(env, Val(n, L(G)))
                r2 = self.new_cell(env, Val(n + "_strategy", L(S)))
                env.set(p, r1)
                env.set(p + ".strategy", r2)
                self.param_cells[r1.cell] = (p, "ESg", r2.cell)
                self.param_cells[r2.cell] = (p, "ESs", r1.cell)
                binders.append("(%s : List γ) (%s_strategy : List σ)" % (n, n))
            elif t[0] == "L":
                r = self.new_cell(env, Val(n, t))
                env.set(p, r)
                self.param_cells[r.cell] = (p, "L", None)
                binders.append("(%s : %s)" % (n, lean_type(t)))
            else:
                env.set(p, Val(n, t))
                binders.append("(%s : %s)" % (n, lean_type(t)))
        env.store["#tape"] = Val("tp", None)
        binders.append("(tp : GenC.Tape ρ)")
        result = {}

        def k_ret(objs, e2, s2):
            cells = []
            for o in objs:
                if not isinstance(o, Ref) or o.cell not in self.param_cells or self.param_cells[o.cell][1] == "ESs":
                    raise Refuse("return of something that is not a parameter object")
                cells.append(o.cell)
            if len(set(cells)) != len(cells):
                raise Refuse("the same object returned twice")
            parts, tys = [], []
            covered = set()
            for c in cells:
                kind = self.param_cells[c]
                if kind[1] == "ESg":
                    parts.append("(%s, %s)" % (e2.store[c].term, e2.store[kind[2]].term))
                    tys.append("(List γ × List σ)")
                    covered |= {c, kind[2]}
                else:
                    parts.append(e2.store[c].term)
                    tys.append(lean_type(e2.store[c].ty))
                    covered.add(c)
            sig = tuple(tys)
            if result.setdefault("ty", sig) != sig:
                raise Refuse("returns of different shapes")
            result.setdefault("covered", []).append(covered)
            inner = parts[0] if len(parts) == 1 else "(%s)" % ", ".join(parts)
            return "some (%s, %s)" % (inner, e2.store["#tape"].term)

        def k_end(e2, s2):
            raise Refuse("a path reaches the end of the function without `return`")
        body = self.run(fn.body, env, Scope(), k_end, k_ret)
        for cov in result.get("covered", []):
            lost = [self.param_cells[c][0] for c in self.mutated if c in self.param_cells and c not in cov]
            if lost:
                raise Refuse("the mutated parameter %s is not returned" % lost[0])
        tys = result["ty"]
        rty = tys[0] if len(tys) == 1 else "(%s)" % " × ".join(tys)
        inst = "[CrossMut.PyNot γ] " if self.uses_pynot else ""
        text = "def %s %s%s : Option (%s × GenC.Tape ρ) :=\n  %s" % (lean_name, inst, " ".join(binders), rty, body)
        return text, rty


def translate_function(module, name, sig, lean_name):
    fn = module.functions.get(name)
    if fn is None:
        raise Refuse("no module-level function %s" % name)
    return Translator(module, fn, sig).translate(lean_name)
