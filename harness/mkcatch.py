#!/venv/bin/python
"""Regenerates the catch matrix (DESIGN.md section 12, between the CATCH markers) from seeded/*/meta.json and seeded/RESULTS.json."""
import json
import os

VERIF = os.path.dirname(os.path.dirname(os.path.abspath(__file__)))
sd = os.path.join(VERIF, "seeded")
res = json.load(open(os.path.join(sd, "RESULTS.json")))
rows = []
for sid in sorted(os.listdir(sd)):
    mp = os.path.join(sd, sid, "meta.json")
    if not os.path.exists(mp):
        continue
    meta = json.load(open(mp))
    r = res.get(sid)
    if r is None:
        verdict = "not run yet"
    elif "error" in r:
        verdict = "patch no longer applies"
    else:
        parts = []
        for pid, c in sorted(r["checks"].items()):
            if c["exit"] == 1 and c["violation_line"]:
                kind = "no-failing-input-found (model/proof break named)" if "no-failing-input-found" in c["violation_line"] \
                    else "concrete failing input (%s)" % (c.get("replay_kind") or "oracle")
                parts.append("%s: VIOLATION, %s" % (pid, kind))
            elif meta.get("outside_property"):
                parts.append("%s: exit %s - judged OUTSIDE the property's quantifier: %s" % (pid, c["exit"], meta["outside_property"]))
            else:
                parts.append("%s: **missed** (exit %s)" % (pid, c["exit"]))
        verdict = "; ".join(parts)
    needs = meta.get("needs", "")
    needs = " ".join(str(needs).split())[:260]
    origin = "revert of a fix" if sid.startswith("revert-") else "independent sub-agent"
    rows.append("| `%s` | %s | %s | %s | %s |" % (sid, meta["property"], origin, needs.replace("|", "/"), verdict))
table = "\n".join(["| seeded change | property | origin | needs, in order to manifest | quick check verdict |",
                   "|---|---|---|---|---|"] + rows)
caught = sum(1 for r in res.values() if r.get("caught"))
outside = 0
for sid, r in res.items():
    mp = os.path.join(sd, sid, "meta.json")
    if not r.get("caught") and os.path.exists(mp) and json.load(open(mp)).get("outside_property"):
        outside += 1
summary = "%d seeded changes run, %d caught, %d missed, %d judged outside the property's quantifier (not counted as missed)." % (
    len(res), caught, len(res) - caught - outside, outside)
p = os.path.join(VERIF, "DESIGN.md")
s = open(p).read()
a, b = "<!-- CATCH-BEGIN -->", "<!-- CATCH-END -->"
block = a + "\n" + summary + "\n\n" + table + "\n" + b
if a in s:
    s = s[:s.index(a)] + block + s[s.index(b) + len(b):]
else:
    s += "\n---------------------------------------------------------------------------\n\n## 12. Seeded changes and which checks catch them\n\n" \
         "Each directory `seeded/<id>/` holds `patch.diff`, a demonstration (for the sub-agent changes) and `meta.json`.\n" \
         "Sub-agent changes were written by fresh agents that saw only the property text and a scratch worktree; each was\n" \
         "confirmed by `harness/import_seed.py` (demo passes on the clean tree, patch applies, 45 baseline tests pass, demo fails).\n" \
         "`harness/seedtest.py` applies each patch to `/repo`, runs the property's quick check and reverts; this table is\n" \
         "regenerated from its output by `harness/mkcatch.py`.\n\n" + block + "\n"
open(p, "w").write(s)
print(summary)
